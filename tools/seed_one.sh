#!/bin/bash
# seed_one.sh <seed-dir> <scratch-root>: applies one seeded change to a scratch copy of /repo (never to /repo),
# runs all quick checks against the copy, prints "<name>\t<fired>" and updates the seed's meta.json.
d=$(realpath "${1%/}"); SCR=$2
name=$(basename "$d")
WT="$SCR/$name"
mkdir -p "$WT" && rsync -a --exclude .git --exclude '*.nc' /repo/ "$WT/" || exit 2
( cd "$WT" && patch -s -p1 < "$d/patch.diff" ) || { echo -e "$name\tpatch does not apply"; rm -rf "$WT"; exit 0; }
export SA_EVIDENCE_DIR="$WT/.evidence"
fired=""
for P in $(seq -w 1 20); do
  OUTP=$(cd /verif && ./check C$P --repo "$WT" 2>&1); RC=$?
  if [ $RC -eq 1 ]; then
    rules=$(echo "$OUTP" | grep -E "^  ladim|^  doc|^  -" | grep -oE " R[0-9]{2}\.[0-9A-Za-z]+" | sort -u | tr -d ' ' | tr '\n' ',' | sed 's/,$//')
    fired="$fired C$P($rules)"
  elif [ $RC -eq 2 ]; then fired="$fired C$P(analysis-error)"; fi
done
rm -rf "$WT"
/venv/bin/python - "$d/meta.json" "$fired" <<'PY'
import json,sys
m=json.load(open(sys.argv[1])); m["detected_by"]=sys.argv[2].split(); json.dump(m,open(sys.argv[1],"w"),indent=1)
PY
echo -e "$name\t$fired"
