#!/bin/bash
# keep_seed.sh <worktree> <property> <slug> "<needs>"
# Confirms a seeded change (demo passes on the original tree, fails on the changed one; the pinned
# baseline still passes with the change), runs every check against the changed worktree, and stores
# patch.diff + demo + meta.json under /verif/seeded/<property>-<slug>/ . The worktree is removed.
set -u
WT=$1; PID=$2; SLUG=$3; NEEDS=${4:-}
DEST=/verif/seeded/$PID-$SLUG
cd "$WT" || exit 2
DEMO=$(ls demo_*.py | head -1)
[ -f patch.diff ] || git diff -- ladim > patch.diff
git checkout -q -- ladim
PYTHONPATH=$WT /venv/bin/python $DEMO >/tmp/seed_orig_$PID.log 2>&1; RC_ORIG=$?
git apply patch.diff || { echo "patch does not apply"; exit 2; }
PYTHONPATH=$WT /venv/bin/python $DEMO >/tmp/seed_mod_$PID.log 2>&1; RC_MOD=$?
echo "demo: original rc=$RC_ORIG ($(tail -1 /tmp/seed_orig_$PID.log | cut -c1-80)) modified rc=$RC_MOD ($(tail -1 /tmp/seed_mod_$PID.log | cut -c1-80))"
BASE=$(/verif/tools/baseline.sh "$WT" | head -1)
echo "baseline with the change: $BASE"
FIRED=""
for P in $(seq -w 1 20); do
  if [ -f /verif/sa/rules/c$P.py ]; then
    OUT=$(cd /verif && ./check C$P --repo "$WT" 2>&1); RC=$?
    if [ $RC -eq 1 ]; then FIRED="$FIRED C$P"; echo "--- C$P fires:"; echo "$OUT" | grep -A3 "^VIOLATION" | cut -c1-260; fi
    if [ $RC -eq 2 ]; then FIRED="$FIRED C$P(analysis-error)"; echo "--- C$P analysis error:"; echo "$OUT" | grep "ANALYSIS-ERROR" | cut -c1-260; fi
  fi
done
echo "checks firing: ${FIRED:-none}"
if [ $RC_ORIG -eq 0 ] && [ $RC_MOD -ne 0 ] && echo "$BASE" | grep -q "baseline_missing=0"; then
  mkdir -p "$DEST"
  cp patch.diff "$DEST/patch.diff"; cp $DEMO "$DEST/"
  /venv/bin/python - "$DEST" "$PID" "$NEEDS" "$FIRED" "$BASE" "$DEMO" <<'PY'
import json,sys
dest,pid,needs,fired,base,demo=sys.argv[1:7]
json.dump({"property":pid,"needs_to_manifest":needs,"demonstration":demo,
 "confirmed":{"demo_on_original":"exit 0","demo_on_changed":"exit != 0","baseline_with_change":base,
 "how":"tools/keep_seed.sh: git checkout -- ladim; run demo; git apply patch.diff; run demo; tools/baseline.sh <worktree>"},
 "checks_run":"./check Cxx --repo <worktree> for every built property","detected_by":fired.split()},open(dest+"/meta.json","w"),indent=1)
PY
  echo "kept as $DEST"
else
  echo "NOT KEPT (demo/baseline conditions not met)"
fi
cd / && git -C /repo worktree remove --force "$WT" && echo "worktree removed"
