#!/bin/bash
# keep_seed2.sh <agent-worktree> <A|B> <property> <slug>
# For agent worktrees holding two candidate changes (A.diff/demo_A.py/A.txt, B...). Works on a scratch copy,
# never on /repo and leaves the agent worktree alone. Confirms: demo exits 0 on the original tree and != 0 on the
# changed one, the pinned baseline still passes with the change; then runs all 20 quick checks (in parallel)
# against the changed copy and stores patch.diff + demo + meta.json under /verif/seeded/<property>-<slug>/ .
set -u
WT=$1; X=$2; PID=$3; SLUG=$4
DEST=/verif/seeded/$PID-$SLUG
SCR=$(mktemp -d /tmp/ks2.XXXXXX)
rsync -a --exclude .git --exclude '*.diff' --exclude 'demo_*' /repo/ "$SCR/" || exit 2
cp "$WT/$X.diff" "$SCR/patch.diff"; cp "$WT/demo_$X.py" "$SCR/demo_$SLUG.py"
NEEDS=$(tr '\n' ' ' < "$WT/$X.txt")
cd "$SCR"
PYTHONPATH=$SCR timeout 300 /venv/bin/python demo_$SLUG.py >$SCR/orig.log 2>&1; RC_ORIG=$?
patch -s -p1 < patch.diff || { echo "patch does not apply"; rm -rf "$SCR"; exit 2; }
PYTHONPATH=$SCR timeout 300 /venv/bin/python demo_$SLUG.py >$SCR/mod.log 2>&1; RC_MOD=$?
echo "demo: original rc=$RC_ORIG ($(tail -1 $SCR/orig.log | cut -c1-80)) modified rc=$RC_MOD ($(tail -1 $SCR/mod.log | cut -c1-100))"
BASE=$(/verif/tools/baseline.sh "$SCR" | head -1)
echo "baseline with the change: $BASE"
export SA_EVIDENCE_DIR="$SCR/.evidence"
for P in $(seq -w 1 20); do
  ( cd /verif && ./check C$P --repo "$SCR" > $SCR/out_$P.txt 2>&1; echo $? > $SCR/rc_$P.txt ) &
done
wait
FIRED=""
for P in $(seq -w 1 20); do
  RC=$(cat $SCR/rc_$P.txt)
  if [ $RC -eq 1 ]; then
    rules=$(grep -E "^  ladim|^  doc|^  -" $SCR/out_$P.txt | grep -oE " R[0-9]{2}\.[0-9A-Za-z]+" | sort -u | tr -d ' ' | tr '\n' ',' | sed 's/,$//')
    FIRED="$FIRED C$P($rules)"
    if [ "C$P" = "$PID" ]; then echo "--- C$P fires:"; grep -A2 "^VIOLATION" $SCR/out_$P.txt | cut -c1-300 | head -8; fi
  elif [ $RC -eq 2 ]; then FIRED="$FIRED C$P(analysis-error)"; grep "ANALYSIS-ERROR" $SCR/out_$P.txt | cut -c1-260; fi
done
echo "checks firing: ${FIRED:-none}"
if [ $RC_ORIG -eq 0 ] && [ $RC_MOD -ne 0 ] && echo "$BASE" | grep -q "baseline_missing=0"; then
  mkdir -p "$DEST"
  cp patch.diff "$DEST/patch.diff"; cp demo_$SLUG.py "$DEST/"
  /venv/bin/python - "$DEST" "$PID" "$NEEDS" "$FIRED" "$BASE" "demo_$SLUG.py" <<'PY'
import json,sys
dest,pid,needs,fired,base,demo=sys.argv[1:7]
json.dump({"property":pid,"needs_to_manifest":needs.strip(),"demonstration":demo,
 "confirmed":{"demo_on_original":"exit 0","demo_on_changed":"exit != 0","baseline_with_change":base,
 "how":"tools/keep_seed2.sh: scratch copy of /repo; run demo; apply patch.diff; run demo; tools/baseline.sh <copy>"},
 "checks_run":"./check Cxx --repo <copy> for every property","detected_by":fired.split()},open(dest+"/meta.json","w"),indent=1)
PY
  echo "kept as $DEST"
else
  echo "NOT KEPT (demo/baseline conditions not met)"; tail -5 $SCR/orig.log
fi
cd /; rm -rf "$SCR"
