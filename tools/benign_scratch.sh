#!/bin/bash
# benign_scratch.sh <property> <path-fragment> [jobs]: every benign patch that touches a file matching the fragment is
# applied to a scratch copy of /repo (never /repo itself) and the property's quick check must stay silent.
P=$1; FRAG=$2; J=${3:-12}
one() {
  f=$1; P=$2
  S=$(mktemp -d /tmp/bs.XXXXXX)
  rsync -a --exclude .git --exclude '*.nc' /repo/ $S/
  if (cd $S && patch -s -p1 < $f >/dev/null 2>&1); then
    OUT=$(cd /verif && SA_EVIDENCE_DIR=$S/.ev ./check $P --repo $S 2>&1); RC=$?
    [ $RC -ne 0 ] && { echo "ALARM rc=$RC $P $(basename $f)"; echo "$OUT" | grep -A2 -E "^VIOLATION|ANALYSIS-ERROR" | cut -c1-300 | head -4; }
  else echo "noapply $(basename $f)"; fi
  rm -rf $S
}
export -f one
grep -l -- "$FRAG" /verif/benign/*.diff | xargs -P $J -I{} bash -c "one {} $P"
echo "done $P $(grep -l -- "$FRAG" /verif/benign/*.diff | wc -l) patches"
