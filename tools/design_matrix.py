#!/usr/bin/env python3
"""Copy seeded/MATRIX.md into DESIGN.md between the MATRIX markers."""
import pathlib, re
root = pathlib.Path(__file__).resolve().parent.parent
d = (root / "DESIGN.md").read_text()
m = (root / "seeded" / "MATRIX.md").read_text().strip()
d = re.sub(r"<!-- MATRIX-BEGIN -->.*?<!-- MATRIX-END -->", "<!-- MATRIX-BEGIN -->\n" + m.replace("\\", "\\\\") + "\n<!-- MATRIX-END -->", d, flags=re.S)
(root / "DESIGN.md").write_text(d)
print("DESIGN.md section 7 table refreshed:", m.count("\n") - 1, "seeded changes")
