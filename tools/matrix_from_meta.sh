#!/bin/bash
# Regenerates seeded/MATRIX.md from the meta.json files as they are (no check is run); then tools/design_matrix.py.
OUT=/verif/seeded/MATRIX.md
echo "| seeded change | breaks | needs to manifest | detected by (rules) |" > $OUT
echo "|---|---|---|---|" >> $OUT
for d in /verif/seeded/*/; do
  name=$(basename $d)
  /venv/bin/python - "$d/meta.json" "$name" >> $OUT <<'PY'
import json,sys
m=json.load(open(sys.argv[1]))
fired=" ".join(m.get("detected_by",[])) or "**none (documented miss)**"
needs=" ".join(m['needs_to_manifest'].split())
if len(needs) > 700: needs = needs[:700].rsplit(' ',1)[0] + " ..."
print(f"| {sys.argv[2]} | {m['property']} | {needs.replace('|','/')} |  {fired} |")
PY
done
/venv/bin/python /verif/tools/design_matrix.py
