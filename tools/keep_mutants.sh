#!/bin/bash
# keep_mutants.sh <worktree> <property> : the worktree holds mutants/K.diff, mutants/K.txt, mutants/demo_K.py (K = 1..)
# Each mutant is confirmed like a seeded change (demo passes on the original tree, fails with the mutant, pinned
# baseline still passes), all checks are run against the mutated worktree, and it is stored as
# /verif/seeded/<property>-small-<round>-K/ . The worktree is removed at the end.
set -u
WT=$1; PID=$2; ROUND=${3:-6}
export SA_EVIDENCE_DIR=${SA_EVIDENCE_DIR:-/tmp/keepseed_ev_$PID}
cd "$WT" || exit 2
for D in mutants/[0-9]*.diff; do
  [ -f "$D" ] || continue
  K=$(basename "$D" .diff)
  DEMO=mutants/demo_$K.py
  [ -f "$DEMO" ] || { echo "$PID/$K: no demo"; continue; }
  git checkout -q -- ladim
  PYTHONPATH=$WT /venv/bin/python $DEMO >/tmp/mut_orig_$PID.log 2>&1; RC_ORIG=$?
  git apply "$D" || { echo "$PID/$K: patch does not apply"; continue; }
  PYTHONPATH=$WT /venv/bin/python $DEMO >/tmp/mut_mod_$PID.log 2>&1; RC_MOD=$?
  BASE=$(/verif/tools/baseline.sh "$WT" | head -1)
  FIRED=""
  for P in $(seq -w 1 20); do
    OUT=$(cd /verif && ./check C$P --repo "$WT" 2>&1); RC=$?
    if [ $RC -eq 1 ]; then
      rules=$(echo "$OUT" | grep -E "^  ladim|^  doc|^  -" | grep -oE " R[0-9]{2}\.[0-9A-Za-z]+" | sort -u | tr -d ' ' | tr '\n' ',' | sed 's/,$//')
      FIRED="$FIRED C$P($rules)"
    elif [ $RC -eq 2 ]; then FIRED="$FIRED C$P(analysis-error)"; fi
  done
  NEEDS=$(head -c 600 mutants/$K.txt 2>/dev/null | tr '\n' ' ' | tr -d '`')
  echo "$PID/$K: demo orig rc=$RC_ORIG mod rc=$RC_MOD; $BASE; fired:${FIRED:- none} :: $(echo "$NEEDS" | cut -c1-110)"
  if [ $RC_ORIG -eq 0 ] && [ $RC_MOD -ne 0 ] && echo "$BASE" | grep -q "baseline_missing=0"; then
    DEST=/verif/seeded/$PID-small-$ROUND-$K
    mkdir -p "$DEST"
    cp "$D" "$DEST/patch.diff"; cp "$DEMO" "$DEST/demo_$PID.py"
    /venv/bin/python - "$DEST" "$PID" "$NEEDS" "$FIRED" "$BASE" "demo_$PID.py" <<'PY'
import json,sys
dest,pid,needs,fired,base,demo=sys.argv[1:7]
json.dump({"property":pid,"needs_to_manifest":needs.strip(),"demonstration":demo,
 "confirmed":{"demo_on_original":"exit 0","demo_on_changed":"exit != 0","baseline_with_change":base,
 "how":"tools/keep_mutants.sh: git checkout -- ladim; run demo; git apply K.diff; run demo; tools/baseline.sh <worktree>"},
 "checks_run":"./check Cxx --repo <worktree> for every property","detected_by":fired.split()},open(dest+"/meta.json","w"),indent=1)
PY
  else
    echo "$PID/$K: NOT KEPT"
  fi
done
git checkout -q -- ladim
cd / && git -C /repo worktree remove --force "$WT" && echo "$PID: worktree removed"
rm -rf "$SA_EVIDENCE_DIR"
