#!/bin/bash
# Applies every kept seeded change to /repo (git apply), runs all quick checks, reverts (git checkout -- .),
# and prints / stores the detection matrix (seeded/MATRIX.md). /repo must be clean.
cd /repo || exit 2
if [ -n "$(git status --porcelain)" ]; then echo "/repo is not clean"; exit 2; fi
OUT=/verif/seeded/MATRIX.md
echo "| seeded change | breaks | needs to manifest | detected by (rules) |" > $OUT
echo "|---|---|---|---|" >> $OUT
for d in /verif/seeded/*/; do
  name=$(basename $d)
  [ -f $d/patch.diff ] || continue
  git apply $d/patch.diff || { echo "$name: patch does not apply"; continue; }
  fired=""
  for P in $(seq -w 1 20); do
    OUTP=$(cd /verif && ./check C$P 2>&1); RC=$?
    if [ $RC -eq 1 ]; then
      rules=$(echo "$OUTP" | grep -E "^  ladim|^  doc|^  -" | grep -oE " R[0-9]{2}\.[0-9A-Za-z]+" | sort -u | tr -d ' ' | tr '\n' ',' | sed 's/,$//')
      fired="$fired C$P($rules)"
    elif [ $RC -eq 2 ]; then fired="$fired C$P(analysis-error)"; fi
  done
  git checkout -q -- .
  prop=$(/venv/bin/python -c "import json;print(json.load(open('$d/meta.json'))['property'])")
  needs=$(/venv/bin/python -c "import json;print(json.load(open('$d/meta.json'))['needs_to_manifest'].replace('|','/'))")
  /venv/bin/python - "$d/meta.json" "$fired" <<'PY'
import json,sys
m=json.load(open(sys.argv[1])); m["detected_by"]=sys.argv[2].split(); json.dump(m,open(sys.argv[1],"w"),indent=1)
PY
  echo "| $name | $prop | $needs | ${fired:-**none (documented miss)**} |" >> $OUT
  echo "$name -> ${fired:-none}"
done
cd /verif && for P in $(seq -w 1 20); do ./check C$P >/dev/null 2>&1; done   # restore evidence of the unchanged tree
