#!/venv/bin/python
"""Mutation scan of the checkers (diagnostic, not a registered check): one small mutant per site - a changed
comparison operator, + for -, an integer literal off by one, the first two positional arguments exchanged, a
dropped statement - in the functions of the anchored modules; every quick check is run against a scratch copy.
A mutant no check reports is a *survivor*: it is either equivalent / irrelevant to the properties (logging,
formatting) or a blind spot to look at by hand. Usage: tools/mut_fuzz.py [jobs] [filter] ; prints survivors."""

from __future__ import annotations

import ast
import copy
import os
import shutil
import subprocess
import sys
import tempfile
from concurrent.futures import ProcessPoolExecutor
from pathlib import Path

REPO = Path("/repo")
VERIF = Path("/verif")
CHECKS = [f"C{i:02d}" for i in range(1, 21)]
MODULES = ["tracker", "state", "sample", "ROMS", "timekeeper", "out_netcdf", "warm_start", "model", "main", "release", "configure"]

CMP = {ast.Lt: ast.LtE, ast.LtE: ast.Lt, ast.Gt: ast.GtE, ast.GtE: ast.Gt, ast.Eq: ast.NotEq, ast.NotEq: ast.Eq}
ARI = {ast.Add: ast.Sub, ast.Sub: ast.Add}


def sites(fn: ast.FunctionDef):
    """yield (kind, description, mutate(fn_copy_node_list_index)) as (kind, path) where path indexes ast.walk order"""
    nodes = list(ast.walk(fn))
    for idx, n in enumerate(nodes):
        if isinstance(n, ast.Compare) and len(n.ops) == 1 and type(n.ops[0]) in CMP:
            yield "cmp", idx
        elif isinstance(n, ast.BinOp) and type(n.op) in ARI and not any(isinstance(x, ast.Constant) and isinstance(x.value, str) for x in (n.left, n.right)) and not isinstance(n.left, ast.JoinedStr):
            yield "arith", idx
        elif isinstance(n, ast.Constant) and isinstance(n.value, int) and not isinstance(n.value, bool) and 0 <= n.value <= 3:
            yield "const", idx
        elif isinstance(n, ast.Call) and len(n.args) >= 2 and not any(isinstance(a, ast.Starred) for a in n.args[:2]) and not (isinstance(n.func, ast.Attribute) and isinstance(n.func.value, ast.Name) and n.func.value.id in ("logger", "logging")):
            yield "swap", idx
        elif isinstance(n, (ast.Assign, ast.AugAssign)) and isinstance((n.targets[0] if isinstance(n, ast.Assign) else n.target), (ast.Attribute, ast.Subscript)):
            yield "drop", idx
        elif isinstance(n, ast.Expr) and isinstance(n.value, ast.Call) and not (isinstance(n.value.func, ast.Attribute) and isinstance(n.value.func.value, ast.Name) and n.value.func.value.id in ("logger", "logging")):
            yield "drop", idx


def apply(fn: ast.FunctionDef, kind: str, idx: int):
    new = copy.deepcopy(fn)
    nodes = list(ast.walk(new))
    n = nodes[idx]
    if kind == "cmp":
        n.ops = [CMP[type(n.ops[0])]()]
    elif kind == "arith":
        n.op = ARI[type(n.op)]()
    elif kind == "const":
        n.value = n.value + 1
    elif kind == "swap":
        n.args[0], n.args[1] = n.args[1], n.args[0]
    elif kind == "drop":
        # replace the statement by `pass` in its parent body
        for p in ast.walk(new):
            for field in ("body", "orelse", "finalbody"):
                b = getattr(p, field, None)
                if isinstance(b, list) and any(x is n for x in b):
                    setattr(p, field, [ast.copy_location(ast.Pass(), n) if x is n else x for x in b])
    return ast.fix_missing_locations(new)


def functions_of(tree):
    for n in tree.body:
        if isinstance(n, ast.FunctionDef):
            yield n.name, n
        elif isinstance(n, ast.ClassDef):
            for m in n.body:
                if isinstance(m, ast.FunctionDef):
                    yield f"{n.name}.{m.name}", m


def mutants(filt: str):
    out = []
    for mod in MODULES:
        path = REPO / "ladim" / f"{mod}.py"
        src = path.read_text()
        tree = ast.parse(src)
        lines = src.splitlines(keepends=True)
        for qual, fn in functions_of(tree):
            if filt and filt not in f"{mod}.{qual}":
                continue
            for kind, idx in sites(fn):
                try:
                    new = apply(fn, kind, idx)
                except Exception:  # noqa: BLE001
                    continue
                node = list(ast.walk(fn))[idx]
                start = (fn.decorator_list[0].lineno if fn.decorator_list else fn.lineno) - 1
                indent = " " * fn.col_offset
                body = "\n".join(indent + l if l else l for l in ast.unparse(new).splitlines()) + "\n"
                text = "".join(lines[:start]) + body + "".join(lines[fn.end_lineno:])
                try:
                    ast.parse(text)
                except SyntaxError:
                    continue
                desc = ast.unparse(node)[:70].replace("\n", " ")
                out.append((f"ladim/{mod}.py", f"{mod}.{qual}", kind, getattr(node, "lineno", 0), desc, text))
    return out


def run(m):
    rel, qual, kind, line, desc, text = m
    scratch = Path(tempfile.mkdtemp(prefix="mutfuzz_"))
    try:
        subprocess.run(["rsync", "-a", "--exclude", ".git", "--exclude", "*.nc", f"{REPO}/", f"{scratch}/"], check=True)
        (scratch / rel).write_text(text)
        env = dict(os.environ, SA_EVIDENCE_DIR=str(scratch / ".evidence"), PYTHONDONTWRITEBYTECODE="1")
        fired = []
        for c in CHECKS:
            p = subprocess.run([str(VERIF / "check"), c, "--repo", str(scratch)], capture_output=True, text=True, env=env, cwd=str(VERIF))
            if p.returncode != 0:
                fired.append(c if p.returncode == 1 else c + "!")
                break  # one report is enough for this scan
        return qual, kind, line, desc, fired
    finally:
        shutil.rmtree(scratch, ignore_errors=True)


def main():
    jobs = int(sys.argv[1]) if len(sys.argv) > 1 else 12
    filt = sys.argv[2] if len(sys.argv) > 2 else ""
    ms = mutants(filt)
    print(f"{len(ms)} mutants", flush=True)
    surv = 0
    with ProcessPoolExecutor(max_workers=jobs) as ex:
        for qual, kind, line, desc, fired in ex.map(run, ms):
            if not fired:
                surv += 1
                print(f"SURVIVOR {qual}:{line} [{kind}] {desc}", flush=True)
    print(f"done: {surv} of {len(ms)} mutants survive", flush=True)


if __name__ == "__main__":
    main()
