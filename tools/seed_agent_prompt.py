import sys
k=sys.argv[1]
print(f'''You are helping to evaluate how well a project's behavioural properties are guarded, by producing a realistic BREAKING change to a Python project.

Project: LADiM2 (bjornaa/ladim2), a Lagrangian particle-tracking model that advects and diffuses particles through ROMS ocean-model fields read from NetCDF. Your private scratch copy (a git worktree) is at /tmp/sd7_{k} . Work ONLY inside /tmp/sd7_{k}. Do NOT touch /repo and do NOT read or touch /verif. Use /venv/bin/python (the project and its dependencies are installed there; run with PYTHONPATH=/tmp/sd7_{k} so your copy is the one imported).

The property is in /tmp/sd7_{k}/PROPERTY.txt (JSON: statement, quantifier, anchors into the code). Read it and the code it is anchored in.

Task: produce TWO independent changes (A and B) to files under ladim/ , each of which BREAKS this property, while
 (1) the code still imports and the existing test suite gives the same result as before: run `cd /tmp/sd7_{k} && /venv/bin/python -m pytest -q -p no:cacheprovider --timeout=900 2>&1 | tail -3` before and after; the pass/fail counts must be identical (some failures may pre-exist; that is fine);
 (2) the change looks like something a maintainer could plausibly commit (a refactoring that goes subtly wrong, an "optimisation", a caching shortcut, a tidy-up, a feature added in one place but not in its sibling) - not sabotage with an obviously wrong constant;
 (3) it needs something SPECIFIC to manifest - a multi-step sequence of operations, an unusual but valid input or configuration (sub-grid with i0 != j0, time reversal, multi-file forcing or output, restart, particles dying or being released mid-run, non-default scheme, dense output layout, legacy v1 configuration, ...), or TWO COOPERATING SITES that each look fine alone (e.g. one function changes what it returns/caches and another still assumes the old contract) - not something ordinary use would expose at once. Prefer changes spanning two functions or two modules, or that change WHICH object/array/index space a value refers to rather than a literal.
Make A and B different in kind and in location (different functions; if possible different modules).

For each change X in (A, B):
 1. Start from a clean tree: `cd /tmp/sd7_{k} && git checkout -- ladim`.
 2. Make the change. Save it: `git diff -- ladim > /tmp/sd7_{k}/X.diff`.
 3. Write a demonstration /tmp/sd7_{k}/demo_X.py : a small self-contained program (it may build synthetic NetCDF/release/config files in a temporary directory and must clean up; no network; under 60 s) that exits 0 on the ORIGINAL tree and exits non-zero (assert failure) on the CHANGED tree, by observing the property's behaviour being violated. Verify both outcomes yourself by running it with and without the change applied.
 4. Write /tmp/sd7_{k}/X.txt : one paragraph - which function(s) changed, why it breaks the property, and exactly what it needs in order to manifest.
 5. `git checkout -- ladim`. Never use `git stash` (the stash is shared by all worktrees of the repository and other agents work in sibling worktrees): switch between the original and the changed tree with `git apply X.diff` / `git apply -R X.diff`.
Leave the worktree with ladim/ clean and the files A.diff, demo_A.py, A.txt, B.diff, demo_B.py, B.txt at its top level. If after a real effort you can only produce one, produce one. Aim to finish within about 25 minutes of work.

Report back briefly: for A and B, the functions touched and what is needed to manifest.''')
