#!/bin/bash
# try_patches.sh <dir-with-NN.diff> : apply each patch to /repo, run all quick checks, report non-zero exits, revert.
cd /repo || exit 2
[ -z "$(git status --porcelain)" ] || { echo "/repo not clean"; exit 2; }
for f in "$1"/*.diff; do
  [ -s "$f" ] || continue
  git apply "$f" 2>/dev/null || { echo "$(basename $f): does not apply"; continue; }
  res=""
  for P in $(seq -w 1 20); do
    OUT=$(cd /verif && ./check C$P 2>&1); RC=$?
    if [ $RC -ne 0 ]; then res="$res C$P(rc=$RC)"; echo "$OUT" | grep -E "^  ladim|ANALYSIS-ERROR" | head -3 | cut -c1-260 | sed "s/^/      /"; fi
  done
  git checkout -q -- .
  echo "$(basename $f): ${res:-silent}   [$(cat ${f%.diff}.txt 2>/dev/null | head -1 | cut -c1-100)]"
done
cd /verif && for P in $(seq -w 1 20); do ./check C$P >/dev/null 2>&1; done
