#!/bin/bash
# Runs the pinned baseline test command on /repo (or $1) and checks that all 59 stable tests pass.
REPO=${1:-/repo}
OUT=$(mktemp /tmp/junit.XXXXXX.xml)
(cd "$REPO" && /venv/bin/python -m pytest -ra -q -p no:cacheprovider --timeout=900 --continue-on-collection-errors --junitxml="$OUT" >/tmp/baseline.log 2>&1)
/venv/bin/python - "$OUT" <<'PY'
import json,sys,xml.etree.ElementTree as ET
base=json.load(open('/root/.vp/BASELINE.json'))
t=ET.parse(sys.argv[1]); ok=set(); bad=set()
for tc in t.iter('testcase'):
    name=f"{tc.get('classname')}::{tc.get('name')}"
    if any(c.tag in('failure','error') for c in tc): bad.add(name)
    elif any(c.tag=='skipped' for c in tc): pass
    else: ok.add(name)
miss=[x for x in base['stable_pass'] if x not in ok]
print(f"passed={len(ok)} failed={len(bad)} baseline_missing={len(miss)}")
for m in miss: print("  MISSING", m)
sys.exit(1 if miss else 0)
PY
rc=$?
rm -f "$OUT"
exit $rc
