#!/bin/bash
# Parallel version of seed_matrix.sh: every kept seeded change is applied to its own scratch copy of /repo
# (outside /repo and /verif, removed at once), all quick checks run against the copy with their evidence
# redirected, and seeded/MATRIX.md is regenerated. /repo itself is never touched.
JOBS=${1:-8}
SCR=$(mktemp -d /tmp/seedmx.XXXXXX)
ls -d /verif/seeded/*/ | xargs -P "$JOBS" -I{} /verif/tools/seed_one.sh {} "$SCR" > "$SCR/result.tsv"
OUT=/verif/seeded/MATRIX.md
echo "| seeded change | breaks | needs to manifest | detected by (rules) |" > $OUT
echo "|---|---|---|---|" >> $OUT
for d in /verif/seeded/*/; do
  name=$(basename $d)
  /venv/bin/python - "$d/meta.json" "$name" >> $OUT <<'PY'
import json,sys
m=json.load(open(sys.argv[1]))
fired=" ".join(m.get("detected_by",[])) or "**none (documented miss)**"
print(f"| {sys.argv[2]} | {m['property']} | {m['needs_to_manifest'].replace('|','/')} |  {fired} |")
PY
done
sort "$SCR/result.tsv"
rm -rf "$SCR"
