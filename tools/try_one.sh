#!/bin/bash
# usage: tools/try_one.sh <patch> [props...]   -- applies a patch to /repo, runs quick checks, undoes it
P=$(realpath "$1"); shift
PROPS=${@:-$(seq -f "C%02g" 1 20)}
git -C /repo apply "$P" || exit 3
cd /verif
for C in $PROPS; do OUT=$(./check $C 2>&1); rc=$?; [ $rc -ne 0 ] && { echo "$C rc=$rc"; echo "$OUT" | grep -A5 "^VIOL\|ANALYSIS\|FAIL\|violating: [1-9]" | cut -c1-500 | head -40; }; done
git -C /repo checkout -- .
git -C /repo status --short | head
echo "done $(basename $P)"
