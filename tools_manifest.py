#!/usr/bin/env python3
"""Regenerates MANIFEST.json from the per-property table below (run by hand, committed)."""
import json, sys
from pathlib import Path

HERE = Path(__file__).resolve().parent
sys.path.insert(0, str(HERE))
from manifest_table import CHECKS, NOT_APPLICABLE  # noqa: E402

checks = []
for pid, c in sorted(CHECKS.items()):
    checks.append({
        "property_id": pid,
        "quick_cmd": f"./check {pid}",
        "thorough_cmd": f"./check {pid} --thorough",
        "evidence_file": f"/verif/evidence/{pid}.json",
        "replay_cmd_template": f"./check {pid} --replay {{path}}",
        "engine": "sa",
        "level_claimed": {"category": c["level"], "text": c["text"], "design_ref": c.get("design_ref", f"DESIGN.md section 3, {pid}")},
        "level_note": c["note"],
        "technique": c["technique"],
    })
manifest = {
    "version": 1,
    "setup_cmd": "./check --selfcheck",
    "hooks": {
        "guard": "LADIM2_VERIF",
        "enable": "none needed: the checks parse /repo's working tree with ast and never execute it; no hook commits exist",
        "baseline_off_cmd": "cd /repo && /venv/bin/python -m pytest -ra -q -p no:cacheprovider --timeout=900 --continue-on-collection-errors",
        "source_commits": [],
        "add_only": True,
    },
    "engines": [{
        "name": "sa",
        "path": "/verif/sa",
        "serves_properties": sorted(CHECKS),
        "kind_free_text": "repository-specific static analysis on the Python ast: role-typed call graph, syntax-directed path enumeration with event words, abstract interpretation in a rational-normal-form domain and a symbolic-interval domain, sibling/time-mirror comparison, table agreement",
    }],
    "checks": checks,
    "not_applicable": [{"property_id": p, "reason": r} for p, r in sorted(NOT_APPLICABLE.items())],
    "notes": "Static analysis only. Exit 0 ok / 1 VIOLATION / 2 ANALYSIS-ERROR (anchor vanished, unsupported construct). known_findings.json lists genuine defects recorded rather than repaired.",
}
(HERE / "MANIFEST.json").write_text(json.dumps(manifest, indent=1) + "\n")
print("wrote MANIFEST.json with", len(checks), "checks,", len(NOT_APPLICABLE), "not applicable")
