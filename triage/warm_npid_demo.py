"""Triage demonstration (not a check) for the C08 known finding F7.

warm_start() restores the release counter as max(pid on file) + 1.  A particle released on a step
without output and dead before the next record never reaches the file, so after a restart its
identifier is handed out again, while the uninterrupted run continues with the next fresh one.
"""
import sys, tempfile, warnings
from pathlib import Path
import numpy as np
warnings.filterwarnings("ignore")

def main():
    from ladim.out_netcdf import Output
    from ladim.state import State
    from ladim.timekeeper import TimeKeeper
    from ladim.warm_start import warm_start
    d = Path(tempfile.mkdtemp(prefix="wnd"))
    try:
        timer = TimeKeeper(start="2020-01-01T00", stop="2020-01-01T00:40", dt=600)
        state = State()
        V = lambda t: dict(encoding=dict(datatype=t), attributes={})
        out = Output(modules=dict(time=timer, grid=None, state=state), filename=d / "o.nc", output_period=1200,
                     instance_variables=dict(pid=V("i"), X=V("f8"), Y=V("f8"), Z=V("f8")))
        for step in range(timer.Nsteps):          # steps 0..3, records at steps 0 and 2
            timer.update()
            if step == 0:
                state.append(X=np.array([1.0, 2.0]), Y=1.0, Z=1.0)    # pids 0, 1
            if step == 1:
                state.append(X=3.0, Y=1.0, Z=1.0)                    # pid 2, released on a non-output step
            out.update()
            if step == 1:
                state["alive"] = np.array([True, True, False])       # ... and dead before the next record
        out.close()
        npid_uninterrupted = state.npid
        restarted = State()
        warm_start(str(d / "o.nc"), [], restarted)
        print(f"release counter: uninterrupted run {npid_uninterrupted}, after warm start {int(restarted.npid)}")
        restarted.append(X=9.0, Y=1.0, Z=1.0); state.append(X=9.0, Y=1.0, Z=1.0)
        print(f"next released particle gets pid {int(restarted.pid[-1])} after the restart, {int(state.pid[-1])} in the uninterrupted run")
        return 1 if int(restarted.npid) != npid_uninterrupted + 1 else 0
    finally:
        for p in d.glob("*"): p.unlink()
        d.rmdir()

if __name__ == "__main__":
    rc = main()
    print("PID REUSED AFTER RESTART" if rc else "counter restored")
    sys.exit(rc)
