"""Triage demonstration (not a check): Forcing in time on synthetic ROMS files.

Builds forcing files whose velocity is spatially uniform and equals u = 0.001*(t/1 h)^2 m/s at the
frames, runs TimeKeeper + Grid + Forcing step by step and compares the field in force with the
linear interpolation between the bracketing frames, forward and reversed, for several layouts.
Usage: /venv/bin/python forcing_time_demo.py   (run from a scratch directory)
"""
import sys, tempfile, os, warnings
warnings.filterwarnings("ignore")
from pathlib import Path
import numpy as np
from netCDF4 import Dataset

def make_file(path, hours, with_grid=True, temp=True):
    N, J, I = 3, 6, 7
    with Dataset(path, "w") as nc:
        nc.createDimension("ocean_time", None); nc.createDimension("s_rho", N); nc.createDimension("s_w", N+1)
        nc.createDimension("eta_rho", J); nc.createDimension("xi_rho", I)
        nc.createDimension("eta_u", J); nc.createDimension("xi_u", I-1)
        nc.createDimension("eta_v", J-1); nc.createDimension("xi_v", I)
        v = nc.createVariable("ocean_time", "f8", ("ocean_time",)); v.units = "seconds since 2020-01-01 00:00:00"
        v[:] = np.array(hours) * 3600.0
        for name, val in [("h", 100.0), ("mask_rho", 1.0), ("pm", 1/1000.0), ("pn", 1/1000.0), ("angle", 0.0)]:
            nc.createVariable(name, "f8", ("eta_rho", "xi_rho"))[:] = val
        jj, ii = np.meshgrid(np.arange(J), np.arange(I), indexing="ij")
        nc.createVariable("lon_rho", "f8", ("eta_rho", "xi_rho"))[:] = ii * 0.01
        nc.createVariable("lat_rho", "f8", ("eta_rho", "xi_rho"))[:] = 60 + jj * 0.01
        nc.createVariable("hc", "f8", ())[...] = 10.0
        nc.createVariable("Cs_r", "f8", ("s_rho",))[:] = -1 + (0.5 + np.arange(N)) / N
        nc.createVariable("Cs_w", "f8", ("s_w",))[:] = np.linspace(-1, 0, N+1)
        u = nc.createVariable("u", "f4", ("ocean_time", "s_rho", "eta_u", "xi_u"))
        w = nc.createVariable("v", "f4", ("ocean_time", "s_rho", "eta_v", "xi_v"))
        t = nc.createVariable("temp", "f4", ("ocean_time", "s_rho", "eta_rho", "xi_rho"))
        for k, h in enumerate(hours):
            u[k] = 0.001 * h * h; w[k] = -0.02 * h; t[k] = float(h)

def run(layout, start_h, stop_h, dt=3600, reverse=False, extra=True):
    from ladim.timekeeper import TimeKeeper
    from ladim.ROMS import Grid, Forcing
    from ladim.state import State
    d = Path(tempfile.mkdtemp(prefix="ftd"))
    try:
        for n, hours in enumerate(layout):
            make_file(d / f"f_{n:03d}.nc", hours)
        t0 = np.datetime64("2020-01-01T00")
        timer = TimeKeeper(start=t0 + np.timedelta64(int(start_h*3600), "s"), stop=t0 + np.timedelta64(int(stop_h*3600), "s"), dt=dt, time_reversal=reverse)
        state = State(instance_variables=dict(temp=float) if extra else None)
        grid = Grid(filename=d / "f_000.nc")
        modules = dict(time=timer, state=state, grid=grid)
        force = Forcing(modules=modules, filename=str(d / "f_*.nc"), extra_forcing=["temp"] if extra else None)
        modules["forcing"] = force
        state.append(X=3.0, Y=3.0, Z=5.0, **({"temp": 0.0} if extra else {}))
        allh = sorted(h for hs in layout for h in hs)
        bad = []
        for _ in range(timer.Nsteps):
            timer.update()
            force.update()
            th = (timer.time - t0) / np.timedelta64(3600, "s")
            got = float(force.fields["u"][0, 2, 2])
            def lin(t):
                a = max(h for h in allh if h <= t); b = min(h for h in allh if h >= t)
                fa, fb = 0.001 * a * a, 0.001 * b * b
                return fa if a == b else fa + (fb - fa) * (t - a) / (b - a)
            exp = lin(th)
            lo = max(h for h in allh if h <= th) if not reverse else min(h for h in allh if h >= th)
            gtemp = float(force.fields["temp"][0, 2, 2]) if extra else lo
            # fractional step: half a step ahead
            U, V = force.velocity(state.X, state.Y, state.Z, fractional_step=0.5)
            sign = -1 if reverse else 1
            th2 = th + sign * 0.5 * dt / 3600
            expU = sign * lin(th2)
            ok = abs(got - exp) < 1e-6 and abs(gtemp - lo) < 1e-6 and abs(float(U[0]) - expU) < 1e-6
            if not ok:
                bad.append((timer.step, round(th, 3), round(got, 5), round(exp, 5), gtemp, lo, round(float(U[0]), 5), round(expU, 5)))
        force.close()
        return bad
    finally:
        for f in d.glob("*"): f.unlink()
        d.rmdir()

CASES = [
    ("one file, 3 h frames, forward", [[0, 3, 6, 9]], 1, 8, 3600, False),
    ("frame spacing == dt", [[0, 1, 2, 3, 4, 5]], 0, 5, 3600, False),
    ("three files, forward", [[0, 3], [6, 9], [12, 15]], 1, 14, 3600, False),
    ("three files, reversed", [[0, 3], [6, 9], [12, 15]], 14, 1, 3600, True),
    ("one frame per file, irregular", [[0], [2], [7], [8], [12]], 1, 11, 3600, False),
    ("one frame per file, irregular, reversed", [[0], [2], [7], [8], [12]], 11, 1, 3600, True),
    ("start on a frame", [[0, 3, 6]], 0, 6, 3600, False),
    ("start between frames straddling files", [[0, 3], [6, 9]], 4, 8, 3600, False),
]
if __name__ == "__main__":
    nbad = 0
    for name, layout, a, b, dt, rev in CASES:
        try:
            bad = run(layout, a, b, dt, rev)
        except Exception as e:
            bad = [("EXC", type(e).__name__, str(e)[:80])]
        nbad += bool(bad)
        print(("FAIL " if bad else "ok   ") + name, bad[:4] if bad else "")
    sys.exit(1 if nbad else 0)
