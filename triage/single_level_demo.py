"""Triage demonstration (not a check) for the C17/C12 known finding F14: a grid with a single s-level.

z2s_kernel's default K = 1 (particle below the lowest level) needs two levels; with N = 1 trilinear
reads F[1], outside the array.  The compiled kernel does not check bounds (silent garbage); the same
body run as plain Python (py_func) raises IndexError and shows the access.
"""
import sys, warnings
import numpy as np
warnings.filterwarnings("ignore")
from ladim.ROMS import z2s, trilinear

z_r = np.full((1, 4, 4), -50.0)            # one level at 50 m depth
F = np.arange(16.0).reshape(1, 4, 4)
X = np.array([1.5]); Y = np.array([1.5]); Z = np.array([80.0])   # particle below the level
K, A = z2s(z_r, X, Y, Z)
print("K, A =", K, A, " (level axis has length", F.shape[0], ")")
try:
    trilinear.py_func(F, X, Y, K, A)
    print("no error"); rc = 0
except IndexError as e:
    print("IndexError in the kernel body:", e); rc = 1
print("compiled kernel returns", trilinear(F, X, Y, K, A), "(unchecked read outside F)")
sys.exit(rc)
