"""Triage demonstration (not a check) for the C14 known finding F8.

Model.update computes the forcing's per-particle caches (level index K, weight A) in force.update(),
then output.update() -> Output.write() -> state.compactify() removes dead particles, then
tracker.update() samples the velocity with the *stale* K, A.  With a depth-dependent current the
survivor is advected with the level of the particle that died.

Two runs: particles at depths 5 m and 95 m in a current that is 1 m/s near the surface, 0 at depth.
Run A: both alive.  Run B: the shallow one (pid 0) is marked dead before the step.
The deep particle (pid 1) must move identically in both runs; it does not.
"""
import sys, tempfile, warnings
from pathlib import Path
import numpy as np
from netCDF4 import Dataset
warnings.filterwarnings("ignore")
sys.path.insert(0, str(Path(__file__).parent))
from forcing_time_demo import make_file  # noqa: E402


def run(kill_first: bool):
    from ladim.model import Model
    d = Path(tempfile.mkdtemp(prefix="cct"))
    try:
        f = d / "f_000.nc"
        make_file(f, [0, 1, 2, 3])
        with Dataset(f, "a") as nc:   # depth-dependent current: top level 1 m/s, others 0
            u = nc.variables["u"][:]; u[:] = 0; u[:, -1] = 1.0; nc.variables["u"][:] = u
            nc.variables["v"][:] = 0
        (d / "r.rls").write_text("release_time X Y Z\n2020-01-01T00 3.0 3.0 5.0\n2020-01-01T00 3.0 3.0 95.0\n")
        V = lambda t: dict(encoding=dict(datatype=t), attributes={})
        conf = dict(
            time=dict(start="2020-01-01T00", stop="2020-01-01T00:20", dt=600),
            state=dict(), grid=dict(filename=str(f)), forcing=dict(filename=str(f)),
            release=dict(release_file=str(d / "r.rls")), tracker=dict(advection="EF"), ibm=dict(), warm_start=dict(),
            output=dict(filename=str(d / "o.nc"), output_period=600, instance_variables=dict(pid=V("i"), X=V("f8"))),
        )
        m = Model(conf)
        m.update()                     # step 0: release, record, move
        if kill_first:
            m.state["alive"] = np.array([False, True])
        x_before = float(m.state.X[1])
        m.update()                     # step 1: force.update (K,A for 2 particles) -> write (compactify) -> tracker
        pid = list(m.state.pid)
        x_after = float(m.state.X[pid.index(1)])
        m.finish()
        return x_after - x_before
    finally:
        for p in d.glob("*"): p.unlink()
        d.rmdir()

if __name__ == "__main__":
    a, b = run(False), run(True)
    print(f"displacement of pid 1 in step 1: both alive {a:.4f}, pid 0 dead {b:.4f}")
    print("CROSS-TALK" if abs(a - b) > 1e-9 else "independent")
    sys.exit(1 if abs(a - b) > 1e-9 else 0)
