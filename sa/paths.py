"""E2 - syntax-directed control flow: bounded path enumeration over statement lists.

A *path* is a list of steps:

    ("stmt", node)            simple statement executed
    ("cond", test, taken)     branch decision (If / While / IfExp are not split)
    ("iter", for_node, k)     k-th iteration of a loop body begins
    ("maybe", node)           statement of a try body that may have run before the exception
    ("except", handler)       an exception raised somewhere in the try body is caught
    ("with", item_expr)       context manager entered

and an *exit*: "fall" | "return" | "raise" | "break" | "continue".

Loops are unrolled ``unroll`` times (tuple of iteration counts to explore), the
statement kinds supported are the ones the repository uses; anything else is an
AnalysisError (never a silent pass).
"""

from __future__ import annotations

import ast
from dataclasses import dataclass, field
from typing import Iterable, Iterator, Optional

from .program import AnalysisError, short

Step = tuple


@dataclass
class Path:
    steps: list[Step] = field(default_factory=list)
    exit: str = "fall"
    exit_node: Optional[ast.AST] = None

    def extended(self, more: "Path") -> "Path":
        return Path(self.steps + more.steps, more.exit, more.exit_node)

    def stmts(self) -> list[ast.stmt]:
        return [s[1] for s in self.steps if s[0] == "stmt"]

    def conds(self) -> list[tuple[ast.expr, bool]]:
        return [(s[1], s[2]) for s in self.steps if s[0] == "cond"]

    def describe(self) -> str:
        parts = []
        for s in self.steps:
            if s[0] == "cond":
                parts.append(f"[{short(s[1], 40)}={'T' if s[2] else 'F'}@{getattr(s[1], 'orig_lineno', getattr(s[1], 'lineno', '?'))}]")
        return "entry " + " ".join(parts) + f" -> {self.exit}" + (
            f"@{getattr(self.exit_node, 'orig_lineno', getattr(self.exit_node, 'lineno', '?'))}" if self.exit_node is not None else ""
        )


SIMPLE = (
    ast.Assign,
    ast.AugAssign,
    ast.AnnAssign,
    ast.Expr,
    ast.Pass,
    ast.Import,
    ast.ImportFrom,
    ast.Delete,
    ast.Global,
    ast.Nonlocal,
    ast.Assert,
    ast.FunctionDef,
    ast.ClassDef,
)


class PathLimit(AnalysisError):
    pass


def enumerate_paths(
    body: list[ast.stmt],
    unroll: tuple[int, ...] = (0, 1),
    max_paths: int = 20000,
    const_fold: Optional[dict[str, bool]] = None,
) -> list[Path]:
    """All paths through ``body`` under the loop bound.

    ``const_fold`` maps unparse(test) -> bool for tests whose value is known
    (e.g. module constants such as DEBUG); such branches are not split.
    """
    const_fold = const_fold or {}
    budget = [max_paths]

    def seq(stmts: list[ast.stmt]) -> list[Path]:
        paths = [Path()]
        for st in stmts:
            nxt: list[Path] = []
            for p in paths:
                if p.exit != "fall":
                    nxt.append(p)
                    continue
                for q in one(st):
                    nxt.append(p.extended(q))
            paths = nxt
            if len(paths) > budget[0]:
                raise PathLimit(f"more than {max_paths} paths at line {st.lineno}")
        return paths

    def one(st: ast.stmt) -> list[Path]:
        if isinstance(st, SIMPLE):
            return [Path([("stmt", st)])]
        if isinstance(st, ast.Return):
            return [Path([("stmt", st)], "return", st)]
        if isinstance(st, ast.Raise):
            return [Path([("stmt", st)], "raise", st)]
        if isinstance(st, ast.Break):
            return [Path([], "break", st)]
        if isinstance(st, ast.Continue):
            return [Path([], "continue", st)]
        if isinstance(st, ast.If):
            key = ast.unparse(st.test)
            out = []
            if key in const_fold:
                branch = st.body if const_fold[key] else st.orelse
                return seq(branch)
            for p in seq(st.body):
                out.append(Path([("cond", st.test, True)]).extended(p))
            for p in seq(st.orelse):
                out.append(Path([("cond", st.test, False)]).extended(p))
            return out
        if isinstance(st, (ast.For, ast.While)):
            out = []
            head: list[Step] = []
            for k in unroll:
                # k iterations then normal loop exit (+ orelse)
                prefixes = [Path(list(head))]
                for it in range(k):
                    nxt = []
                    for p in prefixes:
                        if p.exit != "fall":
                            nxt.append(p)
                            continue
                        for q in seq(st.body):
                            r = Path(p.steps + [("iter", st, it)] + q.steps, q.exit, q.exit_node)
                            if r.exit == "continue":
                                r = Path(r.steps, "fall", None)
                            nxt.append(r)
                    prefixes = nxt
                for p in prefixes:
                    if p.exit == "break":
                        out.append(Path(p.steps, "fall", None))
                    elif p.exit == "fall":
                        if st.orelse:
                            for q in seq(st.orelse):
                                out.append(p.extended(q))
                        else:
                            out.append(p)
                    else:
                        out.append(p)
            # de-duplicate identical step lists
            uniq = []
            seen = set()
            for p in out:
                sig = (tuple((s[0], id(s[1]), s[2] if len(s) > 2 else None) for s in p.steps), p.exit, id(p.exit_node))
                if sig not in seen:
                    seen.add(sig)
                    uniq.append(p)
            return uniq
        if isinstance(st, ast.With):
            pre = [("with", it.context_expr, it.optional_vars) for it in st.items]
            return [Path(list(pre)).extended(p) for p in seq(st.body)]
        if isinstance(st, ast.Try):
            out = []
            fin = seq(st.finalbody) if st.finalbody else [Path()]
            normal = []
            for p in seq(st.body):
                if p.exit == "fall" and st.orelse:
                    for q in seq(st.orelse):
                        normal.append(p.extended(q))
                else:
                    normal.append(p)
            # a `raise` inside the body may be caught by a handler: keep both
            handled = []
            # statements of the body that may have run (wholly or partly) before
            # the exception: recorded as ("maybe", stmt)
            maybe = [("maybe", n) for n in st.body if isinstance(n, SIMPLE + (ast.Return,))]
            for h in st.handlers:
                for q in seq(h.body):
                    handled.append(Path(list(maybe) + [("except", h)]).extended(q))
            for p in normal + handled:
                if p.exit in ("fall",):
                    for f in fin:
                        out.append(p.extended(f))
                else:
                    for f in fin:
                        if f.exit == "fall":
                            out.append(Path(p.steps + f.steps, p.exit, p.exit_node))
                        else:
                            out.append(p.extended(f))
            return out
        if isinstance(st, ast.Match):
            raise AnalysisError(f"unsupported statement kind match at line {st.lineno}")
        raise AnalysisError(
            f"unsupported statement kind {type(st).__name__} at line {getattr(st, 'lineno', '?')}"
        )

    return seq(body)


def calls_in_stmt(node: ast.AST) -> list[ast.Call]:
    """Calls inside a statement/expression in evaluation order (approx: source order,
    arguments before the call itself)."""
    out: list[ast.Call] = []

    def visit(n: ast.AST) -> None:
        if isinstance(n, (ast.FunctionDef, ast.Lambda, ast.ClassDef)):
            return
        for c in ast.iter_child_nodes(n):
            visit(c)
        if isinstance(n, ast.Call):
            out.append(n)

    visit(node)
    return out


def path_calls(p: Path) -> list[ast.Call]:
    """All calls along a path, in order (conditions included)."""
    out: list[ast.Call] = []
    for s in p.steps:
        if s[0] in ("stmt", "maybe"):
            out.extend(calls_in_stmt(s[1]))
        elif s[0] == "cond":
            out.extend(calls_in_stmt(s[1]))
        elif s[0] == "with":
            out.extend(calls_in_stmt(s[1]))
        elif s[0] == "iter" and s[2] == 0 and isinstance(s[1], ast.For):
            out.extend(calls_in_stmt(s[1].iter))
    return out


def module_const_fold(mi) -> dict[str, bool]:
    """Tests on module-level boolean constants (DEBUG, PARALLEL...)."""
    out = {}
    for name, val in mi.constants.items():
        if isinstance(val, ast.Constant) and isinstance(val.value, bool):
            out[name] = val.value
    return out
