"""Entry point:  python -m sa.main C03 [--thorough] [--rule R03.2] [--replay F] [--repo DIR]"""

from __future__ import annotations

import builtins as _b


def print(*a, **k):  # a closed pipe (| head) must not turn into an analysis error
    try:
        _b.print(*a, **k)
    except BrokenPipeError:
        pass

import argparse
import importlib
import json
import os
import sys
import time
import traceback
from pathlib import Path

from .program import AnalysisError, Program
from .report import EVIDENCE_DIR, Report, load_known_findings

PROPERTIES = [f"C{n:02d}" for n in range(1, 21)]


LIST_ALL = False


def run_property(pid: str, tier: str, repo: str | None, only_rule: str | None = None) -> int:
    t0 = time.time()
    try:
        mod = importlib.import_module(f"sa.rules.{pid.lower()}")
    except ModuleNotFoundError:
        print(f"ANALYSIS-ERROR property={pid} no rule module sa/rules/{pid.lower()}.py")
        return 2
    try:
        prog = Program(Path(repo) if repo else None)
        rep = Report(pid=pid, tier=tier)
        rep.t0 = t0
        mod.run(prog, rep, tier)
        if only_rule:
            rep.obligations = [o for o in rep.obligations if o.rule == only_rule]
            rep.rule_floor = {k: v for k, v in rep.rule_floor.items() if k == only_rule}
            rep.rule_text = {k: v for k, v in rep.rule_text.items() if k == only_rule}
        if LIST_ALL:
            for o in rep.obligations:
                print(f"    {o.verdict:9s} {o.rule} {o.func} `{o.construct}` - {o.what}")
        code = rep.finish(prog)
        if code == 0 and tier == "thorough" and (hasattr(mod, "AUDIT") or hasattr(mod, "audit")) and not only_rule:
            from . import selftest

            code = selftest.run_audit(pid, mod, prog, rep)
        return code
    except AnalysisError as e:
        rep_ = locals().get("rep")
        if rep_ is not None and any(o.verdict == "violation" for o in rep_.obligations):
            # a violation established by an earlier rule stands; the part that could not be analysed is named
            rep_.note(f"analysis stopped early, later rules not evaluated: {e}")
            rep_.rule_floor = {}
            return rep_.finish(locals().get("prog"))
        print(f"ANALYSIS-ERROR property={pid} {e}")
        _error_evidence(pid, tier, str(e), time.time() - t0)
        return 2
    except Exception as e:  # tracebacks never masquerade as violations
        print(f"ANALYSIS-ERROR property={pid} internal error: {type(e).__name__}: {e}")
        traceback.print_exc(file=sys.stdout)
        _error_evidence(pid, tier, f"internal error {type(e).__name__}: {e}", time.time() - t0)
        return 2


def _error_evidence(pid: str, tier: str, msg: str, wall: float) -> None:
    EVIDENCE_DIR.mkdir(parents=True, exist_ok=True)
    ev = {
        "property_id": pid,
        "tier": tier,
        "seed": int(os.environ.get("VERIF_SEED", "0") or 0),
        "level": "other",
        "coverage": {
            "explanation": f"ANALYSIS-ERROR: the analysis could not run: {msg}",
            "evaluations": 0,
            "distinct_nontrivial": 0,
        },
        "wall_s": round(wall, 3),
        "violations": 0,
    }
    (EVIDENCE_DIR / f"{pid}.json").write_text(json.dumps(ev, indent=1))


def replay(pid: str, path: str, tier: str, repo: str | None) -> int:
    """Re-evaluate the property and report only the findings named in the file."""
    data = json.loads(Path(path).read_text())
    keys = {f["key"] for f in data.get("findings", [])}
    try:
        mod = importlib.import_module(f"sa.rules.{pid.lower()}")
        prog = Program(Path(repo) if repo else None)
        rep = Report(pid=pid, tier=tier)
        mod.run(prog, rep, tier)
    except AnalysisError as e:
        print(f"ANALYSIS-ERROR property={pid} {e}")
        return 2
    hits = [o for o in rep.obligations if o.key in keys and o.verdict == "violation"]
    for o in hits:
        print(f"  {o.loc} {o.func} {o.rule} `{o.construct}` - {o.what}")
    if hits:
        print(f"VIOLATION property={pid} replay={path}")
        return 1
    print(f"[{pid}] replay: none of the {len(keys)} recorded finding(s) reproduces")
    return 0


def selfcheck() -> int:
    """setup_cmd: import every engine and rule module; validate known_findings.json."""
    ok = True
    for name in ("program", "report", "paths", "nf", "interp", "interval", "selftest"):
        try:
            importlib.import_module(f"sa.{name}")
        except ModuleNotFoundError as e:
            if e.name == f"sa.{name}":
                continue
            print(f"selfcheck: import sa.{name} failed: {e}")
            ok = False
        except Exception as e:
            print(f"selfcheck: import sa.{name} failed: {e}")
            ok = False
    n = 0
    for pid in PROPERTIES:
        try:
            importlib.import_module(f"sa.rules.{pid.lower()}")
            n += 1
        except ModuleNotFoundError:
            pass
        except Exception as e:
            print(f"selfcheck: import sa.rules.{pid.lower()} failed: {e}")
            ok = False
    try:
        kf = load_known_findings()
    except Exception as e:
        print(f"selfcheck: known_findings.json invalid: {e}")
        ok = False
        kf = []
    print(f"selfcheck: {n} rule modules importable, {len(kf)} known-finding entries, python {sys.version.split()[0]}")
    return 0 if ok else 2


def main(argv=None) -> int:
    ap = argparse.ArgumentParser(prog="check")
    ap.add_argument("property", nargs="?")
    ap.add_argument("--thorough", action="store_true")
    ap.add_argument("--quick", action="store_true")
    ap.add_argument("--rule")
    ap.add_argument("--replay")
    ap.add_argument("--repo")
    ap.add_argument("--selfcheck", action="store_true")
    ap.add_argument("--all", action="store_true")
    ap.add_argument("--list", action="store_true", help="print every obligation")
    a = ap.parse_args(argv)
    global LIST_ALL
    LIST_ALL = a.list
    if a.selfcheck:
        return selfcheck()
    tier = "thorough" if a.thorough else "quick"
    if not a.thorough and not a.quick and os.environ.get("VERIF_TIER") in ("quick", "thorough"):
        tier = os.environ["VERIF_TIER"]
    if a.all:
        worst = 0
        for pid in PROPERTIES:
            worst = max(worst, run_property(pid, tier, a.repo))
        return worst
    if not a.property:
        ap.error("property id required")
    pid = a.property.upper()
    if a.replay:
        return replay(pid, a.replay, tier, a.repo)
    return run_property(pid, tier, a.repo, a.rule)


if __name__ == "__main__":
    sys.exit(main())
