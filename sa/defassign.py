"""Definite-assignment analysis of one execution of a statement list.

`stale_reads(body, tracked, key_of, call_reads)` returns the tracked keys that can be read before the
execution has assigned them on the path taken, i.e. whose value would come from *before* the
execution started (a previous loop iteration, a previous model step). Keys are local names
(`key_of=name_key`) or `self.<attr>` attributes (`key_of=selfattr_key`).
"""

from __future__ import annotations

import ast
from typing import Callable, Optional


def name_key(n: ast.AST) -> Optional[str]:
    return n.id if isinstance(n, ast.Name) else None


def selfattr_key(n: ast.AST) -> Optional[str]:
    if isinstance(n, ast.Attribute) and isinstance(n.value, ast.Name) and n.value.id == "self":
        return "self." + n.attr
    return None


def stored_keys(stmts, key_of) -> set:
    out = set()
    for b in stmts:
        for x in ast.walk(b):
            k = key_of(x)
            if k is not None and isinstance(getattr(x, "ctx", None), (ast.Store, ast.Del)):
                out.add(k)
    return out


def _terminates(stmts) -> bool:
    return bool(stmts) and isinstance(stmts[-1], (ast.Return, ast.Raise, ast.Continue, ast.Break))


def stale_reads(body, tracked: set, key_of: Callable, call_reads: Optional[Callable] = None) -> dict:
    """-> {key: first offending node}"""
    bad: dict = {}

    def reads(e, defined):
        if e is None:
            return
        for x in ast.walk(e):
            k = key_of(x)
            if k is not None and isinstance(getattr(x, "ctx", None), ast.Load) and k in tracked and k not in defined:
                bad.setdefault(k, x)
            if call_reads is not None and isinstance(x, ast.Call):
                for k2 in call_reads(x):
                    if k2 in tracked and k2 not in defined:
                        bad.setdefault(k2, x)

    def targets(t, defined, new):
        k = key_of(t)
        if k is not None:
            new.add(k)
        elif isinstance(t, (ast.Tuple, ast.List)):
            for el in t.elts:
                targets(el, defined, new)
        elif isinstance(t, ast.Starred):
            targets(t.value, defined, new)
        else:
            # element / attribute store: base and index are read, nothing becomes defined
            for c in ast.iter_child_nodes(t):
                if not isinstance(c, ast.expr_context):
                    reads_as_load(c, defined)

    def reads_as_load(e, defined):
        # a store target's sub-expressions are loads even if the outer ctx is Store
        for x in ast.walk(e):
            k = key_of(x)
            if k is not None and k in tracked and k not in defined:
                bad.setdefault(k, x)

    def block(stmts, defined):
        defined = set(defined)
        for st in stmts:
            if isinstance(st, ast.Assign):
                reads(st.value, defined)
                new: set = set()
                for t in st.targets:
                    targets(t, defined, new)
                defined |= new
            elif isinstance(st, ast.AnnAssign):
                reads(st.value, defined)
                if st.value is not None:
                    new = set()
                    targets(st.target, defined, new)
                    defined |= new
            elif isinstance(st, ast.AugAssign):
                reads(st.value, defined)
                k = key_of(st.target)
                if k is not None:
                    if k in tracked and k not in defined:
                        bad.setdefault(k, st)
                    defined.add(k)
                else:
                    reads_as_load(st.target, defined)
            elif isinstance(st, ast.If):
                reads(st.test, defined)
                d1 = block(st.body, defined)
                d2 = block(st.orelse, defined)
                t1, t2 = _terminates(st.body), _terminates(st.orelse)
                defined = d2 if t1 and not t2 else d1 if t2 and not t1 else (d1 & d2)
            elif isinstance(st, ast.For):
                reads(st.iter, defined)
                new = set()
                targets(st.target, defined, new)
                block(st.body, defined | new)
                block(st.orelse, defined)
            elif isinstance(st, ast.While):
                reads(st.test, defined)
                block(st.body, defined)
                block(st.orelse, defined)
            elif isinstance(st, ast.With):
                for it_ in st.items:
                    reads(it_.context_expr, defined)
                defined = block(st.body, defined)
            elif isinstance(st, ast.Try):
                block(st.body, defined)
                for h in st.handlers:
                    block(h.body, defined)
                block(st.orelse, defined)
                block(st.finalbody, defined)
            elif isinstance(st, (ast.FunctionDef, ast.ClassDef)):
                continue
            else:
                reads(st, defined)
        return defined

    block(body, set())
    return bad
