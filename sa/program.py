"""E1 - program model: loader, symbol tables, role typing, call resolution.

The repository is parsed with ``ast`` on every run.  Nothing is imported.
"""

from __future__ import annotations

import ast
import hashlib
import os
from dataclasses import dataclass, field
from pathlib import Path
from typing import Iterator, Optional


class AnalysisError(Exception):
    """The analysis itself cannot run (vanished anchor, unsupported construct)."""


class AnchorMissing(AnalysisError):
    pass


class StarredCall(AnalysisError):
    pass


def repo_root() -> Path:
    return Path(os.environ.get("LADIM_REPO", "/repo"))


def unparse(node: ast.AST) -> str:
    """Normalised text of a construct (whitespace / comment independent)."""
    try:
        return ast.unparse(node)
    except Exception:  # pragma: no cover
        return ast.dump(node)


def short(node: ast.AST, n: int = 110) -> str:
    s = " ".join(unparse(node).split())
    return s if len(s) <= n else s[: n - 3] + "..."


@dataclass
class FuncInfo:
    module: "ModuleInfo"
    qual: str  # "tracker.Tracker.update" / "tracker.RKstep1"
    node: ast.FunctionDef
    cls: Optional[str] = None  # class name if a method

    @property
    def name(self) -> str:
        return self.node.name

    @property
    def file(self) -> str:
        return self.module.relpath

    @property
    def decorators(self) -> list[str]:
        return [unparse(d) for d in self.node.decorator_list]

    @property
    def is_kernel(self) -> bool:
        return any("njit" in d or "jit" in d for d in self.decorators)

    @property
    def params(self) -> list[str]:
        a = self.node.args
        return [x.arg for x in a.posonlyargs + a.args + a.kwonlyargs]

    def param_annotations(self) -> dict[str, str]:
        a = self.node.args
        out = {}
        for x in a.posonlyargs + a.args + a.kwonlyargs:
            if x.annotation is not None:
                ann = unparse(x.annotation)
                if (ann.startswith("'") and ann.endswith("'")) or (
                    ann.startswith('"') and ann.endswith('"')
                ):
                    ann = ann[1:-1]
                out[x.arg] = ann
        return out

    def defaults(self) -> dict[str, ast.expr]:
        a = self.node.args
        pos = a.posonlyargs + a.args
        out: dict[str, ast.expr] = {}
        for arg, d in zip(pos[len(pos) - len(a.defaults) :], a.defaults):
            out[arg.arg] = d
        for arg, d in zip(a.kwonlyargs, a.kw_defaults):
            if d is not None:
                out[arg.arg] = d
        return out

    def loc(self, node: Optional[ast.AST] = None) -> str:
        ln = getattr(node, "lineno", None) if node is not None else self.node.lineno
        return f"{self.file}:{ln}"


@dataclass
class ModuleInfo:
    name: str  # "tracker", "ibms.light"
    path: Path
    relpath: str
    src: str
    tree: ast.Module
    sha256: str
    functions: dict[str, FuncInfo] = field(default_factory=dict)  # "Tracker.update"
    classes: dict[str, ast.ClassDef] = field(default_factory=dict)
    aliases: dict[str, str] = field(default_factory=dict)  # RKstep -> RKstep1
    constants: dict[str, ast.expr] = field(default_factory=dict)
    imports: dict[str, str] = field(default_factory=dict)  # local -> dotted


# Annotation -> role, for parameters typed with the abstract base classes.
ANNOTATION_ROLE = {
    "BaseForce": "forcing",
    "Forcing": "forcing",
    "BaseGrid": "grid",
    "Grid": "grid",
    "State": "state",
    "TimeKeeper": "time",
    "BaseOutput": "output",
    "Output": "output",
    "ParticleReleaser": "release",
    "Tracker": "tracker",
    "IBM": "ibm",
}


class Program:
    """All of ``<root>/ladim`` parsed, with symbol tables."""

    def __init__(self, root: Optional[Path] = None) -> None:
        self.root = Path(root) if root else repo_root()
        self.pkg = self.root / "ladim"
        if not self.pkg.is_dir():
            raise AnalysisError(f"no package directory {self.pkg}")
        self.modules: dict[str, ModuleInfo] = {}
        self.consulted: set[str] = set()
        for path in sorted(self.pkg.rglob("*.py")):
            rel = path.relative_to(self.pkg)
            name = ".".join(rel.with_suffix("").parts)
            src = path.read_text(encoding="utf-8")
            try:
                tree = ast.parse(src, filename=str(path))
            except SyntaxError as e:
                raise AnalysisError(f"syntax error in {path}: {e}") from e
            mi = ModuleInfo(
                name=name,
                path=path,
                relpath=str(path.relative_to(self.root)),
                src=src,
                tree=tree,
                sha256=hashlib.sha256(src.encode()).hexdigest(),
            )
            self._index(mi)
            self.modules[name] = mi
        self._role_tables()

    # ------------------------------------------------------------------
    def _index(self, mi: ModuleInfo) -> None:
        for node in mi.tree.body:
            if isinstance(node, ast.FunctionDef):
                mi.functions[node.name] = FuncInfo(mi, f"{mi.name}.{node.name}", node)
            elif isinstance(node, ast.ClassDef):
                mi.classes[node.name] = node
                for sub in node.body:
                    if isinstance(sub, ast.FunctionDef):
                        q = f"{node.name}.{sub.name}"
                        mi.functions[q] = FuncInfo(
                            mi, f"{mi.name}.{q}", sub, cls=node.name
                        )
            elif isinstance(node, ast.Assign) and len(node.targets) == 1:
                t = node.targets[0]
                if isinstance(t, ast.Name):
                    if isinstance(node.value, ast.Name):
                        mi.aliases[t.id] = node.value.id
                    else:
                        mi.constants[t.id] = node.value
            elif isinstance(node, ast.AnnAssign) and isinstance(node.target, ast.Name):
                if node.value is not None:
                    mi.constants[node.target.id] = node.value
            elif isinstance(node, ast.ImportFrom) and node.module:
                for a in node.names:
                    mi.imports[a.asname or a.name] = f"{node.module}.{a.name}"
            elif isinstance(node, ast.Import):
                for a in node.names:
                    mi.imports[a.asname or a.name] = a.name
        # imports under `if TYPE_CHECKING:` are typing-only; record them too
        for node in mi.tree.body:
            if isinstance(node, ast.If):
                for sub in node.body:
                    if isinstance(sub, ast.ImportFrom) and sub.module:
                        for a in sub.names:
                            mi.imports.setdefault(
                                a.asname or a.name, f"{sub.module}.{a.name}"
                            )

    # ------------------------------------------------------------------
    def _role_tables(self) -> None:
        """role -> default module / class, read from model.init_module's dict literals."""
        self.role_module: dict[str, str] = {}
        self.role_class: dict[str, str] = {}
        self.role_order: list[str] = []
        if "model" not in self.modules:
            return
        fi = self.modules["model"].functions.get("init_module")
        scopes: list[ast.AST] = []
        if fi is not None:
            scopes.append(fi.node)
        scopes.append(self.modules["model"].tree)  # tables may be hoisted to module level

        def table_of(value: ast.expr):
            if isinstance(value, ast.Call) and isinstance(value.func, ast.Name) and value.func.id == "dict" and value.keywords and all(
                k.arg and isinstance(k.value, ast.Constant) and isinstance(k.value.value, str) for k in value.keywords
            ):
                return {k.arg: k.value.value for k in value.keywords}
            if isinstance(value, ast.Dict) and value.keys and all(
                isinstance(k, ast.Constant) and isinstance(v, ast.Constant) and isinstance(k.value, str) and isinstance(v.value, str)
                for k, v in zip(value.keys, value.values)
            ):
                return {k.value: v.value for k, v in zip(value.keys, value.values)}
            return None

        for scope in scopes:
            for node in ast.walk(scope):
                value = None
                if isinstance(node, ast.Assign):
                    value = node.value
                elif isinstance(node, ast.AnnAssign) and node.value is not None:
                    value = node.value
                if value is None:
                    continue
                table = table_of(value)
                if not table or len(table) < 6:
                    continue
                if all(str(v).startswith("ladim.") for v in table.values()):
                    if not self.role_module:
                        self.role_module = {r: v[len("ladim.") :] for r, v in table.items()}
                elif not self.role_class and all(v[:1].isupper() for v in table.values()):
                    self.role_class = table
        init = self.modules["model"].functions.get("Model.__init__")
        if init is not None:
            for node in ast.walk(init.node):
                if (
                    isinstance(node, ast.Assign)
                    and isinstance(node.value, ast.List)
                    and len(node.targets) == 1
                    and isinstance(node.targets[0], ast.Name)
                    and node.targets[0].id == "module_names"
                ):
                    self.role_order = [
                        e.value for e in node.value.elts if isinstance(e, ast.Constant)
                    ]

    # ------------------------------------------------------------------
    def module(self, name: str) -> ModuleInfo:
        if name not in self.modules:
            raise AnchorMissing(f"module ladim/{name}.py not found")
        self.consulted.add(name)
        return self.modules[name]

    def func(self, qual: str) -> FuncInfo:
        """``"tracker.Tracker.update"`` -> FuncInfo; raises AnchorMissing."""
        mod, _, rest = qual.partition(".")
        # modules may contain dots (ibms.light) - try longest prefix
        parts = qual.split(".")
        for k in range(len(parts) - 1, 0, -1):
            m = ".".join(parts[:k])
            if m in self.modules:
                mi = self.module(m)
                rest = ".".join(parts[k:])
                # follow module-level alias (RKstep -> RKstep1)
                seen = set()
                while rest in mi.aliases and rest not in seen:
                    seen.add(rest)
                    rest = mi.aliases[rest]
                if rest in mi.functions:
                    return mi.functions[rest]
                # inherited method
                if "." in rest:
                    cls, meth = rest.split(".", 1)
                    for base in self.bases(m, cls):
                        bmod, bcls = base
                        f = self.modules[bmod].functions.get(f"{bcls}.{meth}")
                        if f is not None:
                            self.consulted.add(bmod)
                            return f
                raise AnchorMissing(f"function {qual} not found in {mi.relpath}")
        raise AnchorMissing(f"function {qual}: no such module")

    def has_func(self, qual: str) -> bool:
        try:
            self.func(qual)
            return True
        except AnchorMissing:
            return False

    def bases(self, mod: str, cls: str) -> list[tuple[str, str]]:
        """Base classes defined inside the repository, nearest first."""
        out: list[tuple[str, str]] = []
        mi = self.modules.get(mod)
        if mi is None or cls not in mi.classes:
            return out
        for b in mi.classes[cls].bases:
            bname = unparse(b).split("[")[0]
            target = mi.imports.get(bname)
            if bname in mi.classes:
                out.append((mod, bname))
                out.extend(self.bases(mod, bname))
            elif target and target.startswith("ladim."):
                tmod, _, tcls = target[len("ladim.") :].rpartition(".")
                if tmod in self.modules and tcls in self.modules[tmod].classes:
                    out.append((tmod, tcls))
                    out.extend(self.bases(tmod, tcls))
        return out

    def role_func(self, role: str, method: str) -> FuncInfo:
        if role not in self.role_module or role not in self.role_class:
            raise AnchorMissing(f"role {role!r} not in init_module's tables")
        return self.func(f"{self.role_module[role]}.{self.role_class[role]}.{method}")

    def role_of_class(self, mod: str, cls: str) -> Optional[str]:
        for r, m in self.role_module.items():
            if m == mod and self.role_class.get(r) == cls:
                return r
        return None

    def all_functions(self) -> Iterator[FuncInfo]:
        for mi in self.modules.values():
            yield from mi.functions.values()

    def digests(self, only: Optional[set[str]] = None) -> dict[str, str]:
        names = only if only is not None else self.consulted
        return {
            self.modules[n].relpath: self.modules[n].sha256
            for n in sorted(names)
            if n in self.modules
        }

    # ------------------------------------------------------------------
    # Call resolution
    # ------------------------------------------------------------------
    def type_env(self, fi: FuncInfo) -> dict[str, str]:
        """Map ``unparse(expr)`` -> role for expressions typed as role objects
        inside ``fi`` (locals, ``self.<attr>`` and annotated parameters)."""
        env: dict[str, str] = {}
        mi = fi.module
        # parameters typed with base classes
        for p, ann in fi.param_annotations().items():
            base = ann.split("[")[0].split(".")[-1]
            if base in ANNOTATION_ROLE:
                env[p] = ANNOTATION_ROLE[base]
        # class-level: assignments in every method of the class `self.x = modules["r"]`
        bodies: list[ast.AST] = [fi.node]
        if fi.cls:
            for q, f in mi.functions.items():
                if f.cls == fi.cls and f is not fi:
                    bodies.append(f.node)
        changed = True
        rounds = 0
        while changed and rounds < 4:
            changed = False
            rounds += 1
            for body in bodies:
                own = body is fi.node
                for node in ast.walk(body):
                    tgt = val = None
                    if isinstance(node, ast.Assign) and len(node.targets) == 1:
                        tgt, val = node.targets[0], node.value
                    elif isinstance(node, ast.AnnAssign) and node.value is not None:
                        tgt, val = node.target, node.value
                    if tgt is None:
                        continue
                    key = unparse(tgt)
                    if not own and not key.startswith("self."):
                        continue
                    role = self._expr_role(val, env)
                    if role and env.get(key) != role:
                        env[key] = role
                        changed = True
        return env

    def _expr_role(self, val: ast.expr, env: dict[str, str]) -> Optional[str]:
        # modules["r"] / self.modules["r"] / all_modules_dict["r"]
        if isinstance(val, ast.Subscript) and isinstance(val.slice, ast.Constant):
            base = unparse(val.value)
            if base.endswith("modules") and isinstance(val.slice.value, str):
                if val.slice.value in self.role_class:
                    return val.slice.value
        key = unparse(val)
        if key in env:
            return env[key]
        # constructor call: Model(config) is not a role; State(...) etc.
        if isinstance(val, ast.Call) and isinstance(val.func, ast.Name):
            for r, c in self.role_class.items():
                if c == val.func.id:
                    return r
        return None

    def resolve_call(
        self, fi: FuncInfo, call: ast.Call, env: Optional[dict[str, str]] = None
    ) -> list[FuncInfo]:
        """Repository functions a call may reach ([] if library / unknown)."""
        if env is None:
            env = self.type_env(fi)
        mi = fi.module
        f = call.func
        if isinstance(f, ast.Name):
            name = f.id
            seen = set()
            while name in mi.aliases and name not in seen:
                seen.add(name)
                name = mi.aliases[name]
            if name in mi.functions:
                return [mi.functions[name]]
            if name in mi.classes:
                init = mi.functions.get(f"{name}.__init__")
                return [init] if init else []
            target = mi.imports.get(name)
            if target and target.startswith("ladim."):
                tmod, _, tname = target[len("ladim.") :].rpartition(".")
                if tmod in self.modules:
                    tm = self.modules[tmod]
                    while tname in tm.aliases:
                        tname = tm.aliases[tname]
                    if tname in tm.functions:
                        self.consulted.add(tmod)
                        return [tm.functions[tname]]
                    if tname in tm.classes:
                        init = tm.functions.get(f"{tname}.__init__")
                        self.consulted.add(tmod)
                        return [init] if init else []
            return []
        if isinstance(f, ast.Attribute):
            recv = unparse(f.value)
            meth = f.attr
            if recv == "self" and fi.cls:
                # self.advect -> getattr(self, self.advection) guarded by a literal list
                dyn = self._dynamic_attr(fi, meth)
                if dyn:
                    return dyn
                try:
                    return [self.func(f"{mi.name}.{fi.cls}.{meth}")]
                except AnchorMissing:
                    return []
            if recv == "super()" and fi.cls:
                for bmod, bcls in self.bases(mi.name, fi.cls):
                    g = self.modules[bmod].functions.get(f"{bcls}.{meth}")
                    if g:
                        return [g]
                return []
            role = env.get(recv) or self._expr_role(f.value, env)
            if role:
                try:
                    return [self.role_func(role, meth)]
                except AnchorMissing:
                    return []
            # model = Model(config): model.update()
            if recv in self._model_locals(fi):
                try:
                    return [self.func(f"model.Model.{meth}")]
                except AnchorMissing:
                    return []
        return []

    def _model_locals(self, fi: FuncInfo) -> set[str]:
        out = set()
        for node in ast.walk(fi.node):
            if (
                isinstance(node, ast.Assign)
                and isinstance(node.value, ast.Call)
                and isinstance(node.value.func, ast.Name)
                and node.value.func.id == "Model"
            ):
                for t in node.targets:
                    if isinstance(t, ast.Name):
                        out.add(t.id)
        return out

    def _dynamic_attr(self, fi: FuncInfo, attr: str) -> list[FuncInfo]:
        """``self.<attr> = getattr(self, self.X)`` under ``if self.X in [..literals..]``."""
        mi = fi.module
        for q, f in mi.functions.items():
            if f.cls != fi.cls:
                continue
            for node in ast.walk(f.node):
                if not isinstance(node, ast.If):
                    continue
                t = node.test
                if not (
                    isinstance(t, ast.Compare)
                    and len(t.ops) == 1
                    and isinstance(t.ops[0], (ast.In, ast.NotIn))
                    and isinstance(t.comparators[0], (ast.List, ast.Tuple, ast.Set))
                ):
                    continue
                names = [
                    e.value
                    for e in t.comparators[0].elts
                    if isinstance(e, ast.Constant) and isinstance(e.value, str)
                ]
                arm = node.body if isinstance(t.ops[0], ast.In) else node.orelse
                for sub in arm:
                    if (
                        isinstance(sub, ast.Assign)
                        and len(sub.targets) == 1
                        and unparse(sub.targets[0]) == f"self.{attr}"
                        and isinstance(sub.value, ast.Call)
                        and unparse(sub.value.func) == "getattr"
                        and len(sub.value.args) == 2
                        and unparse(sub.value.args[0]) == "self"
                        and unparse(sub.value.args[1]) == unparse(t.left)
                    ):
                        out = []
                        for n in names:
                            g = mi.functions.get(f"{fi.cls}.{n}")
                            if g:
                                out.append(g)
                        return out
        return []

    def dynamic_attr_names(self, fi: FuncInfo, attr: str) -> list[str]:
        return [g.name for g in self._dynamic_attr(fi, attr)]

    # ------------------------------------------------------------------
    def calls_in(self, fi: FuncInfo) -> list[ast.Call]:
        return [n for n in ast.walk(fi.node) if isinstance(n, ast.Call)]

    def reachable(self, start: list[FuncInfo], depth: int = 8) -> dict[str, FuncInfo]:
        """Repository functions reachable from ``start`` through resolved calls."""
        seen: dict[str, FuncInfo] = {}
        frontier = list(start)
        d = 0
        while frontier and d <= depth:
            nxt = []
            for fi in frontier:
                if fi.qual in seen:
                    continue
                seen[fi.qual] = fi
                env = self.type_env(fi)
                for c in self.calls_in(fi):
                    for g in self.resolve_call(fi, c, env):
                        if g.qual not in seen:
                            nxt.append(g)
            frontier = nxt
            d += 1
        return seen


def bind_args(callee: FuncInfo, call: ast.Call, skip_self: bool = True) -> dict[str, ast.expr]:
    """Bind call arguments to the callee's parameter names (defaults included)."""
    a = callee.node.args
    pos = [x.arg for x in a.posonlyargs + a.args]
    if skip_self and callee.cls and pos and pos[0] in ("self", "cls"):
        is_static = any("staticmethod" in d for d in callee.decorators)
        if not is_static:
            pos = pos[1:]
    out: dict[str, ast.expr] = dict(callee.defaults())
    out.pop("self", None)
    if any(isinstance(a, ast.Starred) for a in call.args):
        raise StarredCall(f"starred argument in call {short(call)}")
    for name, arg in zip(pos, call.args):
        out[name] = arg
    for kw in call.keywords:
        if kw.arg is None:
            continue
        out[kw.arg] = kw.value
    return out


def walk_no_nested(node: ast.AST) -> Iterator[ast.AST]:
    """ast.walk that does not descend into nested function / class definitions."""
    stack = [node]
    first = True
    while stack:
        n = stack.pop()
        if not first and isinstance(n, (ast.FunctionDef, ast.AsyncFunctionDef, ast.ClassDef, ast.Lambda)):
            continue
        first = False
        yield n
        stack.extend(reversed(list(ast.iter_child_nodes(n))))


def increment_of(st: ast.AST):
    """(target text, integer amount) if `st` is  t += c  /  t = t + c  /  t = c + t  (c integer literal)."""
    if isinstance(st, ast.AugAssign) and isinstance(st.op, (ast.Add, ast.Sub)) and isinstance(st.value, ast.Constant) and isinstance(st.value.value, int):
        return unparse(st.target), st.value.value if isinstance(st.op, ast.Add) else -st.value.value
    if isinstance(st, ast.Assign) and len(st.targets) == 1 and isinstance(st.value, ast.BinOp) and isinstance(st.value.op, (ast.Add, ast.Sub)):
        t = unparse(st.targets[0])
        l, r = st.value.left, st.value.right
        if unparse(l) == t and isinstance(r, ast.Constant) and isinstance(r.value, int):
            return t, r.value if isinstance(st.value.op, ast.Add) else -r.value
        if unparse(r) == t and isinstance(l, ast.Constant) and isinstance(l.value, int) and isinstance(st.value.op, ast.Add):
            return t, l.value
    return None


def single_defs(fn: ast.AST) -> dict[str, ast.expr]:
    """Local names assigned exactly once (simple `name = expr`) in fn -> their defining expression."""
    count: dict[str, int] = {}
    defs: dict[str, ast.expr] = {}
    for n in walk_no_nested(fn):
        tg = []
        if isinstance(n, ast.Assign):
            tg = n.targets
        elif isinstance(n, (ast.AugAssign, ast.AnnAssign)):
            tg = [n.target]
        elif isinstance(n, (ast.For, ast.comprehension)):
            tg = [n.target]
        elif isinstance(n, ast.With):
            tg = [i.optional_vars for i in n.items if i.optional_vars is not None]
        for t in tg:
            for x in ast.walk(t):
                if isinstance(x, ast.Name):
                    count[x.id] = count.get(x.id, 0) + 1
        if isinstance(n, ast.Assign) and len(n.targets) == 1 and isinstance(n.targets[0], ast.Name):
            defs[n.targets[0].id] = n.value
        if isinstance(n, ast.AnnAssign) and isinstance(n.target, ast.Name) and n.value is not None:
            defs[n.target.id] = n.value
    params = set()
    if isinstance(fn, ast.FunctionDef):
        a = fn.args
        params = {x.arg for x in a.posonlyargs + a.args + a.kwonlyargs}
    return {k: v for k, v in defs.items() if count.get(k, 0) == 1 and k not in params}


class _Subst(ast.NodeTransformer):
    def __init__(self, mapping: dict[str, ast.expr], depth: int = 6) -> None:
        self.mapping = mapping
        self.depth = depth

    def visit_Name(self, node: ast.Name):
        if isinstance(node.ctx, ast.Load) and node.id in self.mapping and self.depth > 0:
            import copy

            sub = copy.deepcopy(self.mapping[node.id])
            return _Subst(self.mapping, self.depth - 1).visit(sub)
        return node


def expand_locals(e: ast.AST, fn: ast.AST, defs: Optional[dict] = None) -> ast.AST:
    """Copy of `e` with single-assignment local temporaries replaced by their definitions."""
    import copy

    defs = defs if defs is not None else single_defs(fn)
    return ast.fix_missing_locations(_Subst(defs).visit(copy.deepcopy(e)))


def xunparse(e: ast.AST, fn: ast.AST, defs: Optional[dict] = None) -> str:
    return unparse(expand_locals(e, fn, defs))


def unroll_literal_loops(fn: ast.FunctionDef) -> ast.FunctionDef:
    """Copy of fn where `for v in (<constants>): body` is replaced by the bodies with v substituted."""
    import copy

    class U(ast.NodeTransformer):
        def visit_For(self, node: ast.For):
            self.generic_visit(node)
            it = node.iter
            if isinstance(it, (ast.Tuple, ast.List)) and it.elts and all(isinstance(x, ast.Constant) for x in it.elts) and isinstance(node.target, ast.Name) and not node.orelse:
                out = []
                for c in it.elts:
                    for st in node.body:
                        out.append(_Subst({node.target.id: c}).visit(copy.deepcopy(st)))
                return out
            return node

    return ast.fix_missing_locations(U().visit(copy.deepcopy(fn)))


def bool_table(test: ast.expr, atom_of, names_env: Optional[dict] = None):
    """Truth table of a boolean expression over atoms. `atom_of(node)` returns an atom key for
    leaves it understands (or None).  -> (sorted atom list, {assignment tuple: bool}) or None."""
    atoms: list[str] = []

    def collect(n):
        if isinstance(n, ast.BoolOp):
            return all(collect(v) for v in n.values)
        if isinstance(n, ast.UnaryOp) and isinstance(n.op, ast.Not):
            return collect(n.operand)
        a = atom_of(n)
        if a is None:
            return False
        key = a[0] if isinstance(a, tuple) else a
        if key not in atoms:
            atoms.append(key)
        return True

    if not collect(test):
        return None
    atoms.sort()

    def ev(n, asg):
        if isinstance(n, ast.BoolOp):
            vals = [ev(v, asg) for v in n.values]
            return all(vals) if isinstance(n.op, ast.And) else any(vals)
        if isinstance(n, ast.UnaryOp) and isinstance(n.op, ast.Not):
            return not ev(n.operand, asg)
        a = atom_of(n)
        if isinstance(a, tuple):
            return asg[a[0]] != a[1]  # (key, negated)
        return asg[a]

    from itertools import product

    table = {}
    for vals in product((False, True), repeat=len(atoms)):
        asg = dict(zip(atoms, vals))
        table[vals] = ev(test, asg)
    return atoms, table


def sequential_expand(body: list, params: Optional[set] = None):
    """Process a statement list in order, substituting earlier simple assignments into later
    expressions (names may be re-assigned).  -> (records, env) where records is a list of
    (stmt, expanded value expr or None) and env maps names to their final expanded expression."""
    import copy

    env: dict[str, ast.expr] = {}
    records = []

    def sub(e):
        return ast.fix_missing_locations(_Subst(dict(env), depth=1).visit(copy.deepcopy(e)))

    for st in body:
        if isinstance(st, ast.Assign) and len(st.targets) == 1 and isinstance(st.targets[0], ast.Name):
            v = sub(st.value)
            records.append((st, v))
            env[st.targets[0].id] = v
        elif isinstance(st, ast.AnnAssign) and isinstance(st.target, ast.Name) and st.value is not None:
            v = sub(st.value)
            records.append((st, v))
            env[st.target.id] = v
        elif isinstance(st, ast.Assign):
            records.append((st, sub(st.value)))
        elif isinstance(st, ast.Expr):
            records.append((st, sub(st.value)))
        elif isinstance(st, ast.Return) and st.value is not None:
            records.append((st, sub(st.value)))
        else:
            records.append((st, None))
    return records, env


def call_chain(e: ast.expr):
    """x.a(..).b(..).c(..) -> ([("c", call), ("b", call), ("a", call)], x)"""
    out = []
    while isinstance(e, ast.Call) and isinstance(e.func, ast.Attribute):
        out.append((e.func.attr, e))
        e = e.func.value
    return out, e
