"""E1 - program model: loader, symbol tables, role typing, call resolution.

The repository is parsed with ``ast`` on every run.  Nothing is imported.
"""

from __future__ import annotations

import ast
import hashlib
import os
from dataclasses import dataclass, field
from pathlib import Path
from typing import Iterator, Optional


class AnalysisError(Exception):
    """The analysis itself cannot run (vanished anchor, unsupported construct)."""


class AnchorMissing(AnalysisError):
    pass


class StarredCall(AnalysisError):
    pass


def repo_root() -> Path:
    return Path(os.environ.get("LADIM_REPO", "/repo"))


def lower_modern_syntax(tree: ast.Module) -> ast.Module:
    """Source-level desugaring applied once when a module is loaded, so that every rule sees one
    statement vocabulary:
      * `match subject: case <literal> | <literal>: ... case _: ...`  ->  if / elif / else on
        `subject == literal` (value, singleton, or-patterns and the wildcard only; any other pattern is
        left as it is and reported as unsupported by whichever evaluator meets it);
      * inside functions `x: T = e` -> `x = e` (local annotations carry no behaviour);
      * `list(map(f, xs))` -> `[f(t) for t in xs]`;
      * `np.<ufunc>(a, b, out=T)` used as a statement -> the store `T = a <op> b` it performs;
      * comparisons and negated two-armed tests in one canonical spelling (class Canon below);
      * `t = e; return t` -> `return e`, nested single `if`s -> one `and` test, call-free tuple assignments split;
      * a module-level `P = re.compile(<literal>)` that is never re-bound: `P.search(s)` -> `re.search(<literal>, s)`;
      * `if (x := e) <op> ...:` / `y = f((x := e))`  ->  `x = e` before the statement, when the
        assignment expression is evaluated unconditionally (not under and/or, a conditional expression
        or a comprehension).
    Line numbers are kept."""

    def literal_pattern(p):
        if isinstance(p, ast.MatchValue):
            return [p.value]
        if isinstance(p, ast.MatchSingleton):
            return [ast.Constant(value=p.value)]
        if isinstance(p, ast.MatchOr):
            out = []
            for q in p.patterns:
                r = literal_pattern(q)
                if r is None:
                    return None
                out += r
            return out
        return None

    class Lower(ast.NodeTransformer):
        def visit_Match(self, node: ast.Match):
            self.generic_visit(node)
            arms = []
            default = None
            for c in node.cases:
                if c.guard is not None:
                    return node
                if isinstance(c.pattern, ast.MatchAs) and c.pattern.pattern is None and c.pattern.name is None:
                    default = c.body
                    continue
                lits = literal_pattern(c.pattern)
                if lits is None:
                    return node
                tests = [ast.Compare(left=node.subject, ops=[ast.Is() if isinstance(l, ast.Constant) and any(l.value is x for x in (None, True, False)) else ast.Eq()], comparators=[l]) for l in lits]
                test = tests[0] if len(tests) == 1 else ast.BoolOp(op=ast.Or(), values=tests)
                arms.append((test, c.body))
            if not arms:
                return node
            chain = default or []
            for test, body in reversed(arms):
                chain = [ast.copy_location(ast.If(test=test, body=body, orelse=chain), node)]
            return ast.fix_missing_locations(chain[0])

    tree = Lower().visit(tree)

    class Plain(ast.NodeTransformer):
        """Inside functions, `x: T = e` -> `x = e` and a bare declaration `x: T` disappears: a local type
        annotation has no effect at run time and no rule reads one."""

        def __init__(self):
            self.in_func = 0

        def visit_FunctionDef(self, n):
            self.in_func += 1
            self.generic_visit(n)
            self.in_func -= 1
            if not n.body:
                n.body = [ast.copy_location(ast.Pass(), n)]
            return n

        visit_AsyncFunctionDef = visit_FunctionDef

        def visit_ClassDef(self, n):
            saved, self.in_func = self.in_func, 0
            self.generic_visit(n)
            self.in_func = saved
            return n

        def visit_AnnAssign(self, n: ast.AnnAssign):
            if not self.in_func:
                return n
            if n.value is None:
                return ast.copy_location(ast.Pass(), n)
            return ast.copy_location(ast.Assign(targets=[n.target], value=n.value), n)

    tree = ast.fix_missing_locations(Plain().visit(tree))

    class MapToComp(ast.NodeTransformer):
        """`list(map(f, xs))` -> `[f(x) for x in xs]`, `tuple(map(f, xs))` -> `tuple(f(x) for x in xs)` for a
        named function / bound method f and one iterable (the builtins; same elements in the same order)."""

        def visit_Call(self, n: ast.Call):
            self.generic_visit(n)
            if isinstance(n.func, ast.Name) and n.func.id in ("list", "tuple") and len(n.args) == 1 and not n.keywords:
                m = n.args[0]
                if isinstance(m, ast.Call) and isinstance(m.func, ast.Name) and m.func.id == "map" and len(m.args) == 2 and not m.keywords and isinstance(m.args[0], (ast.Name, ast.Attribute)):
                    var = "t"
                    used = {x.id for x in ast.walk(m) if isinstance(x, ast.Name)}
                    while var in used:
                        var += "_"
                    elt = ast.Call(func=m.args[0], args=[ast.Name(id=var, ctx=ast.Load())], keywords=[])
                    gen = [ast.comprehension(target=ast.Name(id=var, ctx=ast.Store()), iter=m.args[1], ifs=[], is_async=0)]
                    if n.func.id == "list":
                        return ast.copy_location(ast.ListComp(elt=elt, generators=gen), n)
                    n.args = [ast.copy_location(ast.GeneratorExp(elt=elt, generators=gen), m)]
            return n

    tree = ast.fix_missing_locations(MapToComp().visit(tree))

    UFUNC_OPS = {"add": ast.Add, "subtract": ast.Sub, "multiply": ast.Mult, "divide": ast.Div, "true_divide": ast.Div, "floor_divide": ast.FloorDiv, "power": ast.Pow, "mod": ast.Mod, "negative": ast.USub}

    class OutToStore(ast.NodeTransformer):
        """`np.multiply(a, b, out=T[s])` as a statement -> `T[s] = a * b`; with a name as target,
        `np.add(a, U, out=U)` -> `U[:] = a + U` (an in-place store either way; result unused)."""

        def visit_Expr(self, n: ast.Expr):
            c = n.value
            if isinstance(c, ast.Call) and isinstance(c.func, ast.Attribute) and isinstance(c.func.value, ast.Name) and c.func.value.id in ("np", "numpy") and c.func.attr in UFUNC_OPS and len(c.keywords) == 1 and c.keywords[0].arg == "out" and not any(isinstance(a, ast.Starred) for a in c.args):
                op = UFUNC_OPS[c.func.attr]
                tgt = c.keywords[0].value
                if issubclass(op, ast.unaryop) and len(c.args) == 1:
                    val = ast.UnaryOp(op=op(), operand=c.args[0])
                elif issubclass(op, ast.operator) and len(c.args) == 2:
                    val = ast.BinOp(left=c.args[0], op=op(), right=c.args[1])
                else:
                    return n
                import copy

                t = copy.deepcopy(tgt)
                if isinstance(t, ast.Name):
                    t = ast.Subscript(value=ast.Name(id=t.id, ctx=ast.Load()), slice=ast.Slice(lower=None, upper=None, step=None), ctx=ast.Store())
                elif isinstance(t, (ast.Subscript, ast.Attribute)):
                    t.ctx = ast.Store()
                else:
                    return n
                return ast.copy_location(ast.Assign(targets=[t], value=val), n)
            return n

    tree = ast.fix_missing_locations(OutToStore().visit(tree))

    def constlike(e: ast.expr) -> bool:
        """no variable in it: literals, and calls like np.timedelta64(0) of literals"""
        return not any((isinstance(x, ast.Name) and x.id not in ("np", "numpy", "math", "int", "float", "str", "bool", "len")) or (isinstance(x, ast.Attribute) and not (isinstance(x.value, ast.Name) and x.value.id in ("np", "numpy", "math"))) for x in ast.walk(e))

    FLIPOP = {ast.Lt: ast.Gt, ast.Gt: ast.Lt, ast.LtE: ast.GtE, ast.GtE: ast.LtE}
    POSOP = {ast.NotIn: ast.In, ast.IsNot: ast.Is, ast.NotEq: ast.Eq}

    def positive(t: ast.expr):
        """-> (test without an outer negation, True) if `t` was a negated test, else (t, False)"""
        if isinstance(t, ast.UnaryOp) and isinstance(t.op, ast.Not):
            return t.operand, True
        if isinstance(t, ast.Compare) and len(t.ops) == 1 and type(t.ops[0]) in POSOP:
            return ast.copy_location(ast.Compare(left=t.left, ops=[POSOP[type(t.ops[0])]()], comparators=t.comparators), t), True
        return t, False

    class Canon(ast.NodeTransformer):
        """One spelling for tests that differ only in the way they are written:
        * two-operand comparisons: a literal operand stands on the right (`0 < k` -> `k > 0`); two non-literal
          operands are ordered with `<` / `<=` (`a >= b` -> `b <= a`) and, for `==` / `!=`, in text order;
        * a two-armed `if` / conditional expression whose test is negated (`not c`, `not in`, `is not`, `!=`)
          is written positively with the arms exchanged."""

        def visit_Compare(self, n: ast.Compare):
            self.generic_visit(n)
            if len(n.ops) != 1:
                return n
            op, l, r = type(n.ops[0]), n.left, n.comparators[0]
            cl, cr = constlike(l), constlike(r)
            if op in FLIPOP:
                if (cl and not cr) or (not cl and not cr and op in (ast.Gt, ast.GtE)):
                    return ast.copy_location(ast.Compare(left=r, ops=[FLIPOP[op]()], comparators=[l]), n)
            elif op in (ast.Eq, ast.NotEq):
                if (cl and not cr) or (not cl and not cr and unparse(l) > unparse(r)):
                    return ast.copy_location(ast.Compare(left=r, ops=[op()], comparators=[l]), n)
            return n

        def visit_BinOp(self, n: ast.BinOp):
            # `c + x` / `c * x` with a numeric literal c: the literal on the right (two operands commute exactly)
            self.generic_visit(n)
            num = lambda e: isinstance(e, ast.Constant) and isinstance(e.value, (int, float)) and not isinstance(e.value, bool)  # noqa: E731
            if isinstance(n.op, (ast.Add, ast.Mult)) and num(n.left) and not num(n.right):
                n.left, n.right = n.right, n.left
            return n

        def visit_If(self, n: ast.If):
            self.generic_visit(n)
            if n.orelse:
                t, was_neg = positive(n.test)
                if was_neg:
                    n.test, n.body, n.orelse = t, n.orelse, n.body
            return n

        def visit_IfExp(self, n: ast.IfExp):
            self.generic_visit(n)
            t, was_neg = positive(n.test)
            if was_neg:
                n.test, n.body, n.orelse = t, n.orelse, n.body
            return n

    tree = ast.fix_missing_locations(Canon().visit(tree))

    def shape_block(stmts: list, fn_names_load: dict) -> list:
        """One spelling for three statement shapes (inside functions):
        * `t = e` immediately followed by `return t`, t read nowhere else  ->  `return e`
        * `if a: <only> if b: X` (neither with an else)  ->  `if a and b: X`
        * `a, b = x, y` with plain names on the left, call-free values and y not reading a  ->  `a = x; b = y`"""
        out: list = []
        for st in stmts:
            for field in ("body", "orelse", "finalbody"):
                sub = getattr(st, field, None)
                if isinstance(sub, list) and sub and isinstance(sub[0], ast.stmt) and not isinstance(st, (ast.FunctionDef, ast.AsyncFunctionDef, ast.ClassDef)):
                    setattr(st, field, shape_block(sub, fn_names_load))
            if isinstance(st, ast.Try):
                for h in st.handlers:
                    h.body = shape_block(h.body, fn_names_load)
            if isinstance(st, ast.Return) and isinstance(st.value, ast.Name) and out and isinstance(out[-1], ast.Assign) and len(out[-1].targets) == 1 and isinstance(out[-1].targets[0], ast.Name) and out[-1].targets[0].id == st.value.id and fn_names_load.get(st.value.id, 0) == 1:
                prev = out.pop()
                out.append(ast.copy_location(ast.Return(value=prev.value), prev))
                continue
            if isinstance(st, ast.If) and not st.orelse and len(st.body) == 1 and isinstance(st.body[0], ast.If) and not st.body[0].orelse:
                inner = st.body[0]
                vals = (st.test.values if isinstance(st.test, ast.BoolOp) and isinstance(st.test.op, ast.And) else [st.test]) + (inner.test.values if isinstance(inner.test, ast.BoolOp) and isinstance(inner.test.op, ast.And) else [inner.test])
                out.append(ast.copy_location(ast.If(test=ast.BoolOp(op=ast.And(), values=vals), body=inner.body, orelse=[]), st))
                continue
            if isinstance(st, ast.Assign) and len(st.targets) == 1 and isinstance(st.targets[0], ast.Tuple) and isinstance(st.value, ast.Tuple) and len(st.targets[0].elts) == len(st.value.elts) and all(isinstance(t, ast.Name) for t in st.targets[0].elts) and not any(isinstance(x, (ast.Call, ast.NamedExpr, ast.Starred)) for x in ast.walk(st.value)):
                names = [t.id for t in st.targets[0].elts]
                safe = True
                for i, v in enumerate(st.value.elts):
                    reads = {x.id for x in ast.walk(v) if isinstance(x, ast.Name)}
                    if reads & set(names[:i]):
                        safe = False
                if safe and len(set(names)) == len(names):
                    for t, v in zip(st.targets[0].elts, st.value.elts):
                        out.append(ast.copy_location(ast.Assign(targets=[t], value=v), st))
                    continue
            out.append(st)
        return out

    for fn in [x for x in ast.walk(tree) if isinstance(x, (ast.FunctionDef, ast.AsyncFunctionDef))]:
        loads: dict = {}
        for x in ast.walk(fn):
            if isinstance(x, ast.Name) and isinstance(x.ctx, ast.Load):
                loads[x.id] = loads.get(x.id, 0) + 1
        fn.body = shape_block(fn.body, loads)
    tree = ast.fix_missing_locations(tree)

    # module-level compiled regular expressions: `_P = re.compile(r"...")` ... `_P.search(s)` -> `re.search(r"...", s)`
    compiled = {}
    rebound = set()
    for st in tree.body:
        tgt = val = None
        if isinstance(st, ast.Assign) and len(st.targets) == 1 and isinstance(st.targets[0], ast.Name):
            tgt, val = st.targets[0].id, st.value
        elif isinstance(st, ast.AnnAssign) and isinstance(st.target, ast.Name) and st.value is not None:
            tgt, val = st.target.id, st.value
        if tgt is None:
            continue
        if tgt in compiled:
            rebound.add(tgt)
        if isinstance(val, ast.Call) and isinstance(val.func, ast.Attribute) and isinstance(val.func.value, ast.Name) and val.func.value.id == "re" and val.func.attr == "compile" and len(val.args) == 1 and not val.keywords and isinstance(val.args[0], ast.Constant):
            compiled[tgt] = val.args[0]
    for x in ast.walk(tree):
        if isinstance(x, ast.Name) and isinstance(x.ctx, ast.Store) and x.id in compiled and not any(x is (st.targets[0] if isinstance(st, ast.Assign) else getattr(st, "target", None)) for st in tree.body if isinstance(st, (ast.Assign, ast.AnnAssign))):
            rebound.add(x.id)
    compiled = {k: v for k, v in compiled.items() if k not in rebound}
    if compiled:
        import copy as _copy

        class Recompile(ast.NodeTransformer):
            def visit_Call(self, n: ast.Call):
                self.generic_visit(n)
                f = n.func
                if isinstance(f, ast.Attribute) and isinstance(f.value, ast.Name) and f.value.id in compiled and f.attr in ("search", "match", "fullmatch", "sub", "subn", "findall", "finditer", "split"):
                    return ast.copy_location(ast.Call(func=ast.Attribute(value=ast.Name(id="re", ctx=ast.Load()), attr=f.attr, ctx=ast.Load()), args=[_copy.deepcopy(compiled[f.value.id])] + n.args, keywords=n.keywords), n)
                return n

        tree = ast.fix_missing_locations(Recompile().visit(tree))

    def hoistable(root: ast.expr) -> list:
        """NamedExpr nodes evaluated unconditionally when `root` is evaluated."""
        out = []

        def walk(e, cond):
            if isinstance(e, ast.NamedExpr):
                if not cond and isinstance(e.target, ast.Name):
                    out.append(e)
                walk(e.value, cond)
                return
            if isinstance(e, ast.BoolOp):
                for i, v in enumerate(e.values):
                    walk(v, cond or i > 0)
                return
            if isinstance(e, ast.IfExp):
                walk(e.test, cond)
                walk(e.body, True)
                walk(e.orelse, True)
                return
            if isinstance(e, (ast.ListComp, ast.SetComp, ast.DictComp, ast.GeneratorExp, ast.Lambda)):
                return
            for c in ast.iter_child_nodes(e):
                if isinstance(c, ast.expr):
                    walk(c, cond)

        walk(root, False)
        return out

    class Swap(ast.NodeTransformer):
        def __init__(self, targets):
            self.targets = targets

        def visit_NamedExpr(self, n: ast.NamedExpr):
            self.generic_visit(n)
            if any(n is t for t in self.targets):
                return ast.copy_location(ast.Name(id=n.target.id, ctx=ast.Load()), n)
            return n

    def lower_block(stmts: list) -> list:
        out = []
        for st in stmts:
            for field in ("body", "orelse", "finalbody"):
                if hasattr(st, field) and isinstance(getattr(st, field), list) and getattr(st, field) and isinstance(getattr(st, field)[0], ast.stmt):
                    setattr(st, field, lower_block(getattr(st, field)))
            if isinstance(st, ast.Try):
                for h in st.handlers:
                    h.body = lower_block(h.body)
            if isinstance(st, ast.ClassDef):
                st.body = lower_block(st.body)
            holder_field = "test" if isinstance(st, ast.If) else "value" if isinstance(st, (ast.Assign, ast.AnnAssign, ast.AugAssign, ast.Expr, ast.Return)) else None
            e = getattr(st, holder_field, None) if holder_field else None
            if isinstance(e, ast.expr):
                hs = hoistable(e)
                if hs:
                    for h in hs:
                        out.append(ast.fix_missing_locations(ast.copy_location(ast.Assign(targets=[ast.Name(id=h.target.id, ctx=ast.Store())], value=h.value), st)))
                    setattr(st, holder_field, Swap(hs).visit(e))
            out.append(st)
        return out

    tree.body = lower_block(tree.body)
    return ast.fix_missing_locations(tree)


def unparse(node: ast.AST) -> str:
    """Normalised text of a construct (whitespace / comment independent)."""
    try:
        return ast.unparse(node)
    except Exception:  # pragma: no cover
        return ast.dump(node)


def short(node: ast.AST, n: int = 110) -> str:
    s = " ".join(unparse(node).split())
    return s if len(s) <= n else s[: n - 3] + "..."


@dataclass
class FuncInfo:
    module: "ModuleInfo"
    qual: str  # "tracker.Tracker.update" / "tracker.RKstep1"
    node: ast.FunctionDef
    cls: Optional[str] = None  # class name if a method

    @property
    def name(self) -> str:
        return self.node.name

    @property
    def file(self) -> str:
        return self.module.relpath

    @property
    def decorators(self) -> list[str]:
        return [unparse(d) for d in self.node.decorator_list]

    @property
    def is_kernel(self) -> bool:
        return any("njit" in d or "jit" in d for d in self.decorators)

    @property
    def params(self) -> list[str]:
        a = self.node.args
        return [x.arg for x in a.posonlyargs + a.args + a.kwonlyargs]

    def param_annotations(self) -> dict[str, str]:
        a = self.node.args
        out = {}
        for x in a.posonlyargs + a.args + a.kwonlyargs:
            if x.annotation is not None:
                ann = unparse(x.annotation)
                if (ann.startswith("'") and ann.endswith("'")) or (
                    ann.startswith('"') and ann.endswith('"')
                ):
                    ann = ann[1:-1]
                out[x.arg] = ann
        return out

    def defaults(self) -> dict[str, ast.expr]:
        a = self.node.args
        pos = a.posonlyargs + a.args
        out: dict[str, ast.expr] = {}
        for arg, d in zip(pos[len(pos) - len(a.defaults) :], a.defaults):
            out[arg.arg] = d
        for arg, d in zip(a.kwonlyargs, a.kw_defaults):
            if d is not None:
                out[arg.arg] = d
        return out

    def loc(self, node: Optional[ast.AST] = None) -> str:
        ln = line_of(node) if node is not None else line_of(self.node)
        return f"{self.file}:{ln}"


@dataclass
class ModuleInfo:
    name: str  # "tracker", "ibms.light"
    path: Path
    relpath: str
    src: str
    tree: ast.Module
    sha256: str
    functions: dict[str, FuncInfo] = field(default_factory=dict)  # "Tracker.update"
    classes: dict[str, ast.ClassDef] = field(default_factory=dict)
    aliases: dict[str, str] = field(default_factory=dict)  # RKstep -> RKstep1
    constants: dict[str, ast.expr] = field(default_factory=dict)
    imports: dict[str, str] = field(default_factory=dict)  # local -> dotted


# Annotation -> role, for parameters typed with the abstract base classes.
ANNOTATION_ROLE = {
    "BaseForce": "forcing",
    "Forcing": "forcing",
    "BaseGrid": "grid",
    "Grid": "grid",
    "State": "state",
    "TimeKeeper": "time",
    "BaseOutput": "output",
    "Output": "output",
    "ParticleReleaser": "release",
    "Tracker": "tracker",
    "IBM": "ibm",
}


class Program:
    """All of ``<root>/ladim`` parsed, with symbol tables."""

    def __init__(self, root: Optional[Path] = None) -> None:
        self.root = Path(root) if root else repo_root()
        self.pkg = self.root / "ladim"
        if not self.pkg.is_dir():
            raise AnalysisError(f"no package directory {self.pkg}")
        self.modules: dict[str, ModuleInfo] = {}
        self.consulted: set[str] = set()
        for path in sorted(self.pkg.rglob("*.py")):
            rel = path.relative_to(self.pkg)
            name = ".".join(rel.with_suffix("").parts)
            src = path.read_text(encoding="utf-8")
            try:
                tree = ast.parse(src, filename=str(path))
            except SyntaxError as e:
                raise AnalysisError(f"syntax error in {path}: {e}") from e
            tree = lower_modern_syntax(tree)  # match statements and assignment expressions as if / assignments
            mi = ModuleInfo(
                name=name,
                path=path,
                relpath=str(path.relative_to(self.root)),
                src=src,
                tree=tree,
                sha256=hashlib.sha256(src.encode()).hexdigest(),
            )
            self._index(mi)
            self.modules[name] = mi
        self._role_tables()
        self._canonical_locals()

    # ------------------------------------------------------------------
    def _canonical_locals(self) -> None:
        """The rules name a few locals of the anchored functions (count, start, end, limits, duration, ...).
        A maintainer may call them anything: each is identified by the role it plays (how it is defined) and
        renamed, in place, to the name the rules use - see LOCAL_ROLES."""
        for qual, roles in LOCAL_ROLES.items():
            mod, _, rest = qual.partition(":")
            mi = self.modules.get(mod)
            fi = mi.functions.get(rest) if mi else None
            if fi is None:
                continue
            new = rename_by_role(fi, roles)
            if new is not fi:
                # splice the renamed body into the tree the module keeps
                fi.node.body = new.node.body
                fi.node.args = new.node.args

    # ------------------------------------------------------------------
    def _index(self, mi: ModuleInfo) -> None:
        for node in mi.tree.body:
            if isinstance(node, ast.FunctionDef):
                mi.functions[node.name] = FuncInfo(mi, f"{mi.name}.{node.name}", node)
            elif isinstance(node, ast.ClassDef):
                mi.classes[node.name] = node
                for sub in node.body:
                    if isinstance(sub, ast.FunctionDef):
                        q = f"{node.name}.{sub.name}"
                        mi.functions[q] = FuncInfo(
                            mi, f"{mi.name}.{q}", sub, cls=node.name
                        )
            elif isinstance(node, ast.Assign) and len(node.targets) == 1:
                t = node.targets[0]
                if isinstance(t, ast.Name):
                    if isinstance(node.value, ast.Name):
                        mi.aliases[t.id] = node.value.id
                    else:
                        mi.constants[t.id] = node.value
            elif isinstance(node, ast.AnnAssign) and isinstance(node.target, ast.Name):
                if node.value is not None:
                    mi.constants[node.target.id] = node.value
            elif isinstance(node, ast.ImportFrom) and node.module:
                for a in node.names:
                    mi.imports[a.asname or a.name] = f"{node.module}.{a.name}"
            elif isinstance(node, ast.Import):
                for a in node.names:
                    mi.imports[a.asname or a.name] = a.name
        # imports under `if TYPE_CHECKING:` are typing-only; record them too
        for node in mi.tree.body:
            if isinstance(node, ast.If):
                for sub in node.body:
                    if isinstance(sub, ast.ImportFrom) and sub.module:
                        for a in sub.names:
                            mi.imports.setdefault(
                                a.asname or a.name, f"{sub.module}.{a.name}"
                            )

    # ------------------------------------------------------------------
    def _role_tables(self) -> None:
        """role -> default module / class, read from model.init_module's dict literals."""
        self.role_module: dict[str, str] = {}
        self.role_class: dict[str, str] = {}
        if "model" not in self.modules:
            return
        fi = self.modules["model"].functions.get("init_module")
        scopes: list[ast.AST] = []
        if fi is not None:
            scopes.append(fi.node)
        scopes.append(self.modules["model"].tree)  # tables may be hoisted to module level

        def table_of(value: ast.expr):
            """role -> [constant strings of the entry]; entries may be strings, tuples / lists of
            strings or small dicts of strings, the table a dict(...) call or a dict literal."""
            items = None
            if isinstance(value, ast.Call) and isinstance(value.func, ast.Name) and value.func.id == "dict" and value.keywords and all(k.arg for k in value.keywords):
                items = [(k.arg, k.value) for k in value.keywords]
            elif isinstance(value, ast.Dict) and value.keys and all(isinstance(k, ast.Constant) and isinstance(k.value, str) for k in value.keys):
                items = [(k.value, v) for k, v in zip(value.keys, value.values)]
            if not items:
                return None
            out = {}
            for role, v in items:
                strs = [c.value for c in ast.walk(v) if isinstance(c, ast.Constant) and isinstance(c.value, str)]
                if isinstance(v, ast.Dict):
                    strs = [c.value for x in v.values for c in ast.walk(x) if isinstance(c, ast.Constant) and isinstance(c.value, str)]
                if not strs:
                    return None
                out[role] = strs
            return out

        for scope in scopes:
            for node in ast.walk(scope):
                value = None
                if isinstance(node, ast.Assign):
                    value = node.value
                elif isinstance(node, ast.AnnAssign) and node.value is not None:
                    value = node.value
                if value is None:
                    continue
                table = table_of(value)
                if not table or len(table) < 6:
                    continue
                mods = {r: [x for x in v if x.startswith("ladim.")] for r, v in table.items()}
                clss = {r: [x for x in v if x.isidentifier() and x[:1].isupper()] for r, v in table.items()}
                if not self.role_module and all(len(m) == 1 for m in mods.values()):
                    self.role_module = {r: m[0][len("ladim.") :] for r, m in mods.items()}
                if not self.role_class and all(len(c) == 1 for c in clss.values()):
                    self.role_class = {r: c[0] for r, c in clss.items()}

    @property
    def role_order(self) -> list:
        """The order in which Model.__init__ constructs the roles: the literal first arguments of the
        init_module calls of its reading view (the loop over the literal table is unrolled there, whether
        the table is a local, a class constant or written in the loop header)."""
        if "_role_order" not in self.__dict__:
            order: list = []
            if "Model.__init__" in self.modules["model"].functions:
                v = self.view("model.Model.__init__")

                def dfs(n):
                    for c in ast.iter_child_nodes(n):
                        if isinstance(c, ast.Call) and unparse(c.func) == "init_module" and c.args and isinstance(c.args[0], ast.Constant):
                            order.append(c.args[0].value)
                        dfs(c)

                dfs(v.node)
            self.__dict__["_role_order"] = order
        return self.__dict__["_role_order"]

    # ------------------------------------------------------------------
    def module(self, name: str) -> ModuleInfo:
        if name not in self.modules:
            raise AnchorMissing(f"module ladim/{name}.py not found")
        self.consulted.add(name)
        return self.modules[name]

    def func(self, qual: str) -> FuncInfo:
        """``"tracker.Tracker.update"`` -> FuncInfo; raises AnchorMissing."""
        mod, _, rest = qual.partition(".")
        # modules may contain dots (ibms.light) - try longest prefix
        parts = qual.split(".")
        for k in range(len(parts) - 1, 0, -1):
            m = ".".join(parts[:k])
            if m in self.modules:
                mi = self.module(m)
                rest = ".".join(parts[k:])
                # follow module-level alias (RKstep -> RKstep1)
                seen = set()
                while rest in mi.aliases and rest not in seen:
                    seen.add(rest)
                    rest = mi.aliases[rest]
                if rest in mi.functions:
                    return mi.functions[rest]
                # inherited method
                if "." in rest:
                    cls, meth = rest.split(".", 1)
                    for base in self.bases(m, cls):
                        bmod, bcls = base
                        f = self.modules[bmod].functions.get(f"{bcls}.{meth}")
                        if f is not None:
                            self.consulted.add(bmod)
                            return f
                raise AnchorMissing(f"function {qual} not found in {mi.relpath}")
        raise AnchorMissing(f"function {qual}: no such module")

    def view(self, qual: str, propagate: bool = False) -> FuncInfo:
        """The reading view (see `reading_view`) of a function, cached."""
        cache = self.__dict__.setdefault("_views", {})
        key = (qual, propagate)
        if key not in cache:
            cache[key] = reading_view(self, self.func(qual), propagate=propagate)
        return cache[key]

    def record_fields(self, mod: str, cls: str):
        """Field names (with default expressions) of a value class defined in the repository - a
        NamedTuple subclass or a @dataclass - or None. Such classes only bundle values; the interpreter
        and the normalisers look through them."""
        mi = self.modules.get(mod)
        c = mi.classes.get(cls) if mi else None
        if c is None:
            return None
        is_nt = any(unparse(b).split(".")[-1] == "NamedTuple" for b in c.bases)
        is_dc = any(unparse(d.func if isinstance(d, ast.Call) else d).split(".")[-1] == "dataclass" for d in c.decorator_list)
        if not (is_nt or is_dc):
            return None
        out = []
        for st in c.body:
            if isinstance(st, ast.AnnAssign) and isinstance(st.target, ast.Name) and "ClassVar" not in unparse(st.annotation):
                out.append((st.target.id, st.value))
        return out

    def record_class_of(self, fi: FuncInfo, name: str):
        """(module, class) when `name`, as seen from the module of `fi`, denotes a value class."""
        mi = fi.module
        if name in mi.classes and self.record_fields(mi.name, name) is not None:
            return (mi.name, name)
        target = mi.imports.get(name)
        if target and target.startswith("ladim."):
            tmod, _, tname = target[len("ladim.") :].rpartition(".")
            if self.record_fields(tmod, tname) is not None:
                return (tmod, tname)
        return None

    def callers_of(self, qual: str) -> list:
        """Functions of the repository containing a call that resolves to `qual` (cached call graph)."""
        cg = self.__dict__.get("_callers")
        if cg is None:
            cg = {}
            for f in list(self.all_functions()):
                try:
                    env = self.type_env(f)
                except Exception:  # noqa: BLE001
                    env = {}
                for n in ast.walk(f.node):
                    if isinstance(n, ast.Call):
                        for g in self.resolve_call(f, n, env):
                            cg.setdefault(g.qual, set()).add(f.qual)
                    # a bound method handed on (map(self._f, ...), key=self._f)
                    elif isinstance(n, ast.Attribute) and isinstance(n.ctx, ast.Load) and isinstance(n.value, ast.Name) and n.value.id in ("self", "cls") and f.cls:
                        q = f"{f.module.name}.{f.cls}.{n.attr}"
                        if q in {x.qual for x in f.module.functions.values()}:
                            cg.setdefault(q, set()).add(f.qual)
                    elif isinstance(n, ast.Name) and isinstance(n.ctx, ast.Load) and n.id in f.module.functions:
                        cg.setdefault(f.module.functions[n.id].qual, set()).add(f.qual)
            self.__dict__["_callers"] = cg
        return sorted(cg.get(qual, ()))

    def effective_owners(self, qual: str) -> set:
        """The public functions on whose behalf `qual` runs: a private helper (`_name`, not a dunder) that
        is only ever called from inside the repository counts as part of its callers, transitively. A
        who-may-write rule that names `State.append` then also admits the helpers `append` is split into -
        and keeps rejecting a helper that some other function calls as well."""
        out: set = set()
        seen: set = set()

        def go(q: str) -> None:
            if q in seen:
                return
            seen.add(q)
            name = q.rsplit(".", 1)[-1]
            private = name.startswith("_") and not name.startswith("__")
            callers = [c for c in self.callers_of(q) if c != q] if private else []
            if not callers:
                out.add(q)
                return
            for c in callers:
                go(c)

        go(qual)
        return out

    def lview(self, fi_or_qual, keep=frozenset()) -> FuncInfo:
        """The light view of a function: class-level constants and private helpers inlined, tests on
        literal flags folded, handle aliases expanded - loops and statements otherwise as written. For
        interpreters and structural rules that should not care how a method is split into helpers.
        `keep` names helpers the rule models itself (they stay calls)."""
        fi = self.func(fi_or_qual) if isinstance(fi_or_qual, str) else fi_or_qual
        cache = self.__dict__.setdefault("_lviews", {})
        key = (fi.qual, frozenset(keep))
        if key not in cache:
            f = inline_helpers(self, inline_class_constants(self, fi), keep=frozenset(keep))
            f = inline_module_constants(f)
            cache[key] = _with_lines(lower_partials(project_record_fields(self, expand_handle_aliases(fold_constant_tests(inline_class_constants(self, f))))))
        return cache[key]

    def has_func(self, qual: str) -> bool:
        try:
            self.func(qual)
            return True
        except AnchorMissing:
            return False

    def bases(self, mod: str, cls: str) -> list[tuple[str, str]]:
        """Base classes defined inside the repository, nearest first."""
        out: list[tuple[str, str]] = []
        mi = self.modules.get(mod)
        if mi is None or cls not in mi.classes:
            return out
        for b in mi.classes[cls].bases:
            bname = unparse(b).split("[")[0]
            target = mi.imports.get(bname)
            if bname in mi.classes:
                out.append((mod, bname))
                out.extend(self.bases(mod, bname))
            elif target and target.startswith("ladim."):
                tmod, _, tcls = target[len("ladim.") :].rpartition(".")
                if tmod in self.modules and tcls in self.modules[tmod].classes:
                    out.append((tmod, tcls))
                    out.extend(self.bases(tmod, tcls))
        return out

    def role_func(self, role: str, method: str) -> FuncInfo:
        if role not in self.role_module or role not in self.role_class:
            raise AnchorMissing(f"role {role!r} not in init_module's tables")
        return self.func(f"{self.role_module[role]}.{self.role_class[role]}.{method}")

    def role_of_class(self, mod: str, cls: str) -> Optional[str]:
        for r, m in self.role_module.items():
            if m == mod and self.role_class.get(r) == cls:
                return r
        return None

    def all_functions(self) -> Iterator[FuncInfo]:
        for mi in self.modules.values():
            yield from mi.functions.values()

    def digests(self, only: Optional[set[str]] = None) -> dict[str, str]:
        names = only if only is not None else self.consulted
        return {
            self.modules[n].relpath: self.modules[n].sha256
            for n in sorted(names)
            if n in self.modules
        }

    # ------------------------------------------------------------------
    # Call resolution
    # ------------------------------------------------------------------
    def type_env(self, fi: FuncInfo) -> dict[str, str]:
        """Map ``unparse(expr)`` -> role for expressions typed as role objects
        inside ``fi`` (locals, ``self.<attr>`` and annotated parameters)."""
        env: dict[str, str] = {}
        mi = fi.module
        # parameters typed with base classes
        for p, ann in fi.param_annotations().items():
            base = ann.split("[")[0].split(".")[-1]
            if base in ANNOTATION_ROLE:
                env[p] = ANNOTATION_ROLE[base]
        # class-level: assignments in every method of the class `self.x = modules["r"]`
        bodies: list[ast.AST] = [fi.node]
        if fi.cls:
            for q, f in mi.functions.items():
                if f.cls == fi.cls and f is not fi:
                    bodies.append(f.node)
        changed = True
        rounds = 0
        while changed and rounds < 4:
            changed = False
            rounds += 1
            for body in bodies:
                own = body is fi.node
                for node in ast.walk(body):
                    tgt = val = None
                    if isinstance(node, ast.Assign) and len(node.targets) == 1:
                        tgt, val = node.targets[0], node.value
                    elif isinstance(node, ast.AnnAssign) and node.value is not None:
                        tgt, val = node.target, node.value
                    if tgt is None:
                        continue
                    key = unparse(tgt)
                    if not own and not key.startswith("self."):
                        continue
                    role = self._expr_role(val, env)
                    if role and env.get(key) != role:
                        env[key] = role
                        changed = True
        return env

    def _expr_role(self, val: ast.expr, env: dict[str, str]) -> Optional[str]:
        # modules["r"] / self.modules["r"] / all_modules_dict["r"]
        if isinstance(val, ast.Subscript) and isinstance(val.slice, ast.Constant):
            base = unparse(val.value)
            if base.endswith("modules") and isinstance(val.slice.value, str):
                if val.slice.value in self.role_class:
                    return val.slice.value
        key = unparse(val)
        if key in env:
            return env[key]
        # constructor call: Model(config) is not a role; State(...) etc.
        if isinstance(val, ast.Call) and isinstance(val.func, ast.Name):
            for r, c in self.role_class.items():
                if c == val.func.id:
                    return r
        return None

    def resolve_call(
        self, fi: FuncInfo, call: ast.Call, env: Optional[dict[str, str]] = None
    ) -> list[FuncInfo]:
        """Repository functions a call may reach ([] if library / unknown)."""
        if env is None:
            env = self.type_env(fi)
        mi = fi.module
        f = call.func
        if isinstance(f, ast.Name):
            name = f.id
            seen = set()
            while name in mi.aliases and name not in seen:
                seen.add(name)
                name = mi.aliases[name]
            if name in mi.functions:
                return [mi.functions[name]]
            if name in mi.classes:
                init = mi.functions.get(f"{name}.__init__")
                return [init] if init else []
            target = mi.imports.get(name)
            if target and target.startswith("ladim."):
                tmod, _, tname = target[len("ladim.") :].rpartition(".")
                if tmod in self.modules:
                    tm = self.modules[tmod]
                    while tname in tm.aliases:
                        tname = tm.aliases[tname]
                    if tname in tm.functions:
                        self.consulted.add(tmod)
                        return [tm.functions[tname]]
                    if tname in tm.classes:
                        init = tm.functions.get(f"{tname}.__init__")
                        self.consulted.add(tmod)
                        return [init] if init else []
            return []
        if isinstance(f, ast.Attribute):
            recv = unparse(f.value)
            meth = f.attr
            if recv == "self" and fi.cls:
                # self.advect -> getattr(self, self.advection) guarded by a literal list
                dyn = self._dynamic_attr(fi, meth)
                if dyn:
                    return dyn
                try:
                    return [self.func(f"{mi.name}.{fi.cls}.{meth}")]
                except AnchorMissing:
                    return []
            if recv == "super()" and fi.cls:
                for bmod, bcls in self.bases(mi.name, fi.cls):
                    g = self.modules[bmod].functions.get(f"{bcls}.{meth}")
                    if g:
                        return [g]
                return []
            role = env.get(recv) or self._expr_role(f.value, env)
            if role:
                try:
                    return [self.role_func(role, meth)]
                except AnchorMissing:
                    return []
            # model = Model(config): model.update()
            if recv in self._model_locals(fi):
                try:
                    return [self.func(f"model.Model.{meth}")]
                except AnchorMissing:
                    return []
        return []

    def _model_locals(self, fi: FuncInfo) -> set[str]:
        out = set()
        for node in ast.walk(fi.node):
            if (
                isinstance(node, ast.Assign)
                and isinstance(node.value, ast.Call)
                and isinstance(node.value.func, ast.Name)
                and node.value.func.id == "Model"
            ):
                for t in node.targets:
                    if isinstance(t, ast.Name):
                        out.add(t.id)
        return out

    def _dynamic_attr(self, fi: FuncInfo, attr: str) -> list[FuncInfo]:
        """``self.<attr> = getattr(self, self.X)`` under ``if self.X in [..literals..]``."""
        mi = fi.module
        for q, f in list(mi.functions.items()):
            if f.cls != fi.cls:
                continue
            # the list of names may be a class-level or module-level constant
            f = inline_class_constants(self, f)
            for node in ast.walk(f.node):
                if not isinstance(node, ast.If):
                    continue
                t = node.test
                if isinstance(t, ast.Compare) and len(t.ops) == 1 and isinstance(t.comparators[0], ast.Name) and isinstance(mi.constants.get(t.comparators[0].id), (ast.List, ast.Tuple, ast.Set)):
                    t = ast.Compare(left=t.left, ops=t.ops, comparators=[mi.constants[t.comparators[0].id]])
                if not (
                    isinstance(t, ast.Compare)
                    and len(t.ops) == 1
                    and isinstance(t.ops[0], (ast.In, ast.NotIn))
                    and isinstance(t.comparators[0], (ast.List, ast.Tuple, ast.Set))
                ):
                    continue
                names = [
                    e.value
                    for e in t.comparators[0].elts
                    if isinstance(e, ast.Constant) and isinstance(e.value, str)
                ]
                arm = node.body if isinstance(t.ops[0], ast.In) else node.orelse
                for sub in arm:
                    if (
                        isinstance(sub, ast.Assign)
                        and len(sub.targets) == 1
                        and unparse(sub.targets[0]) == f"self.{attr}"
                        and isinstance(sub.value, ast.Call)
                        and unparse(sub.value.func) == "getattr"
                        and len(sub.value.args) == 2
                        and unparse(sub.value.args[0]) == "self"
                        and unparse(sub.value.args[1]) == unparse(t.left)
                    ):
                        out = []
                        for n in names:
                            g = mi.functions.get(f"{fi.cls}.{n}")
                            if g:
                                out.append(g)
                        return out
        return []

    def dynamic_attr_names(self, fi: FuncInfo, attr: str) -> list[str]:
        return [g.name for g in self._dynamic_attr(fi, attr)]

    # ------------------------------------------------------------------
    def calls_in(self, fi: FuncInfo) -> list[ast.Call]:
        return [n for n in ast.walk(fi.node) if isinstance(n, ast.Call)]

    def reachable(self, start: list[FuncInfo], depth: int = 8) -> dict[str, FuncInfo]:
        """Repository functions reachable from ``start`` through resolved calls."""
        seen: dict[str, FuncInfo] = {}
        frontier = list(start)
        d = 0
        while frontier and d <= depth:
            nxt = []
            for fi in frontier:
                if fi.qual in seen:
                    continue
                seen[fi.qual] = fi
                env = self.type_env(fi)
                for c in self.calls_in(fi):
                    for g in self.resolve_call(fi, c, env):
                        if g.qual not in seen:
                            nxt.append(g)
            frontier = nxt
            d += 1
        return seen


def bind_args(callee: FuncInfo, call: ast.Call, skip_self: bool = True) -> dict[str, ast.expr]:
    """Bind call arguments to the callee's parameter names (defaults included)."""
    a = callee.node.args
    pos = [x.arg for x in a.posonlyargs + a.args]
    if skip_self and callee.cls and pos and pos[0] in ("self", "cls"):
        is_static = any("staticmethod" in d for d in callee.decorators)
        if not is_static:
            pos = pos[1:]
    out: dict[str, ast.expr] = dict(callee.defaults())
    out.pop("self", None)
    if any(isinstance(a, ast.Starred) for a in call.args):
        raise StarredCall(f"starred argument in call {short(call)}")
    for name, arg in zip(pos, call.args):
        out[name] = arg
    for kw in call.keywords:
        if kw.arg is None:
            continue
        out[kw.arg] = kw.value
    return out


def walk_no_nested(node: ast.AST) -> Iterator[ast.AST]:
    """ast.walk that does not descend into nested function / class definitions."""
    stack = [node]
    first = True
    while stack:
        n = stack.pop()
        if not first and isinstance(n, (ast.FunctionDef, ast.AsyncFunctionDef, ast.ClassDef, ast.Lambda)):
            continue
        first = False
        yield n
        stack.extend(reversed(list(ast.iter_child_nodes(n))))


def increment_of(st: ast.AST):
    """(target text, integer amount) if `st` is  t += c  /  t = t + c  /  t = c + t  (c integer literal)."""
    if isinstance(st, ast.AugAssign) and isinstance(st.op, (ast.Add, ast.Sub)) and isinstance(st.value, ast.Constant) and isinstance(st.value.value, int):
        return unparse(st.target), st.value.value if isinstance(st.op, ast.Add) else -st.value.value
    if isinstance(st, ast.Assign) and len(st.targets) == 1 and isinstance(st.value, ast.BinOp) and isinstance(st.value.op, (ast.Add, ast.Sub)):
        t = unparse(st.targets[0])
        l, r = st.value.left, st.value.right
        if unparse(l) == t and isinstance(r, ast.Constant) and isinstance(r.value, int):
            return t, r.value if isinstance(st.value.op, ast.Add) else -r.value
        if unparse(r) == t and isinstance(l, ast.Constant) and isinstance(l.value, int) and isinstance(st.value.op, ast.Add):
            return t, l.value
    return None


def single_defs(fn: ast.AST) -> dict[str, ast.expr]:
    """Local names assigned exactly once (simple `name = expr`) in fn -> their defining expression."""
    count: dict[str, int] = {}
    defs: dict[str, ast.expr] = {}
    for n in walk_no_nested(fn):
        tg = []
        if isinstance(n, ast.Assign):
            tg = n.targets
        elif isinstance(n, (ast.AugAssign, ast.AnnAssign)):
            tg = [n.target]
        elif isinstance(n, (ast.For, ast.comprehension)):
            tg = [n.target]
        elif isinstance(n, ast.With):
            tg = [i.optional_vars for i in n.items if i.optional_vars is not None]
        for t in tg:
            for x in ast.walk(t):
                # only names that are (re)bound: `fields["u"] = v` stores an element, it does not rebind `fields`
                if isinstance(x, ast.Name) and isinstance(x.ctx, (ast.Store, ast.Del)):
                    count[x.id] = count.get(x.id, 0) + 1
        if isinstance(n, ast.Assign) and len(n.targets) == 1 and isinstance(n.targets[0], ast.Name):
            defs[n.targets[0].id] = n.value
        if isinstance(n, ast.Assign) and len(n.targets) == 1 and isinstance(n.targets[0], (ast.Tuple, ast.List)) and isinstance(n.value, (ast.Tuple, ast.List)) and len(n.targets[0].elts) == len(n.value.elts):
            for a, b in zip(n.targets[0].elts, n.value.elts):  # lon, lat = df["lon"], df["lat"]
                if isinstance(a, ast.Name):
                    defs[a.id] = b
        if isinstance(n, ast.AnnAssign) and isinstance(n.target, ast.Name) and n.value is not None:
            defs[n.target.id] = n.value
    params = set()
    if isinstance(fn, ast.FunctionDef):
        a = fn.args
        params = {x.arg for x in a.posonlyargs + a.args + a.kwonlyargs}
    # names whose object is modified in place (x[i] = v, x.attr = v, x += v): substituting the defining
    # expression is only sound when that expression denotes an existing object (an access path such as
    # self.fields), not when it builds a fresh one (list(subgrid), np.zeros(...))
    mutated: set[str] = set()
    for n in walk_no_nested(fn):
        tg = n.targets if isinstance(n, ast.Assign) else [n.target] if isinstance(n, (ast.AugAssign, ast.AnnAssign)) else []
        for t in tg:
            for el in t.elts if isinstance(t, (ast.Tuple, ast.List)) else [t]:
                b = el
                while isinstance(b, (ast.Subscript, ast.Attribute)):
                    b = b.value
                if isinstance(b, ast.Name) and b is not el:
                    mutated.add(b.id)

    def is_path(e: ast.expr) -> bool:
        while isinstance(e, (ast.Attribute, ast.Subscript)):
            if isinstance(e, ast.Subscript) and not isinstance(e.slice, ast.Constant):
                return False
            e = e.value
        return isinstance(e, ast.Name)

    return {k: v for k, v in defs.items() if count.get(k, 0) == 1 and k not in params and (k not in mutated or is_path(v))}


class _Subst(ast.NodeTransformer):
    def __init__(self, mapping: dict[str, ast.expr], depth: int = 6) -> None:
        self.mapping = mapping
        self.depth = depth

    def visit_Name(self, node: ast.Name):
        if isinstance(node.ctx, ast.Load) and node.id in self.mapping and self.depth > 0:
            import copy

            sub = copy.deepcopy(self.mapping[node.id])
            return _Subst(self.mapping, self.depth - 1).visit(sub)
        return node


def expand_locals(e: ast.AST, fn: ast.AST, defs: Optional[dict] = None) -> ast.AST:
    """Copy of `e` with single-assignment local temporaries replaced by their definitions."""
    import copy

    defs = defs if defs is not None else single_defs(fn)
    return ast.fix_missing_locations(_Subst(defs).visit(copy.deepcopy(e)))


def path_alias_defs(fn: ast.AST) -> dict[str, ast.expr]:
    """Single-assignment locals whose definition is an access path (variables = self.variables,
    grid = self.modules["grid"]): aliases of existing objects, safe to substitute anywhere."""
    out = {}
    for k, v in single_defs(fn).items():
        e = v
        ok = True
        while isinstance(e, (ast.Attribute, ast.Subscript)):
            if isinstance(e, ast.Subscript) and not isinstance(e.slice, ast.Constant):
                ok = False
                break
            e = e.value
        if ok and isinstance(e, ast.Name) and isinstance(v, (ast.Attribute, ast.Subscript)):
            out[k] = v
    return out


def punparse(e: ast.AST, fn: ast.AST) -> str:
    """unparse with object-path aliases expanded (and nothing else)."""
    return unparse(expand_locals(e, fn, path_alias_defs(fn)))


def xunparse(e: ast.AST, fn: ast.AST, defs: Optional[dict] = None) -> str:
    return unparse(expand_locals(e, fn, defs))


def unroll_literal_loops(fn: ast.FunctionDef) -> ast.FunctionDef:
    """Copy of fn where `for v in (<literal elements>): body` is replaced by the bodies with v
    substituted. The iterable may be a literal tuple/list or a local bound once to one; the target may
    be a tuple of names when every element is a tuple of that length (a table-driven loop)."""
    import copy

    sdefs = single_defs(fn)

    class U(ast.NodeTransformer):
        def visit_For(self, node: ast.For):
            self.generic_visit(node)
            it = node.iter
            if isinstance(it, ast.Name) and isinstance(sdefs.get(it.id), (ast.Tuple, ast.List)):
                it = sdefs[it.id]
            if not (isinstance(it, (ast.Tuple, ast.List)) and it.elts and not node.orelse):
                return node
            if any(isinstance(x, (ast.Break, ast.Continue)) for b in node.body for x in ast.walk(b)):
                return node
            out = []
            if isinstance(node.target, ast.Name):
                simple = all(isinstance(x, (ast.Constant, ast.Name, ast.Attribute)) for x in it.elts)
                if not simple:
                    return node
                for c in it.elts:
                    for st in node.body:
                        out.append(_Subst({node.target.id: c}).visit(copy.deepcopy(st)))
                return out
            if isinstance(node.target, (ast.Tuple, ast.List)) and all(isinstance(t, ast.Name) for t in node.target.elts):
                k = len(node.target.elts)
                if not all(isinstance(e, (ast.Tuple, ast.List)) and len(e.elts) == k for e in it.elts):
                    return node
                for e in it.elts:
                    mapping = {t.id: v for t, v in zip(node.target.elts, e.elts)}
                    for st in node.body:
                        out.append(_Subst(mapping).visit(copy.deepcopy(st)))
                return out
            return node

    return ast.fix_missing_locations(U().visit(copy.deepcopy(fn)))


def bool_table(test: ast.expr, atom_of, names_env: Optional[dict] = None):
    """Truth table of a boolean expression over atoms. `atom_of(node)` returns an atom key for
    leaves it understands (or None).  -> (sorted atom list, {assignment tuple: bool}) or None."""
    atoms: list[str] = []

    def collect(n):
        if isinstance(n, ast.BoolOp):
            return all(collect(v) for v in n.values)
        if isinstance(n, ast.UnaryOp) and isinstance(n.op, ast.Not):
            return collect(n.operand)
        a = atom_of(n)
        if a is None:
            return False
        key = a[0] if isinstance(a, tuple) else a
        if key not in atoms:
            atoms.append(key)
        return True

    if not collect(test):
        return None
    atoms.sort()

    def ev(n, asg):
        if isinstance(n, ast.BoolOp):
            vals = [ev(v, asg) for v in n.values]
            return all(vals) if isinstance(n.op, ast.And) else any(vals)
        if isinstance(n, ast.UnaryOp) and isinstance(n.op, ast.Not):
            return not ev(n.operand, asg)
        a = atom_of(n)
        if isinstance(a, tuple):
            return asg[a[0]] != a[1]  # (key, negated)
        return asg[a]

    from itertools import product

    table = {}
    for vals in product((False, True), repeat=len(atoms)):
        asg = dict(zip(atoms, vals))
        table[vals] = ev(test, asg)
    return atoms, table


def sequential_expand(body: list, params: Optional[set] = None):
    """Process a statement list in order, substituting earlier simple assignments into later
    expressions (names may be re-assigned).  -> (records, env) where records is a list of
    (stmt, expanded value expr or None) and env maps names to their final expanded expression."""
    import copy

    env: dict[str, ast.expr] = {}
    records = []

    def sub(e):
        return ast.fix_missing_locations(_Subst(dict(env), depth=1).visit(copy.deepcopy(e)))

    for st in body:
        if isinstance(st, ast.Assign) and len(st.targets) == 1 and isinstance(st.targets[0], ast.Name):
            v = sub(st.value)
            records.append((st, v))
            env[st.targets[0].id] = v
        elif isinstance(st, ast.AnnAssign) and isinstance(st.target, ast.Name) and st.value is not None:
            v = sub(st.value)
            records.append((st, v))
            env[st.target.id] = v
        elif isinstance(st, ast.Assign):
            records.append((st, sub(st.value)))
        elif isinstance(st, ast.Expr):
            records.append((st, sub(st.value)))
        elif isinstance(st, ast.Return) and st.value is not None:
            records.append((st, sub(st.value)))
        else:
            records.append((st, None))
    return records, env


def call_chain(e: ast.expr):
    """x.a(..).b(..).c(..) -> ([("c", call), ("b", call), ("a", call)], x)"""
    out = []
    while isinstance(e, ast.Call) and isinstance(e.func, ast.Attribute):
        out.append((e.func.attr, e))
        e = e.func.value
    return out, e


# ---------------------------------------------------------------------------
# AST-level inlining of small local helpers (robustness against "extract function")
# ---------------------------------------------------------------------------
def eliminate_early_returns(stmts: list, result: Optional[str] = None) -> Optional[list]:
    """Statement list of a function -> equivalent list without `return`
    (`if c: A; return x` + rest  ==>  `if c: A; result = x else: rest`), or None if a return sits inside
    a loop / try / with. With `result=None` only bare returns are accepted."""
    import copy

    def ret_stmt(r: ast.Return):
        if r.value is None:
            return []
        if result is None:
            raise ValueError("value return")
        return [ast.fix_missing_locations(ast.copy_location(ast.Assign(targets=[ast.Name(id=result, ctx=ast.Store())], value=r.value), r))]

    out = []
    try:
        for i, st in enumerate(stmts):
            if isinstance(st, ast.Return):
                return out + ret_stmt(st)  # everything after an unconditional return is dead
            if isinstance(st, ast.If):
                body_ret = any(isinstance(x, ast.Return) for b in st.body for x in ast.walk(b))
                else_ret = any(isinstance(x, ast.Return) for b in st.orelse for x in ast.walk(b))
                if body_ret or else_ret:
                    rest = stmts[i + 1 :]
                    b = eliminate_early_returns(st.body, result)
                    e = eliminate_early_returns(st.orelse, result)
                    if b is None or e is None:
                        return None
                    b_term = bool(st.body) and _ends_with_return(st.body)
                    e_term = bool(st.orelse) and _ends_with_return(st.orelse)
                    r = eliminate_early_returns(rest, result)
                    if r is None:
                        return None
                    new = copy.copy(st)
                    new.body = (b + ([] if b_term else copy.deepcopy(r))) or [ast.Pass()]
                    new.orelse = e + ([] if e_term else copy.deepcopy(r))
                    out.append(ast.fix_missing_locations(new))
                    return out
                out.append(st)
                continue
            if isinstance(st, ast.Try) and not st.handlers == [] and not any(isinstance(x, ast.Return) for h in st.handlers for x in ast.walk(h)) and not any(isinstance(x, ast.Return) for x in st.finalbody for x in ast.walk(x)):
                # try: ...; return v  except E: <stop>   (handlers never return): fold inside the protected body
                if any(isinstance(x, ast.Return) for b in st.body + st.orelse for x in ast.walk(b)):
                    rest = stmts[i + 1 :]
                    tb = eliminate_early_returns(st.body + st.orelse + ([] if _ends_with_return(st.body + st.orelse) else rest), result)
                    if tb is None or not _ends_with_return(st.body + st.orelse):
                        return None
                    new = copy.copy(st)
                    new.body, new.orelse = tb or [ast.Pass()], []
                    out.append(ast.fix_missing_locations(new))
                    return out
                out.append(st)
                continue
            if any(isinstance(x, ast.Return) for x in ast.walk(st)):
                return None  # return inside a loop / with: not folded
            out.append(st)
    except ValueError:
        return None
    return out


def _ends_with_return(stmts: list) -> bool:
    if not stmts:
        return False
    last = stmts[-1]
    if isinstance(last, ast.Return):
        return True
    if isinstance(last, ast.If) and last.orelse:
        return _ends_with_return(last.body) and _ends_with_return(last.orelse)
    return False


def _with_lines(fi: "FuncInfo") -> "FuncInfo":
    inherit_orig_lines(fi.node)
    return fi


def line_of(node) -> Optional[int]:
    """Source line of a node (the original one when a view has renumbered it)."""
    return getattr(node, "orig_lineno", getattr(node, "lineno", None))


def renumber_in_order(fn: ast.AST) -> None:
    """After statements of a helper have been spliced into a function their line numbers no longer say
    which comes first. Rules order statements by `lineno`, so the view is renumbered in document order
    (statement k gets 1000*k + its offset inside the statement); the source line survives as
    `orig_lineno`, which `line_of`, `FuncInfo.loc` and the path descriptions report."""
    k = [0]

    def own_nodes(st):
        """nodes of the statement that are not part of a nested statement"""
        out = [st]
        stack = [c for c in ast.iter_child_nodes(st) if not isinstance(c, ast.stmt)]
        while stack:
            x = stack.pop()
            out.append(x)
            stack += [c for c in ast.iter_child_nodes(x) if not isinstance(c, ast.stmt)]
        return out

    def visit(stmts):
        for st in stmts:
            k[0] += 1
            base = line_of(st) or 0
            for x in own_nodes(st):
                if hasattr(x, "lineno"):
                    o = line_of(x)
                    x.orig_lineno = o
                    x.lineno = 1000 * k[0] + max(0, min(999, (o or base) - base))
                    if hasattr(x, "end_lineno"):
                        x.end_lineno = x.lineno
            for field in ("body", "orelse", "finalbody"):
                sub = getattr(st, field, None)
                if isinstance(sub, list) and sub and isinstance(sub[0], ast.stmt):
                    visit(sub)
            if isinstance(st, ast.Try):
                for h in st.handlers:
                    k[0] += 1
                    h.orig_lineno = line_of(h)
                    h.lineno = 1000 * k[0]
                    visit(h.body)
            if hasattr(ast, "Match") and isinstance(st, ast.Match):
                for c in st.cases:
                    visit(c.body)

    visit(fn.body)


def inherit_orig_lines(fn: ast.AST) -> None:
    """Nodes created by a later transformation of a renumbered view take the source line of their
    parent, so that reports never show a view-internal number."""

    def go(n, parent_line):
        if hasattr(n, "lineno") and not hasattr(n, "orig_lineno") and parent_line is not None:
            n.orig_lineno = parent_line
        here = getattr(n, "orig_lineno", parent_line)
        for c in ast.iter_child_nodes(n):
            go(c, here)

    if any(hasattr(x, "orig_lineno") for x in ast.walk(fn)):
        # the function node itself keeps its own line
        go(fn, getattr(fn, "orig_lineno", None) or next((x.orig_lineno for x in ast.walk(fn) if hasattr(x, "orig_lineno")), None))


def _helper_of(prog: "Program", fi: FuncInfo, call: ast.Call, private_only: bool, keep=frozenset()) -> Optional[FuncInfo]:
    f = call.func
    name = None
    qual = None
    if isinstance(f, ast.Name):
        name = f.id
        qual = f"{fi.module.name}.{name}"
    elif isinstance(f, ast.Attribute) and isinstance(f.value, ast.Name) and f.value.id in ("self", "cls", fi.cls) and fi.cls:
        name = f.attr
        qual = f"{fi.module.name}.{fi.cls}.{name}"
    elif isinstance(f, ast.Attribute) and isinstance(f.value, ast.Name) and f.value.id in fi.module.classes and (f.value.id.startswith("_") or prog.record_fields(fi.module.name, f.value.id) is not None):
        # a class method / static method of a private or value class of the module, called on the class
        h0 = fi.module.functions.get(f"{f.value.id}.{f.attr}")
        if h0 is None or not any(unparse(d) in ("classmethod", "staticmethod") for d in h0.node.decorator_list):
            return None
        name = f.attr
        qual = f"{fi.module.name}.{f.value.id}.{name}"
        private_only = False
    if name is None or (private_only and not name.startswith("_")) or name.startswith("__") or name in keep:
        return None
    try:
        h = prog.func(qual)
    except (AnchorMissing, AnalysisError):
        return None
    decos = [unparse(d) for d in h.node.decorator_list]
    if h.qual == fi.qual or h.is_kernel or any(d not in ("staticmethod", "classmethod") for d in decos):
        return None
    body = [s for s in h.node.body if not (isinstance(s, ast.Expr) and isinstance(s.value, ast.Constant))]
    # simple: no generators / nested defs; `return` only as the last top-level statement
    own_names = {x.id for x in ast.walk(h.node) if isinstance(x, ast.Name) and isinstance(x.ctx, (ast.Store, ast.Del))} | {a.arg for a in h.node.args.posonlyargs + h.node.args.args + h.node.args.kwonlyargs}
    for n in ast.walk(h.node):
        if isinstance(n, (ast.Yield, ast.YieldFrom)) or (isinstance(n, (ast.FunctionDef, ast.ClassDef)) and n is not h.node):
            return None
        if isinstance(n, ast.Lambda):
            # a lambda is carried along unchanged when its parameters cannot be confused with the
            # helper's own names (which are renamed / substituted)
            la = n.args
            if {a.arg for a in la.posonlyargs + la.args + la.kwonlyargs} & own_names or la.vararg or la.kwarg:
                return None
    rets = [n for n in ast.walk(h.node) if isinstance(n, ast.Return)]
    if rets and all(r.value is None for r in rets):
        # a procedure with guard clauses (`if c: return`): acceptable when the early returns can be
        # folded into if/else (checked by eliminate_early_returns at expansion time)
        if eliminate_early_returns(body) is None:
            return None
    elif len(rets) > 1 or (rets and (not body or rets[0] is not body[-1])):
        # several value returns: acceptable when they fold into one result variable
        if eliminate_early_returns(body, "__result") is None:
            return None
    if any(isinstance(a, ast.Starred) for a in call.args) or any(k.arg is None for k in call.keywords):
        return None
    if h.node.args.vararg or h.node.args.kwarg:
        return None
    return h


def inline_helpers(prog: "Program", fi: FuncInfo, depth: int = 2, private_only: bool = True, keep=frozenset()) -> FuncInfo:
    """Copy of `fi` in which calls to small helpers of the same module / class (private by default) are
    replaced by their bodies: parameters become assignments, locals are renamed apart, the returned
    expression is bound to the call's target. A rule that reads the statements of `fi` then sees the
    same code whether or not a maintainer has extracted part of it into a helper."""
    import copy

    counter = [0]
    # names of the caller: a helper's local keeps its name unless it would collide with one of these
    used = {x.id for x in ast.walk(fi.node) if isinstance(x, ast.Name)} | {a.arg for a in fi.node.args.posonlyargs + fi.node.args.args + fi.node.args.kwonlyargs}
    first_seen: dict = {}
    for x in ast.walk(fi.node):
        if isinstance(x, ast.Name):
            ln = getattr(x, "lineno", 0)
            if x.id not in first_seen or ln < first_seen[x.id]:
                first_seen[x.id] = ln

    class Rename(ast.NodeTransformer):
        def __init__(self, mapping):
            self.mapping = mapping

        def visit_Name(self, node: ast.Name):
            if node.id in self.mapping:
                return ast.copy_location(ast.Name(id=self.mapping[node.id], ctx=node.ctx), node)
            return node

    def expand_call(call: ast.Call, h: FuncInfo, target: Optional[str] = None, at_line: int = 0):
        """-> (statements, result expression or None)"""
        counter[0] += 1
        tag = f"__{h.name.strip('_')}{counter[0]}"
        node = copy.deepcopy(h.node)
        params = [a.arg for a in node.args.posonlyargs + node.args.args + node.args.kwonlyargs]
        decos = [unparse(d) for d in node.decorator_list]
        is_method = bool(h.cls) and params and "staticmethod" not in decos
        receiver = None
        if is_method:
            receiver, params = params[0], params[1:]
        local_names = {x.id for x in ast.walk(node) if isinstance(x, ast.Name) and isinstance(x.ctx, (ast.Store, ast.Del))} | set(params)
        # the variable the helper returns may share its name with the variable the caller assigns the result
        # to, when this statement is where the caller first mentions it (limits = _limits(...): return limits)
        rets_ = [x for x in ast.walk(node) if isinstance(x, ast.Return) and x.value is not None]
        same_result = target is not None and rets_ and all(isinstance(r.value, ast.Name) and r.value.id == target for r in rets_) and first_seen.get(target, 0) >= at_line and target not in params
        mapping = {n: n + tag for n in local_names if (n in used and not (same_result and n == target))}
        used.update(local_names)
        used.update(mapping.values())
        # bind arguments
        bound: dict[str, ast.expr] = {}
        for p_, a in zip(params, call.args):
            bound[p_] = a
        for k in call.keywords:
            bound[k.arg] = k.value
        dflt = h.defaults()
        pre = []
        stored_in_helper = {x.id for x in ast.walk(node) if isinstance(x, ast.Name) and isinstance(x.ctx, (ast.Store, ast.Del))}
        direct: dict[str, ast.expr] = {}

        def simple_path(e: ast.expr) -> bool:
            while isinstance(e, ast.Attribute):
                e = e.value
            return isinstance(e, ast.Name)

        if receiver is not None and receiver != "self":
            # classmethod (or an oddly named receiver): the receiver is the class / the caller's self
            direct[receiver] = ast.Name(id=h.cls if "classmethod" in decos else "self", ctx=ast.Load())
            mapping.pop(receiver, None)
        for p_ in params:
            v = bound.get(p_, dflt.get(p_))
            if v is None:
                return None
            if (simple_path(v) or isinstance(v, ast.Constant)) and p_ not in stored_in_helper:
                direct[p_] = copy.deepcopy(v)  # the parameter is just another name for the argument
                mapping.pop(p_, None)
                continue
            pre.append(ast.Assign(targets=[ast.Name(id=mapping.get(p_, p_), ctx=ast.Store())], value=copy.deepcopy(v), lineno=call.lineno, col_offset=0))
        body = [s for s in node.body if not (isinstance(s, ast.Expr) and isinstance(s.value, ast.Constant))]
        all_rets = [x for b_ in body for x in ast.walk(b_) if isinstance(x, ast.Return)]
        folded_result = None
        if all_rets and all(x.value is None for x in all_rets):
            body = eliminate_early_returns(body) or body
        elif len(all_rets) > 1 or (all_rets and all_rets[0] is not body[-1]):
            rname = "result" + tag
            fb = eliminate_early_returns(body, rname)
            if fb is None:
                return None
            body, folded_result = fb, rname
        body = [Rename(mapping).visit(s) for s in body]
        if direct:
            body = [_Subst(direct).visit(s) for s in body]
        result = None
        if folded_result is not None:
            result = ast.Name(id=folded_result, ctx=ast.Load())
        elif body and isinstance(body[-1], ast.Return):
            result = body[-1].value
            body = body[:-1]
        stmts = pre + body
        for s in stmts:
            ast.fix_missing_locations(s)
        return stmts, result

    def inline_pure_expressions(st: ast.stmt) -> None:
        """Helpers whose body is a single `return <expr>` are substituted inside any expression of the
        statement (if/while tests included)."""
        for _ in range(4):
            done = True
            for fieldname in ("test", "value", "iter", "exc"):
                e = getattr(st, fieldname, None)
                if not isinstance(e, ast.AST):
                    continue
                for c in ast.walk(e):
                    if not isinstance(c, ast.Call):
                        continue
                    h = _helper_of(prog, fi, c, private_only, keep)
                    if h is None:
                        continue
                    hb = [s_ for s_ in h.node.body if not (isinstance(s_, ast.Expr) and isinstance(s_.value, ast.Constant))]
                    if len(hb) != 1 or not isinstance(hb[0], ast.Return) or hb[0].value is None:
                        continue
                    params = [a.arg for a in h.node.args.posonlyargs + h.node.args.args + h.node.args.kwonlyargs]
                    if h.cls and params and params[0] == "self":
                        params = params[1:]
                    bound = dict(zip(params, c.args))
                    bound.update({k.arg: k.value for k in c.keywords})
                    dflt = h.defaults()
                    if any(p_ not in bound and p_ not in dflt for p_ in params):
                        continue
                    mapping = {p_: copy.deepcopy(bound.get(p_, dflt.get(p_))) for p_ in params}
                    repl = _Subst(mapping, depth=1).visit(copy.deepcopy(hb[0].value))

                    class Swap2(ast.NodeTransformer):
                        def visit_Call(self, node):
                            if node is c:
                                return repl
                            return self.generic_visit(node)

                    setattr(st, fieldname, ast.fix_missing_locations(Swap2().visit(e)))
                    done = False
                    break
            if done:
                break

    def process(stmts: list, level: int) -> list:
        out = []
        for st in stmts:
            if level > 0:
                inline_pure_expressions(st)
            # recurse into compound statements first
            for field in ("body", "orelse", "finalbody"):
                if hasattr(st, field) and isinstance(getattr(st, field), list) and not isinstance(st, (ast.FunctionDef, ast.ClassDef)):
                    setattr(st, field, process(getattr(st, field), level))
            if isinstance(st, ast.Try):
                for hd in st.handlers:
                    hd.body = process(hd.body, level)
            holder = None
            if isinstance(st, (ast.Assign, ast.AnnAssign, ast.AugAssign, ast.Return, ast.Expr)) and getattr(st, "value", None) is not None:
                holder = st
            if holder is None or level <= 0:
                out.append(st)
                continue
            pre_all = []
            changed = True
            guard = 0
            while changed and guard < 8:
                changed = False
                guard += 1
                for c in ast.walk(holder.value):
                    if isinstance(c, ast.Call):
                        h = _helper_of(prog, fi, c, private_only, keep)
                        if h is None:
                            continue
                        tgt_name = holder.targets[0].id if isinstance(holder, ast.Assign) and holder.value is c and len(holder.targets) == 1 and isinstance(holder.targets[0], ast.Name) else None
                        ex = expand_call(c, h, tgt_name, getattr(holder, "lineno", 0))
                        if ex is None:
                            continue
                        body, result = ex
                        body = process(body, level - 1)
                        pre_all += body
                        repl = result if result is not None else ast.Constant(value=None)

                        class Swap(ast.NodeTransformer):
                            def visit_Call(self, node):
                                if node is c:
                                    return repl
                                return self.generic_visit(node)

                        holder.value = Swap().visit(holder.value)
                        changed = True
                        break
            out += pre_all
            if isinstance(holder, ast.Expr) and isinstance(holder.value, ast.Constant) and pre_all:
                continue  # bare helper call without a result: only its body remains
            out.append(holder)
        return out

    node = copy.deepcopy(fi.node)
    node.body = process(node.body, depth)
    ast.fix_missing_locations(node)
    if counter[0]:
        renumber_in_order(node)
    return FuncInfo(fi.module, fi.qual, node, fi.cls)


def forward_attr_locals(fi: FuncInfo) -> FuncInfo:
    """Copy of `fi` where a local that is computed first and stored on `self` later
    (`period = f(x); ...; self.output_period = period`) is replaced by the attribute from its first
    definition on, and the forwarding store is dropped. The rewritten function computes the same
    attribute values; it lets rules that follow `self.<attr>` read both spellings alike.
    Applied only when (a) the attribute is stored nowhere else in the function, (b) the forwarding
    store is a top-level statement and the local is assigned only before it, (c) no `self.method()`
    call and no read of the attribute occurs between the local's first definition and the store."""
    import copy

    node = copy.deepcopy(fi.node)
    body = node.body
    changed = True
    while changed:
        changed = False
        for idx, st in enumerate(body):
            if not (isinstance(st, ast.Assign) and len(st.targets) == 1 and isinstance(st.value, ast.Name)):
                continue
            t = st.targets[0]
            if not (isinstance(t, ast.Attribute) and isinstance(t.value, ast.Name) and t.value.id == "self"):
                continue
            local, attr = st.value.id, t.attr
            if local in {a.arg for a in node.args.posonlyargs + node.args.args + node.args.kwonlyargs}:
                continue
            # (a) attribute stored only here
            stores = [x for x in ast.walk(node) if isinstance(x, ast.Attribute) and isinstance(x.ctx, ast.Store) and x.attr == attr and isinstance(x.value, ast.Name) and x.value.id == "self"]
            if len(stores) != 1:
                continue
            # (b) local assigned only before idx; first definition index
            def_idx = [i for i, s2 in enumerate(body) if any(isinstance(x, ast.Name) and x.id == local and isinstance(x.ctx, ast.Store) for x in ast.walk(s2))]
            if not def_idx or max(def_idx) >= idx:
                continue
            first = min(def_idx)
            if any(isinstance(x, ast.Name) and x.id == local and isinstance(x.ctx, ast.Load) for s2 in body[:first] for x in ast.walk(s2)):
                continue
            # (c) nothing in between looks at the object
            between = body[first:idx]
            blocked = False
            for s2 in between:
                for x in ast.walk(s2):
                    if isinstance(x, ast.Call) and isinstance(x.func, ast.Attribute) and isinstance(x.func.value, ast.Name) and x.func.value.id == "self":
                        blocked = True
                    if isinstance(x, ast.Attribute) and x.attr == attr and isinstance(x.value, ast.Name) and x.value.id == "self":
                        blocked = True
            if blocked:
                continue

            class Fwd(ast.NodeTransformer):
                def visit_Name(self, n: ast.Name):
                    if n.id == local:
                        return ast.copy_location(ast.Attribute(value=ast.Name(id="self", ctx=ast.Load()), attr=attr, ctx=n.ctx), n)
                    return n

            new_body = []
            for i, s2 in enumerate(body):
                if i == idx:
                    continue
                new_body.append(Fwd().visit(s2) if i >= first else s2)
            node.body = body = new_body
            ast.fix_missing_locations(node)
            changed = True
            break
    return FuncInfo(fi.module, fi.qual, node, fi.cls)


def normalized(prog: "Program", fi: FuncInfo) -> FuncInfo:
    """Helper calls inlined, locals that are merely forwarded to attributes replaced by the attributes."""
    return forward_attr_locals(prog.lview(fi))


# ---------------------------------------------------------------------------
# path records: what each path of a statement list stores, with locals fully expanded
# ---------------------------------------------------------------------------
def lower_ifexp(stmts: list) -> list:
    """`x = A if c else B` (as a whole assignment value) -> `if c: x = A else: x = B`, recursively,
    so that path enumeration splits on conditional expressions as it does on statements."""
    import copy

    out = []
    for st in stmts:
        st = copy.deepcopy(st)
        for field in ("body", "orelse", "finalbody"):
            if hasattr(st, field) and isinstance(getattr(st, field), list) and not isinstance(st, (ast.FunctionDef, ast.ClassDef)):
                setattr(st, field, lower_ifexp(getattr(st, field)))
        if isinstance(st, ast.Assign) and isinstance(st.value, ast.IfExp):
            a = ast.Assign(targets=copy.deepcopy(st.targets), value=st.value.body)
            b = ast.Assign(targets=copy.deepcopy(st.targets), value=st.value.orelse)
            new = ast.If(test=st.value.test, body=lower_ifexp([ast.copy_location(a, st)]), orelse=lower_ifexp([ast.copy_location(b, st)]))
            out.append(ast.fix_missing_locations(ast.copy_location(new, st)))
            continue
        if isinstance(st, ast.AnnAssign) and isinstance(st.value, ast.IfExp):
            a = ast.Assign(targets=[copy.deepcopy(st.target)], value=st.value.body)
            b = ast.Assign(targets=[copy.deepcopy(st.target)], value=st.value.orelse)
            new = ast.If(test=st.value.test, body=lower_ifexp([ast.copy_location(a, st)]), orelse=lower_ifexp([ast.copy_location(b, st)]))
            out.append(ast.fix_missing_locations(ast.copy_location(new, st)))
            continue
        out.append(st)
    return out


def path_records(body: list, init_env: Optional[dict] = None, rename: Optional[dict] = None):
    """For every path through `body` (conditional expressions lowered to statements):
    -> [(path, conds, stores)] where conds = [(expanded test text, taken)], stores = [(expanded
    target text, expanded value text, stmt)] for non-name targets, and `return` values as
    ("return", text, stmt). Local names are substituted by their current definition along the path
    (so temporaries, renamings and hoisted subexpressions disappear); `rename` maps names to
    canonical spellings first (e.g. the dataset handle -> DS)."""
    import copy

    from .paths import enumerate_paths

    body = lower_ifexp(body)
    out = []
    for p in enumerate_paths(body):
        env: dict[str, ast.expr] = dict(init_env or {})

        def sub(e):
            e2 = _Subst(dict(env), depth=1).visit(copy.deepcopy(e))
            if rename:
                e2 = _Subst({k: ast.Name(id=v, ctx=ast.Load()) for k, v in rename.items()}, depth=1).visit(e2)
            return lower_slice_calls(ast.fix_missing_locations(e2))

        conds, stores = [], []
        for kind, node, *rest in p.steps:
            if kind == "cond":
                taken = rest[0] if rest else True
                conds.append((unparse(sub(node)), taken))
            elif kind == "stmt":
                st = node
                if isinstance(st, (ast.Assign, ast.AnnAssign)) and (st.value is not None):
                    v = sub(st.value)
                    tgts = st.targets if isinstance(st, ast.Assign) else [st.target]
                    for t in tgts:
                        if isinstance(t, ast.Name):
                            env[t.id] = v
                        elif isinstance(t, (ast.Tuple, ast.List)) and isinstance(v, (ast.Tuple, ast.List)) and len(t.elts) == len(v.elts):
                            for a, b in zip(t.elts, v.elts):
                                if isinstance(a, ast.Name):
                                    env[a.id] = b
                        else:
                            stores.append((unparse(sub(t)), unparse(v), st))
                elif isinstance(st, ast.AugAssign):
                    if isinstance(st.target, ast.Name):
                        cur = env.get(st.target.id, ast.Name(id=st.target.id, ctx=ast.Load()))
                        env[st.target.id] = ast.fix_missing_locations(ast.BinOp(left=copy.deepcopy(cur), op=st.op, right=sub(st.value)))
                    else:
                        stores.append((unparse(sub(st.target)), "aug:" + unparse(sub(st.value)), st))
                elif isinstance(st, ast.Return) and st.value is not None:
                    stores.append(("return", unparse(sub(st.value)), st))
        out.append((p, conds, stores))
    return out


def expand_tests(fi: FuncInfo) -> FuncInfo:
    """Copy of `fi` where every `if` / `while` / conditional-expression test has its single-assignment
    temporaries substituted (`ok = a and b; if not ok:` reads as `if not (a and b):`)."""
    import copy

    node = copy.deepcopy(fi.node)

    def is_test(v: ast.expr) -> bool:
        return isinstance(v, (ast.Compare, ast.BoolOp)) or (isinstance(v, ast.UnaryOp) and isinstance(v.op, ast.Not)) or (isinstance(v, ast.Call) and unparse(v.func) in ("any", "all", "callable", "isinstance", "hasattr", "bool"))

    defs = {k: v for k, v in single_defs(node).items() if is_test(v)}  # named tests only

    class T(ast.NodeTransformer):
        def visit_If(self, n: ast.If):
            self.generic_visit(n)
            n.test = _Subst(defs).visit(n.test)
            return n

        def visit_While(self, n: ast.While):
            self.generic_visit(n)
            n.test = _Subst(defs).visit(n.test)
            return n

        def visit_IfExp(self, n: ast.IfExp):
            self.generic_visit(n)
            n.test = _Subst(defs).visit(n.test)
            return n

    node = ast.fix_missing_locations(T().visit(node))
    return FuncInfo(fi.module, fi.qual, node, fi.cls)


def flip_negated_ifs(fi: FuncInfo) -> FuncInfo:
    """`if not c: A else: B` -> `if c: B else: A` (only when both arms exist, or the first is `pass`)."""
    import copy

    class F(ast.NodeTransformer):
        def visit_If(self, n: ast.If):
            self.generic_visit(n)
            if isinstance(n.test, ast.UnaryOp) and isinstance(n.test.op, ast.Not) and n.orelse:
                only_pass = all(isinstance(b, ast.Pass) for b in n.body)
                n.test, n.body, n.orelse = n.test.operand, n.orelse, ([] if only_pass else n.body)
            return n

    node = ast.fix_missing_locations(F().visit(copy.deepcopy(fi.node)))
    return FuncInfo(fi.module, fi.qual, node, fi.cls)


def loops_to_comprehensions(fi: FuncInfo) -> FuncInfo:
    """`acc = []` ... `for T in IT: acc.append(E)`  ->  `acc = [E for T in IT]` when the loop body is that
    single append and `acc` is not touched between its initialisation and the loop."""
    import copy

    def rewrite(stmts: list) -> list:
        out: list = []
        for st in stmts:
            for field in ("body", "orelse", "finalbody"):
                if hasattr(st, field) and isinstance(getattr(st, field), list) and not isinstance(st, (ast.FunctionDef, ast.ClassDef)):
                    setattr(st, field, rewrite(getattr(st, field)))
            if isinstance(st, ast.For) and not st.orelse and len(st.body) == 1 and isinstance(st.body[0], ast.Expr) and isinstance(st.body[0].value, ast.Call):
                c = st.body[0].value
                if isinstance(c.func, ast.Attribute) and c.func.attr == "append" and isinstance(c.func.value, ast.Name) and len(c.args) == 1 and not c.keywords:
                    acc = c.func.value.id
                    # find the initialisation `acc = []` among the preceding statements of this list
                    for k in range(len(out) - 1, -1, -1):
                        prev = out[k]
                        mentions = any(isinstance(x, ast.Name) and x.id == acc for x in ast.walk(prev))
                        is_init = isinstance(prev, (ast.Assign, ast.AnnAssign)) and unparse(prev.targets[0] if isinstance(prev, ast.Assign) else prev.target) == acc and isinstance(prev.value, ast.List) and not prev.value.elts
                        if is_init:
                            comp = ast.ListComp(elt=c.args[0], generators=[ast.comprehension(target=st.target, iter=st.iter, ifs=[], is_async=0)])
                            new = ast.Assign(targets=[ast.Name(id=acc, ctx=ast.Store())], value=comp)
                            out[k:k + 1] = []
                            st = ast.fix_missing_locations(ast.copy_location(new, st))
                            break
                        if mentions:
                            break
            out.append(st)
        return out

    node = copy.deepcopy(fi.node)
    node.body = rewrite(node.body)
    return FuncInfo(fi.module, fi.qual, ast.fix_missing_locations(node), fi.cls)


def _pure_expr(e: ast.expr) -> bool:
    return not any(isinstance(x, (ast.Call, ast.Await, ast.Yield, ast.YieldFrom, ast.NamedExpr, ast.Lambda)) for x in ast.walk(e))


def propagate_locals(fi: FuncInfo) -> FuncInfo:
    """Forward substitution of call-free local definitions (`times = self._df.index`,
    `mask = times >= self.stop_time`) into the statements that follow, block by block, until the name
    is rebound or something the definition reads is stored to. The defining statements stay."""
    import copy

    def names_stored(stmts) -> set:
        return {x.id for b in stmts for x in ast.walk(b) if isinstance(x, ast.Name) and isinstance(x.ctx, (ast.Store, ast.Del))}

    def paths_stored(st) -> set:
        out = set()
        tg = st.targets if isinstance(st, ast.Assign) else [st.target] if isinstance(st, (ast.AugAssign, ast.AnnAssign)) else []
        for t in tg:
            for el in t.elts if isinstance(t, (ast.Tuple, ast.List)) else [t]:
                b = el
                while isinstance(b, ast.Subscript):
                    b = b.value
                if isinstance(b, ast.Attribute):
                    out.add(unparse(b))
        return out

    def invalidate(env: dict, names: set, paths: set) -> None:
        for k in list(env):
            v = env[k]
            txt = unparse(v)
            if k in names or any(isinstance(x, ast.Name) and x.id in names for x in ast.walk(v)) or any(p_ in txt for p_ in paths):
                env.pop(k, None)

    def sub(e, env):
        return _Subst(dict(env), depth=1).visit(copy.deepcopy(e)) if env else e

    def prop(stmts: list, env: dict) -> list:
        out = []
        for st in stmts:
            st = copy.copy(st)
            if isinstance(st, ast.If):
                st.test = sub(st.test, env)
                st.body = prop(st.body, dict(env))
                st.orelse = prop(st.orelse, dict(env))
                stored = names_stored(st.body + st.orelse)
                pst = set().union(*[paths_stored(x) for b in st.body + st.orelse for x in ast.walk(b) if isinstance(x, ast.stmt)]) if (st.body or st.orelse) else set()
                invalidate(env, stored, pst)
                out.append(st)
                continue
            if isinstance(st, (ast.For, ast.While, ast.With, ast.Try)):
                inner = [x for x in ast.walk(st) if isinstance(x, ast.stmt) and x is not st]
                stored = names_stored([st])
                pst = set().union(*[paths_stored(x) for x in inner]) if inner else set()
                invalidate(env, stored, pst)
                for field in ("body", "orelse", "finalbody"):
                    if hasattr(st, field) and isinstance(getattr(st, field), list):
                        setattr(st, field, prop(getattr(st, field), dict(env)))
                if isinstance(st, ast.Try):
                    st.handlers = [copy.copy(h) for h in st.handlers]
                    for h in st.handlers:
                        h.body = prop(h.body, dict(env))
                out.append(st)
                continue
            if isinstance(st, (ast.Assign, ast.AnnAssign, ast.AugAssign, ast.Return, ast.Expr, ast.Raise)):
                for field in ("value", "exc"):
                    v = getattr(st, field, None)
                    if isinstance(v, ast.AST):
                        setattr(st, field, sub(v, env))
                if isinstance(st, ast.Assign):
                    st.targets = [sub(t, env) if not isinstance(t, (ast.Name, ast.Tuple, ast.List)) else t for t in st.targets]
                stored = names_stored([st])
                invalidate(env, stored, paths_stored(st))
                if isinstance(st, ast.Assign) and len(st.targets) == 1 and isinstance(st.targets[0], ast.Name) and _pure_expr(st.value):
                    env[st.targets[0].id] = st.value
            out.append(st)
        return out

    node = copy.deepcopy(fi.node)
    node.body = prop(node.body, {})
    return FuncInfo(fi.module, fi.qual, ast.fix_missing_locations(node), fi.cls)


def sink_branch_temporaries(fi: FuncInfo) -> FuncInfo:
    """`if c: x = A else: x = B` followed by a statement S(x)  ->  `if c: S(A) else: S(B)` when each arm
    only assigns that one call-free local and x is not read after S."""
    import copy

    def rewrite(stmts: list) -> list:
        out = []
        i = 0
        while i < len(stmts):
            st = stmts[i]
            for field in ("body", "orelse", "finalbody"):
                if hasattr(st, field) and isinstance(getattr(st, field), list) and not isinstance(st, (ast.FunctionDef, ast.ClassDef)):
                    setattr(st, field, rewrite(getattr(st, field)))
            if isinstance(st, ast.If) and len(st.body) == 1 and len(st.orelse) == 1 and i + 1 < len(stmts):
                a, b = st.body[0], st.orelse[0]
                nxt = stmts[i + 1]
                if isinstance(a, ast.Assign) and isinstance(b, ast.Assign) and len(a.targets) == 1 and len(b.targets) == 1 and isinstance(a.targets[0], ast.Name) and isinstance(b.targets[0], ast.Name) and a.targets[0].id == b.targets[0].id and _pure_expr(a.value) and _pure_expr(b.value) and isinstance(nxt, (ast.Assign, ast.AugAssign, ast.Expr)):
                    x = a.targets[0].id
                    reads_next = any(isinstance(n, ast.Name) and n.id == x and isinstance(n.ctx, ast.Load) for n in ast.walk(nxt))
                    reads_later = any(isinstance(n, ast.Name) and n.id == x and isinstance(n.ctx, ast.Load) for later in stmts[i + 2 :] for n in ast.walk(later))
                    if reads_next and not reads_later:
                        new = copy.copy(st)
                        new.body = [_Subst({x: a.value}, depth=1).visit(copy.deepcopy(nxt))]
                        new.orelse = [_Subst({x: b.value}, depth=1).visit(copy.deepcopy(nxt))]
                        out.append(ast.fix_missing_locations(new))
                        i += 2
                        continue
            out.append(st)
            i += 1
        return out

    node = copy.deepcopy(fi.node)
    node.body = rewrite(node.body)
    return FuncInfo(fi.module, fi.qual, ast.fix_missing_locations(node), fi.cls)


_OPERATOR_FUNCS = {
    "lt": ast.Lt, "le": ast.LtE, "gt": ast.Gt, "ge": ast.GtE, "eq": ast.Eq, "ne": ast.NotEq,
    "add": ast.Add, "sub": ast.Sub, "mul": ast.Mult, "truediv": ast.Div, "floordiv": ast.FloorDiv, "mod": ast.Mod,
    "and_": ast.BitAnd, "or_": ast.BitOr, "neg": ast.USub, "not_": ast.Not,
}


def lower_operator_calls(node: ast.AST) -> ast.AST:
    """`operator.ge(a, b)` -> `a >= b` etc. (in place; the standard-library module under its own name)."""

    class T(ast.NodeTransformer):
        def visit_Call(self, n: ast.Call):
            self.generic_visit(n)
            f = n.func
            if isinstance(f, ast.Attribute) and isinstance(f.value, ast.Name) and f.value.id == "operator" and f.attr in _OPERATOR_FUNCS and not n.keywords:
                op = _OPERATOR_FUNCS[f.attr]
                if issubclass(op, ast.cmpop) and len(n.args) == 2:
                    return ast.copy_location(ast.Compare(left=n.args[0], ops=[op()], comparators=[n.args[1]]), n)
                if issubclass(op, ast.operator) and len(n.args) == 2:
                    return ast.copy_location(ast.BinOp(left=n.args[0], op=op(), right=n.args[1]), n)
                if issubclass(op, ast.unaryop) and len(n.args) == 1:
                    return ast.copy_location(ast.UnaryOp(op=op(), operand=n.args[0]), n)
            return n

    return ast.fix_missing_locations(T().visit(node))


def distribute_branch_functions(fi: FuncInfo) -> FuncInfo:
    """`if c: f, g = A, B else: f, g = C, D` ... `S(f(x))` ...  ->  ... `if c: S(A(x)) else: S(C(x))` ...
    for locals that are bound only in the two arms of one top-level if/else to plain function references
    (names / dotted names, e.g. `operator.ge`) and only ever called afterwards; c must be call-free and
    nothing in the function may store to what c reads (the test is repeated at every use). The arms'
    definitions disappear; `operator.*` calls are then written as operators."""
    import copy

    node = copy.deepcopy(fi.node)
    body = node.body
    changed = False
    for idx, st in enumerate(list(body)):
        if not (isinstance(st, ast.If) and st.body and st.orelse):
            continue
        if any(isinstance(x, (ast.Call, ast.NamedExpr)) for x in ast.walk(st.test)):
            continue

        def defs_of(arm):
            out = {}
            for a in arm:
                if not (isinstance(a, ast.Assign) and len(a.targets) == 1):
                    return None
                t, v = a.targets[0], a.value
                pairs = list(zip(t.elts, v.elts)) if isinstance(t, ast.Tuple) and isinstance(v, ast.Tuple) and len(t.elts) == len(v.elts) else [(t, v)]
                for tt, vv in pairs:
                    e = vv
                    while isinstance(e, ast.Attribute):
                        e = e.value
                    if not (isinstance(tt, ast.Name) and isinstance(e, ast.Name) and isinstance(vv, (ast.Name, ast.Attribute))):
                        return None
                    out[tt.id] = vv
            return out

        da, db = defs_of(st.body), defs_of(st.orelse)
        if not da or not db or set(da) != set(db):
            continue
        names = set(da)
        # bound nowhere else, and every load is the callee of a call
        all_stores = [x for x in ast.walk(node) if isinstance(x, ast.Name) and x.id in names and isinstance(x.ctx, ast.Store)]
        in_arms = [x for a in st.body + st.orelse for x in ast.walk(a) if isinstance(x, ast.Name) and x.id in names and isinstance(x.ctx, ast.Store)]
        if len(all_stores) != len(in_arms):
            continue
        callee_ids = {id(c.func) for c in ast.walk(node) if isinstance(c, ast.Call)}
        loads = [x for x in ast.walk(node) if isinstance(x, ast.Name) and x.id in names and isinstance(x.ctx, ast.Load)]
        if not loads or any(id(x) not in callee_ids for x in loads):
            continue
        # the test is stable
        read = {unparse(x) for x in ast.walk(st.test) if isinstance(x, (ast.Name, ast.Attribute, ast.Subscript))}
        stored = {unparse(t) for later in body[idx + 1 :] for x in ast.walk(later) if isinstance(x, (ast.Assign, ast.AugAssign)) for t in (x.targets if isinstance(x, ast.Assign) else [x.target])}
        if read & stored:
            continue
        # the functions' own names must not be re-bound either (operator, module functions)
        new_body = []
        for j, other in enumerate(body):
            if other is st:
                continue
            uses = any(isinstance(x, ast.Name) and x.id in names for x in ast.walk(other))
            if not uses or j < idx:
                new_body.append(other)
                continue
            if not isinstance(other, (ast.Assign, ast.AugAssign, ast.Expr, ast.Return)):
                new_body = None
                break
            arm_a = lower_operator_calls(_Subst(da, depth=1).visit(copy.deepcopy(other)))
            arm_b = lower_operator_calls(_Subst(db, depth=1).visit(copy.deepcopy(other)))
            new_body.append(ast.copy_location(ast.If(test=copy.deepcopy(st.test), body=[arm_a], orelse=[arm_b]), other))
        if new_body is None:
            continue
        body = new_body
        changed = True
        break  # indices refer to the old body: one conditional per pass
    if not changed:
        return fi
    node.body = body
    return distribute_branch_functions(FuncInfo(fi.module, fi.qual, ast.fix_missing_locations(node), fi.cls))


def record_ctor_as_tuple(prog: "Program", fi: FuncInfo, e: ast.expr) -> ast.expr:
    """`Rec(a, b, c)` / `Rec(x=a, ...)` of a value class -> the tuple `(a, b, c)` in field order (a
    NamedTuple is that tuple; callers that destructure the result see the same thing)."""
    if isinstance(e, ast.Call) and isinstance(e.func, ast.Name) and not any(isinstance(a, ast.Starred) for a in e.args):
        rc = prog.record_class_of(fi, e.func.id)
        if rc is not None:
            fields = prog.record_fields(*rc)
            vals = {}
            for (fname, _d), a in zip(fields, e.args):
                vals[fname] = a
            for k in e.keywords:
                if k.arg is None:
                    return e
                vals[k.arg] = k.value
            if all(f_ in vals for f_, _ in fields):
                return ast.fix_missing_locations(ast.copy_location(ast.Tuple(elts=[vals[f_] for f_, _ in fields], ctx=ast.Load()), e))
    return e


def lower_comprehension_loops(fi: FuncInfo) -> FuncInfo:
    """`for T in G` / `for n, T in enumerate(G[, start])` where G is a generator expression or list
    comprehension with several `for` clauses (written in the header or bound once to a local used nowhere
    else) -> the nested loops themselves, the element bound to T at the top of the innermost body and the
    enumeration written as a running counter (`n = start - 1` before, `n += 1` inside)."""
    import copy

    node = copy.deepcopy(fi.node)
    sd = single_defs(node)
    uses: dict = {}
    for n in ast.walk(node):
        if isinstance(n, ast.Name) and isinstance(n.ctx, ast.Load):
            uses[n.id] = uses.get(n.id, 0) + 1
    dropped = set()

    def gen_of(e):
        if isinstance(e, (ast.GeneratorExp, ast.ListComp)):
            return e, None
        if isinstance(e, ast.Name) and isinstance(sd.get(e.id), (ast.GeneratorExp, ast.ListComp)) and uses.get(e.id, 0) == 1:
            return sd[e.id], e.id
        return None, None

    class T(ast.NodeTransformer):
        def visit_For(self, n: ast.For):
            self.generic_visit(n)
            if n.orelse:
                return n
            it = n.iter
            counter = None
            start = 0
            target = n.target
            if isinstance(it, ast.Call) and isinstance(it.func, ast.Name) and it.func.id == "enumerate" and it.args and isinstance(target, ast.Tuple) and len(target.elts) == 2 and isinstance(target.elts[0], ast.Name):
                if len(it.args) == 2 or it.keywords:
                    sv = it.args[1] if len(it.args) == 2 else it.keywords[0].value
                    if not (isinstance(sv, ast.Constant) and isinstance(sv.value, int)):
                        return n
                    start = sv.value
                counter = target.elts[0].id
                target = target.elts[1]
                it = it.args[0]
            g, local = gen_of(it)
            if g is None or len(g.generators) < 2 or any(c.is_async for c in g.generators):
                return n
            if any(isinstance(x, (ast.Break, ast.Continue)) for b in n.body for x in ast.walk(b)):
                return n
            inner: list = []
            if counter:
                inner.append(ast.AugAssign(target=ast.Name(id=counter, ctx=ast.Store()), op=ast.Add(), value=ast.Constant(value=1)))
            tgt = copy.deepcopy(target)
            for x in ast.walk(tgt):
                if isinstance(x, (ast.Name, ast.Tuple, ast.List)):
                    x.ctx = ast.Store()
            # (a, b) = (a, b): the element is the tuple of the loop variables themselves
            if not (unparse(tgt) == unparse(g.elt)):
                inner.append(ast.Assign(targets=[tgt], value=copy.deepcopy(g.elt), lineno=n.lineno))
            inner += n.body
            body = inner
            for c in reversed(g.generators):
                for cond in reversed(c.ifs):
                    body = [ast.If(test=cond, body=body, orelse=[])]
                body = [ast.For(target=c.target, iter=c.iter, body=body, orelse=[], lineno=n.lineno, col_offset=n.col_offset)]
            out = []
            if counter:
                out.append(ast.Assign(targets=[ast.Name(id=counter, ctx=ast.Store())], value=ast.Constant(value=start - 1), lineno=n.lineno))
            out += body
            if local:
                dropped.add(local)
            for o in out:
                ast.copy_location(o, n)
            return out

    node = T().visit(node)

    class D(ast.NodeTransformer):
        def visit_Assign(self, n: ast.Assign):
            if len(n.targets) == 1 and isinstance(n.targets[0], ast.Name) and n.targets[0].id in dropped:
                return None
            return n

        def visit_AnnAssign(self, n: ast.AnnAssign):
            if isinstance(n.target, ast.Name) and n.target.id in dropped:
                return None
            return n

    node = ast.fix_missing_locations(D().visit(node))
    return FuncInfo(fi.module, fi.qual, node, fi.cls)


def lower_partials(fi: FuncInfo) -> FuncInfo:
    """`g = partial(f, a, k=v); g(b, m=w)` -> `f(a, b, k=v, m=w)` for a local bound once to
    functools.partial whose frozen arguments are call-free access paths or literals (re-evaluating them
    at the call is then the same thing, as long as nothing they name is stored in between - checked)."""
    import copy

    node = copy.deepcopy(fi.node)
    sd = single_defs(node)
    parts = {}
    for name, v in sd.items():
        if isinstance(v, ast.Call) and unparse(v.func) in ("partial", "functools.partial") and v.args and not any(isinstance(a, ast.Starred) for a in v.args) and all(k.arg for k in v.keywords):
            frozen = list(v.args[1:]) + [k.value for k in v.keywords]
            if any(isinstance(x, (ast.Call, ast.NamedExpr, ast.Await, ast.Yield)) for a in frozen for x in ast.walk(a)):
                continue
            # names / paths read by the frozen arguments must not be stored after the definition
            read = {unparse(x) for a in frozen for x in ast.walk(a) if isinstance(x, (ast.Name, ast.Attribute, ast.Subscript))}
            stores_after = set()
            seen = False
            for st in ast.walk(node):
                if isinstance(st, (ast.Assign, ast.AugAssign)):
                    tg = st.targets if isinstance(st, ast.Assign) else [st.target]
                    if isinstance(st, ast.Assign) and st.value is v:
                        seen = True
                        continue
                    if seen:
                        stores_after |= {unparse(t) for t in tg}
            if read & stores_after:
                continue
            parts[name] = v
    if not parts:
        return fi

    class T(ast.NodeTransformer):
        def visit_Call(self, n: ast.Call):
            self.generic_visit(n)
            if isinstance(n.func, ast.Name) and n.func.id in parts:
                pv = parts[n.func.id]
                given = {k.arg for k in n.keywords}
                return ast.copy_location(
                    ast.Call(func=copy.deepcopy(pv.args[0]), args=[copy.deepcopy(a) for a in pv.args[1:]] + n.args, keywords=[copy.deepcopy(k) for k in pv.keywords if k.arg not in given] + n.keywords),
                    n,
                )
            return n

        def visit_Assign(self, n: ast.Assign):
            if len(n.targets) == 1 and isinstance(n.targets[0], ast.Name) and n.targets[0].id in parts and n.value is parts[n.targets[0].id]:
                return None
            self.generic_visit(n)
            return n

    # only when every load of the name is a call of it
    for name in list(parts):
        loads = [x for x in ast.walk(node) if isinstance(x, ast.Name) and x.id == name and isinstance(x.ctx, ast.Load)]
        callee_ids = {id(c.func) for c in ast.walk(node) if isinstance(c, ast.Call)}
        if any(id(x) not in callee_ids for x in loads):
            del parts[name]
    if not parts:
        return fi
    node = ast.fix_missing_locations(T().visit(node))
    return FuncInfo(fi.module, fi.qual, node, fi.cls)


def rename_by_role(fi: FuncInfo, roles: list) -> FuncInfo:
    """Give the locals a rule talks about the names the rule uses, whatever the source calls them.
    `roles` = [(canonical name | tuple of names, predicate(value expr) -> bool)]: the first assignment whose
    value satisfies the predicate identifies the local(s) - a plain name, or a tuple of names of the same length -
    and every occurrence in the function is renamed. Roles are applied one after the other, so a later predicate
    may speak about the canonical names of earlier ones. A local that already carries the canonical name, a role
    nobody plays, or a canonical name that is taken by another variable leave the function as it is."""
    import copy

    cur = fi
    for canon, pred in roles:
        names = (canon,) if isinstance(canon, str) else tuple(canon)
        taken = {x.id for x in ast.walk(cur.node) if isinstance(x, ast.Name)} | set(cur.params)
        mapping: dict = {}
        # statements in document order (tuple assignments may have been split into consecutive plain ones)
        stmts = [st for st in ast.walk(cur.node) if isinstance(st, ast.Assign) and len(st.targets) == 1]
        stmts.sort(key=lambda st: (getattr(st, "lineno", 0), getattr(st, "col_offset", 0)))
        hits = []
        for st in stmts:
            try:
                ok = pred(st.value)
            except Exception:  # noqa: BLE001
                ok = False
            if ok:
                hits.append(st)
        olds = None
        for h in hits:  # the first assignment of the right arity
            t = h.targets[0]
            cand = [t.id] if isinstance(t, ast.Name) else [e.id for e in t.elts] if isinstance(t, (ast.Tuple, ast.List)) and all(isinstance(e, ast.Name) for e in t.elts) else None
            if cand is not None and len(cand) == len(names):
                olds = cand
                break
        if olds is None:
            continue
        for o, c in zip(olds, names):
            if o != c and c not in taken and o not in cur.params:
                mapping[o] = c
                taken.add(c)
        if not mapping:
            continue

        class R(ast.NodeTransformer):
            def visit_Name(self, n: ast.Name):
                if n.id in mapping:
                    return ast.copy_location(ast.Name(id=mapping[n.id], ctx=n.ctx), n)
                return n

        node = R().visit(copy.deepcopy(cur.node))
        cur = FuncInfo(cur.module, cur.qual, ast.fix_missing_locations(node), cur.cls)
    return cur


def _u(e) -> str:
    return unparse(e)


def _call_to(e, *names) -> bool:
    return isinstance(e, ast.Call) and _u(e.func).split(".")[-1] in names


# function -> [(name(s) the rules use, how the local is recognised by its definition)]; one line of reason each
LOCAL_ROLES = {
    # the open dataset of the file being created
    "out_netcdf:Output.create_netcdf": [
        ("nc", lambda v: _call_to(v, "Dataset")),
        # the dimensions of the instance variables (one of two literal tuples, chosen by the layout)
        ("instance_dim", lambda v: isinstance(v, ast.Tuple) and all(isinstance(e, ast.Constant) and e.value in ("time", "particle", "particle_instance") for e in v.elts) and len(v.elts) >= 1),
    ],
    "out_netcdf:Output.write": [
        # number of particles of the record, cursor of the sparse record, its end
        ("count", lambda v: _u(v) == "len(state)"),
        ("start", lambda v: _u(v) == "self.local_instance_count"),
        ("end", lambda v: isinstance(v, ast.BinOp) and isinstance(v.op, ast.Add) and {"count", "start"} >= {x.id for x in ast.walk(v) if isinstance(x, ast.Name)} and len({x.id for x in ast.walk(v) if isinstance(x, ast.Name)}) == 2),
        # the column mask of the dense layout
        ("has_value", lambda v: _call_to(v, "full", "zeros", "empty") and "len(state)" in _u(v)),
        # converted positions of the record
        (("lon", "lat"), lambda v: _call_to(v, "xy2ll")),
    ],
    "timekeeper:TimeKeeper.__init__": [("duration", lambda v: _u(v) in ("self.stop_time - self.start_time",))],
    "main:main": [
        ("model", lambda v: isinstance(v, ast.Call) and _u(v.func) == "Model"),
        ("logger", lambda v: _call_to(v, "getLogger")),
        ("config", lambda v: isinstance(v, ast.Call) and _u(v.func) == "configure"),
    ],
    "configure:configure": [
        ("confile", lambda v: isinstance(v, ast.Call) and _u(v.func) == "Path"),
        ("config", lambda v: _call_to(v, "safe_load", "load") and ("yaml" in _u(v) or "toml" in _u(v))),
        ("version", lambda v: ".get('version'" in _u(v)),
    ],
    "release:ParticleReleaser.clean_position": [
        ("df", lambda v: _u(v) == "self._df"),
        (("X", "Y"), lambda v: _call_to(v, "ll2xy")),
    ],
    "ROMS:Grid.__init__": [
        ("ncid", lambda v: _call_to(v, "Dataset")),
        ("shape", lambda v: _u(v).endswith(".shape") and "variables['h']" in _u(v) and False),  # (only when not unpacked directly)
        (("jmax0", "imax0"), lambda v: (_u(v).endswith(".shape") and "variables['h']" in _u(v)) or (isinstance(v, ast.Name) and v.id.startswith("shape"))),
        ("limits", lambda v: "subgrid" in _u(v) and isinstance(v, (ast.IfExp, ast.Call, ast.List))),
    ],
    "ROMS:forcing_steps": [
        (("all_frames", "num_frames"), lambda v: _call_to(v, "scan_file_times")),
        ("steps", lambda v: isinstance(v, ast.ListComp) and "time2step" in _u(v)),
        ("time0", lambda v: "all_frames[0]" in _u(v)),
        ("time1", lambda v: "all_frames[-1]" in _u(v)),
    ],
    "ROMS:Forcing._read_velocity": [("frame", lambda v: _u(v).startswith("self.frame_idx["))],
    "ROMS:Forcing._read_field": [("frame", lambda v: _u(v).startswith("self.frame_idx["))],
    # the unstretched coordinate of the level arrays
    "ROMS:s_stretch": [("S", lambda v: "np.arange(" in _u(v) or "np.linspace(" in _u(v))],
    "ROMS:sdepth": [("S", lambda v: "np.arange(" in _u(v) or "np.linspace(" in _u(v))],
    "out_netcdf:Output.create_netcdf_": [],
    "configure:configure_": [],
    "sample:bilin_inv": [
        (("imax", "jmax"), lambda v: _u(v) == "F.shape"),
        # the iterates and their cell / fraction
        ("x", lambda v: "0.5 * imax" in _u(v) or "imax / 2" in _u(v) or "imax * 0.5" in _u(v)),
        ("y", lambda v: "0.5 * jmax" in _u(v) or "jmax / 2" in _u(v) or "jmax * 0.5" in _u(v)),
        ("i", lambda v: _u(v).startswith("x.astype(")),
        ("j", lambda v: _u(v).startswith("y.astype(")),
        ("p", lambda v: _u(v) == "x - i"),
        ("q", lambda v: _u(v) == "y - j"),
    ],
    "sample:sample2D": [(("jmax", "imax"), lambda v: _u(v) == "F.shape")],
    "sample:sample2D2": [(("jmax", "imax"), lambda v: _u(v) == "F.shape")],
    "warm_start:warm_start": [
        ("wvars", lambda v: "warm_start_variables" in _u(v) and "'pid'" in _u(v)),
    ],
}


def canon_compare_text(e: ast.expr) -> str:
    """Text of a two-operand comparison written with `<` / `<=` (`a >= b` reads `b <= a`); other tests as they are."""
    if isinstance(e, ast.Compare) and len(e.ops) == 1 and isinstance(e.ops[0], (ast.Gt, ast.GtE)):
        op = ast.Lt() if isinstance(e.ops[0], ast.Gt) else ast.LtE()
        e = ast.Compare(left=e.comparators[0], ops=[op], comparators=[e.left])
        return unparse(ast.fix_missing_locations(e))
    return unparse(e)


def positive_cond(text: str, taken: bool) -> tuple:
    """(condition text, taken) with negations moved into the truth value: `not c` / `a not in b` / `a is not b`
    / `a != b` taken T  ==  `c` / `a in b` / `a is b` / `a == b` taken F."""
    try:
        e = ast.parse(text, mode="eval").body
    except SyntaxError:
        return text, taken
    while True:
        if isinstance(e, ast.UnaryOp) and isinstance(e.op, ast.Not):
            e, taken = e.operand, not taken
            continue
        if isinstance(e, ast.Compare) and len(e.ops) == 1 and isinstance(e.ops[0], (ast.NotIn, ast.IsNot, ast.NotEq)):
            pos = {ast.NotIn: ast.In, ast.IsNot: ast.Is, ast.NotEq: ast.Eq}[type(e.ops[0])]
            e, taken = ast.Compare(left=e.left, ops=[pos()], comparators=e.comparators), not taken
            continue
        break
    return unparse(ast.fix_missing_locations(e)), taken


def emptiness_subject(test: ast.expr, fn: Optional[ast.AST] = None) -> Optional[str]:
    """The container (expanded text) that `test` finds empty - for every spelling of "no elements":
    `len(L) == 0`, `0 == len(L)`, `not L`, `not len(L)`, `len(L) < 1`, `len(L) <= 0`, `1 > len(L)`, and the same
    through a local `n = len(L)`. None when the test is not such a test."""
    if fn is not None:
        direct = emptiness_subject(test, None)  # `not files` names the container itself
        if direct is not None:
            return direct
    t = expand_locals(test, fn) if fn is not None else test

    def length_of(e):
        if isinstance(e, ast.Call) and isinstance(e.func, ast.Name) and e.func.id == "len" and len(e.args) == 1:
            return unparse(e.args[0])
        return None

    if isinstance(t, ast.UnaryOp) and isinstance(t.op, ast.Not):
        inner = t.operand
        return length_of(inner) or (unparse(inner) if isinstance(inner, (ast.Name, ast.Attribute)) else None)
    if isinstance(t, ast.Compare) and len(t.ops) == 1:
        a, b, op = t.left, t.comparators[0], type(t.ops[0])
        if length_of(b) is not None and isinstance(a, ast.Constant):
            a, b = b, a
            op = {ast.Lt: ast.Gt, ast.Gt: ast.Lt, ast.LtE: ast.GtE, ast.GtE: ast.LtE}.get(op, op)
        la = length_of(a)
        if la is not None and isinstance(b, ast.Constant) and isinstance(b.value, int):
            if (op is ast.Eq and b.value == 0) or (op is ast.Lt and b.value == 1) or (op is ast.LtE and b.value == 0):
                return la
    return None


def lower_slice_calls(e: ast.AST) -> ast.AST:
    """x[slice(a, b)] -> x[a:b], x[slice(n)] -> x[:n] (in place; the builtin slice)."""

    class T(ast.NodeTransformer):
        def visit_Subscript(self, n: ast.Subscript):
            self.generic_visit(n)
            c = n.slice
            if isinstance(c, ast.Call) and isinstance(c.func, ast.Name) and c.func.id == "slice" and not c.keywords and 1 <= len(c.args) <= 3:
                none = lambda a: None if (isinstance(a, ast.Constant) and a.value is None) else a  # noqa: E731
                if len(c.args) == 1:
                    n.slice = ast.Slice(lower=None, upper=none(c.args[0]), step=None)
                else:
                    n.slice = ast.Slice(lower=none(c.args[0]), upper=none(c.args[1]), step=none(c.args[2]) if len(c.args) == 3 else None)
            return n

    return ast.fix_missing_locations(T().visit(e))


def project_record_fields(prog: "Program", fi: FuncInfo) -> FuncInfo:
    """`rec = Rec(a, b); ... rec.x ...` -> `rec__x = a; rec__y = b; ... rec__x ...` for value classes of the
    repository (NamedTuple / dataclass), when the local is bound once and only its fields are read."""
    import copy

    node = copy.deepcopy(fi.node)
    sd = single_defs(node)
    todo = {}
    for name, v in sd.items():
        if isinstance(v, ast.Call) and isinstance(v.func, ast.Name):
            rc = prog.record_class_of(fi, v.func.id)
            if rc is None or any(isinstance(a, ast.Starred) for a in v.args) or any(k.arg is None for k in v.keywords):
                continue
            fields = prog.record_fields(*rc)
            vals = {}
            for (fname, _d), a in zip(fields, v.args):
                vals[fname] = a
            for k in v.keywords:
                vals[k.arg] = k.value
            for fname, d in fields:
                if fname not in vals and d is not None:
                    vals[fname] = d
            if set(vals) != {f_ for f_, _ in fields}:
                continue
            # every load of the name is `name.<field>`
            parents_ok = True
            loads = [n for n in ast.walk(node) if isinstance(n, ast.Name) and n.id == name and isinstance(n.ctx, ast.Load)]
            attr_bases = {id(n.value) for n in ast.walk(node) if isinstance(n, ast.Attribute) and isinstance(n.value, ast.Name) and n.value.id == name and n.attr in vals}
            if any(id(n) not in attr_bases for n in loads):
                parents_ok = False
            if parents_ok:
                todo[name] = (v, [(f_, vals[f_]) for f_, _ in fields])
    if not todo:
        return fi

    class T(ast.NodeTransformer):
        def visit_Assign(self, n: ast.Assign):
            if len(n.targets) == 1 and isinstance(n.targets[0], ast.Name) and n.targets[0].id in todo and n.value is todo[n.targets[0].id][0]:
                nm = n.targets[0].id
                return [ast.copy_location(ast.Assign(targets=[ast.Name(id=f"{nm}__{f_}", ctx=ast.Store())], value=val, lineno=n.lineno, col_offset=n.col_offset), n) for f_, val in todo[nm][1]]
            self.generic_visit(n)
            return n

        def visit_AnnAssign(self, n: ast.AnnAssign):
            if isinstance(n.target, ast.Name) and n.target.id in todo and n.value is todo[n.target.id][0]:
                nm = n.target.id
                return [ast.copy_location(ast.Assign(targets=[ast.Name(id=f"{nm}__{f_}", ctx=ast.Store())], value=val, lineno=n.lineno, col_offset=n.col_offset), n) for f_, val in todo[nm][1]]
            self.generic_visit(n)
            return n

        def visit_Attribute(self, n: ast.Attribute):
            if isinstance(n.value, ast.Name) and n.value.id in todo and isinstance(n.ctx, ast.Load):
                return ast.copy_location(ast.Name(id=f"{n.value.id}__{n.attr}", ctx=ast.Load()), n)
            self.generic_visit(n)
            return n

    node = ast.fix_missing_locations(T().visit(node))
    return FuncInfo(fi.module, fi.qual, node, fi.cls)


def inline_class_constants(prog: "Program", fi: FuncInfo) -> FuncInfo:
    """`self.NAME` / `cls.NAME` / `Class.NAME` -> the literal assigned to NAME in the class body, when no
    method of the class stores to that attribute (class-level tables such as _MODULE_NAMES)."""
    import copy

    if not fi.cls:
        return fi
    cls = fi.module.classes.get(fi.cls)
    if cls is None:
        return fi
    consts = {}
    for st in cls.body:
        t = v = None
        if isinstance(st, ast.Assign) and len(st.targets) == 1 and isinstance(st.targets[0], ast.Name):
            t, v = st.targets[0].id, st.value
        elif isinstance(st, ast.AnnAssign) and isinstance(st.target, ast.Name) and st.value is not None:
            t, v = st.target.id, st.value
        if t and isinstance(v, (ast.Tuple, ast.List, ast.Dict, ast.Constant, ast.Set)):
            try:
                ast.literal_eval(v)
                consts[t] = v
            except Exception:  # noqa: BLE001
                pass
    if not consts:
        return fi
    stored = {x.attr for n in ast.walk(cls) for x in ast.walk(n) if isinstance(x, ast.Attribute) and isinstance(x.ctx, ast.Store) and isinstance(x.value, ast.Name) and x.value.id in ("self", "cls", fi.cls)}

    class C(ast.NodeTransformer):
        def visit_Attribute(self, n: ast.Attribute):
            self.generic_visit(n)
            if isinstance(n.ctx, ast.Load) and isinstance(n.value, ast.Name) and n.value.id in ("self", "cls", fi.cls) and n.attr in consts and n.attr not in stored:
                return ast.copy_location(copy.deepcopy(consts[n.attr]), n)
            return n

    node = ast.fix_missing_locations(C().visit(copy.deepcopy(fi.node)))
    return FuncInfo(fi.module, fi.qual, node, fi.cls)


def inline_module_constants(fi: FuncInfo) -> FuncInfo:
    """Names bound once at module level to a literal number / string / boolean (`_DEFAULT_WIDTH = 3`) are
    replaced by the literal, unless the function binds the same name itself."""
    import copy

    mi = fi.module
    cands = {}
    for k, v in mi.constants.items():
        lit = v
        if isinstance(lit, ast.UnaryOp) and isinstance(lit.op, ast.USub) and isinstance(lit.operand, ast.Constant):
            lit = lit
        elif not isinstance(lit, ast.Constant):
            continue
        if isinstance(getattr(lit, "value", 0), (bytes,)):
            continue
        cands[k] = v
    if not cands:
        return fi
    # bound more than once in the module (or declared global somewhere): not a constant
    counts: dict = {}
    for x in ast.walk(mi.tree):
        if isinstance(x, ast.Name) and isinstance(x.ctx, ast.Store) and x.id in cands:
            counts[x.id] = counts.get(x.id, 0) + 1
        elif isinstance(x, ast.Global):
            for nm in x.names:
                counts[nm] = counts.get(nm, 0) + 2
    own = {x.id for x in ast.walk(fi.node) if isinstance(x, ast.Name) and isinstance(x.ctx, (ast.Store, ast.Del))} | set(fi.params)
    cands = {k: v for k, v in cands.items() if counts.get(k, 0) <= 1 and k not in own and k not in ("DEBUG",)}
    used = {x.id for x in ast.walk(fi.node) if isinstance(x, ast.Name) and isinstance(x.ctx, ast.Load)}
    cands = {k: v for k, v in cands.items() if k in used}
    if not cands:
        return fi
    node = _Subst(cands, depth=1).visit(copy.deepcopy(fi.node))
    return FuncInfo(fi.module, fi.qual, ast.fix_missing_locations(node), fi.cls)


def fold_constant_tests(fi: FuncInfo) -> FuncInfo:
    """`if True: A else: B` -> A ; `if False: A else: B` -> B (after helper inlining with literal flags)."""
    import copy

    def fold(stmts: list) -> list:
        out = []
        for st in stmts:
            for field in ("body", "orelse", "finalbody"):
                if hasattr(st, field) and isinstance(getattr(st, field), list) and not isinstance(st, (ast.FunctionDef, ast.ClassDef)):
                    setattr(st, field, fold(getattr(st, field)))
            if isinstance(st, ast.Try):
                for h in st.handlers:
                    h.body = fold(h.body)
            if isinstance(st, ast.If) and isinstance(st.test, ast.Constant) and isinstance(st.test.value, bool):
                out += st.body if st.test.value else st.orelse
                continue
            out.append(st)
        return out

    node = copy.deepcopy(fi.node)
    node.body = fold(node.body) or [ast.Pass()]
    return FuncInfo(fi.module, fi.qual, ast.fix_missing_locations(node), fi.cls)


def expand_handle_aliases(fi: FuncInfo) -> FuncInfo:
    """`timer = self.timer; timer.step = 0` -> `self.timer.step = 0`: single-assignment locals bound to an
    object handle of the instance (`self.NAME`, `self.modules["role"]`) are replaced by the handle, when
    the function never re-binds that handle."""
    import copy

    node = fi.node
    # handles re-bound at or after the alias definition (in source order; a loop around both counts)
    order = []

    def dfs(n, loops):
        for c in ast.iter_child_nodes(n):
            if isinstance(c, ast.stmt):
                order.append((c, loops))
            dfs(c, loops + (id(c),) if isinstance(c, (ast.For, ast.While)) else loops)

    dfs(node, ())
    alias_pos = {}
    for i, (st, loops) in enumerate(order):
        if isinstance(st, (ast.Assign, ast.AnnAssign)):
            tg = st.targets[0] if isinstance(st, ast.Assign) else st.target
            if isinstance(tg, ast.Name):
                alias_pos[tg.id] = (i, loops)
    rebinds = []
    for i, (st, loops) in enumerate(order):
        for t in st.targets if isinstance(st, ast.Assign) else [st.target] if isinstance(st, (ast.AugAssign, ast.AnnAssign)) else []:
            rebinds.append((unparse(t), i, loops))

    def is_rebound(name: str, txt: str) -> bool:
        pos, loops = alias_pos.get(name, (-1, ()))
        return any(t == txt and (i > pos or (set(l) & set(loops))) for t, i, l in rebinds)

    aliases = {}
    for k, v in path_alias_defs(node).items():
        txt = unparse(v)
        is_handle = (isinstance(v, ast.Attribute) and isinstance(v.value, ast.Name) and v.value.id == "self") or (
            isinstance(v, ast.Subscript) and unparse(v.value) == "self.modules" and isinstance(v.slice, ast.Constant)
        )
        if is_handle and not is_rebound(k, txt):
            aliases[k] = v
    if not aliases:
        return fi
    node = copy.deepcopy(node)

    class Drop(ast.NodeTransformer):
        def visit_FunctionDef(self, n):
            if n is node:
                self.generic_visit(n)
            return n

        def visit_Assign(self, n: ast.Assign):
            if len(n.targets) == 1 and isinstance(n.targets[0], ast.Name) and n.targets[0].id in aliases:
                return None
            return n

        def visit_AnnAssign(self, n: ast.AnnAssign):
            if isinstance(n.target, ast.Name) and n.target.id in aliases and n.value is not None:
                return None
            return n

    node = Drop().visit(node)
    node = _Subst(aliases).visit(node)
    for b in ast.walk(node):
        for fld in ("body", "orelse", "finalbody"):
            if hasattr(b, fld) and isinstance(getattr(b, fld), list) and fld == "body" and not getattr(b, fld):
                b.body = [ast.Pass()]
    return FuncInfo(fi.module, fi.qual, ast.fix_missing_locations(node), fi.cls)


def strip_bool_tests(fi: FuncInfo) -> FuncInfo:
    """`if bool(x):` / `while bool(x):` / `bool(x) and y` in a test -> the same with `x`: truth testing
    applies bool() anyway."""
    import copy

    node = copy.deepcopy(fi.node)

    def strip(t: ast.expr) -> ast.expr:
        if isinstance(t, ast.Call) and isinstance(t.func, ast.Name) and t.func.id == "bool" and len(t.args) == 1 and not t.keywords:
            return strip(t.args[0])
        if isinstance(t, ast.BoolOp):
            t.values = [strip(v) for v in t.values]
        elif isinstance(t, ast.UnaryOp) and isinstance(t.op, ast.Not):
            t.operand = strip(t.operand)
        return t

    for n in ast.walk(node):
        if isinstance(n, (ast.If, ast.While, ast.IfExp)):
            n.test = strip(n.test)
    return FuncInfo(fi.module, fi.qual, ast.fix_missing_locations(node), fi.cls)


def split_elif_guards(fi: FuncInfo) -> FuncInfo:
    """`if A: S  elif B: <stop>` -> `if A: S` followed by `if not A and B: <stop>` when the second arm
    only stops the run (every path raises) and S stores nothing that A reads: the stand-alone guard is
    what the guard-reading rules look for, and the two forms take the same branches."""
    import copy

    from .paths import enumerate_paths

    node = copy.deepcopy(fi.node)

    def reads(e: ast.AST) -> set:
        return {unparse(x) for x in ast.walk(e) if isinstance(x, (ast.Name, ast.Attribute, ast.Subscript))}

    def stores(stmts: list) -> set:
        out = set()
        for st in stmts:
            for x in ast.walk(st):
                if isinstance(x, (ast.Assign, ast.AugAssign, ast.AnnAssign)):
                    for t in x.targets if isinstance(x, ast.Assign) else [x.target]:
                        for y in ast.walk(t):
                            if isinstance(y, (ast.Name, ast.Attribute, ast.Subscript)):
                                out.add(unparse(y))
        return out

    def fold(stmts: list) -> list:
        out = []
        for st in stmts:
            for field in ("body", "orelse", "finalbody"):
                sub = getattr(st, field, None)
                if isinstance(sub, list) and sub and isinstance(sub[0], ast.stmt) and not isinstance(st, (ast.FunctionDef, ast.ClassDef)):
                    setattr(st, field, fold(sub))
            if isinstance(st, ast.If) and len(st.orelse) == 1 and isinstance(st.orelse[0], ast.If) and not st.orelse[0].orelse:
                inner = st.orelse[0]
                try:
                    stops = all(p.exit == "raise" for p in enumerate_paths(inner.body))
                except Exception:  # noqa: BLE001
                    stops = False
                if stops and not (reads(st.test) & stores(st.body)) and not any(isinstance(x, ast.Call) for x in ast.walk(st.test)):
                    st.orelse = []
                    out.append(st)
                    g = ast.If(test=ast.BoolOp(op=ast.And(), values=[ast.UnaryOp(op=ast.Not(), operand=copy.deepcopy(st.test)), inner.test]), body=inner.body, orelse=[])
                    out.append(ast.copy_location(g, inner))
                    continue
            out.append(st)
        return out

    node.body = fold(node.body)
    return FuncInfo(fi.module, fi.qual, ast.fix_missing_locations(node), fi.cls)


def reading_view(prog: "Program", fi: FuncInfo, propagate: bool = False) -> FuncInfo:
    """The function as the text-reading rules see it: private helpers inlined, table-driven loops
    unrolled, append-loops as comprehensions, locals forwarded to attributes replaced by the
    attributes, named tests expanded, negated two-armed ifs flipped. With `propagate`, call-free local
    definitions are also substituted forward and branch temporaries sunk into the branches (for rules
    that follow one object, e.g. the release table, through a sequence of statements)."""
    f = inline_helpers(prog, inline_class_constants(prog, fi))
    f = inline_module_constants(f)
    f = lower_partials(project_record_fields(prog, expand_handle_aliases(fold_constant_tests(f))))
    f = distribute_branch_functions(f)
    f = FuncInfo(f.module, f.qual, unroll_literal_loops(f.node), f.cls)
    f = loops_to_comprehensions(f)
    if propagate:
        f = sink_branch_temporaries(propagate_locals(f))
    f = forward_attr_locals(f)
    f = flip_negated_ifs(split_elif_guards(strip_bool_tests(expand_tests(f))))
    inherit_orig_lines(f.node)
    return f


def release_init_view(prog: "Program") -> FuncInfo:
    """ParticleReleaser.__init__ as the statement-reading rules see it: the release table `self._df`
    is followed through its filters with temporaries propagated and branch masks sunk back."""
    return reading_view(prog, prog.role_func("release", "__init__"), propagate=True)
