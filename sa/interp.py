"""Abstract interpreter over the Python ast with a pluggable value domain.

Forward dataflow over one function body with inlining of resolved repository
callees (bounded depth).  No concrete values are enumerated and no path
conditions are collected: a branch is followed only when its test folds to a
constant (literal arguments such as method="bilinear", configuration flags fixed
by the rule); otherwise both arms are evaluated and the results are *joined* by
the domain (NF: an opaque two-armed Phi; intervals: the hull).
"""

from __future__ import annotations

import ast
import copy
from dataclasses import dataclass, field
from typing import Any, Callable, Optional

from .program import AnalysisError, FuncInfo, Program, StarredCall, bind_args, short, unparse


class Unsupported(AnalysisError):
    pass


@dataclass(frozen=True)
class Ref:
    """Symbolic reference to an object or value by access path ("grid.i0")."""

    path: str

    def __repr__(self) -> str:
        return f"Ref({self.path})"


@dataclass
class Tup:
    items: list

    def __repr__(self) -> str:
        return "Tup(" + ", ".join(map(repr, self.items)) + ")"


@dataclass
class MapV:
    """A mapping whose every value has the same abstract value (dict comprehension)."""

    value: Any
    text: str = ""

    def __repr__(self) -> str:
        return f"MapV({self.value})"


class Rec:
    """An instance of a value class of the repository (NamedTuple / dataclass): named fields."""

    def __init__(self, cls: tuple, fields: dict) -> None:
        self.cls = cls
        self.fields = fields

    def __repr__(self) -> str:
        return f"{self.cls[1]}(" + ", ".join(f"{k}={v!r}" for k, v in self.fields.items()) + ")"


class ClsRef:
    """A value class itself (the `cls` of a classmethod)."""

    def __init__(self, cls: tuple) -> None:
        self.cls = cls

    def __repr__(self) -> str:
        return f"<class {self.cls[1]}>"


@dataclass
class Phi:
    test: str
    a: Any
    b: Any
    cond: Any = None  # abstract value of the selecting mask, when the Phi comes from a masked store

    def __repr__(self) -> str:
        return f"Phi({self.test} ? {self.a} : {self.b})"


class Domain:
    """Interface of a value domain."""

    def const(self, c):
        raise NotImplementedError

    def atom(self, name: str):
        raise NotImplementedError

    def is_value(self, v) -> bool:
        raise NotImplementedError

    def binop(self, op: ast.operator, a, b, node):
        raise NotImplementedError

    def unop(self, op: ast.unaryop, a, node):
        raise NotImplementedError

    def compare(self, op: ast.cmpop, a, b, node):
        """-> bool if decidable else a domain value / None."""
        return None

    def boolop(self, op, values, node):
        return None

    def elem(self, base, base_text: str, idx: list, node, interp):
        """Read of base[idx...] (idx already evaluated; loop-variable-only indexing
        has been abstracted away before this is called)."""
        raise NotImplementedError

    def call(self, fname: str, args: list, kwargs: dict, node, interp):
        return NotImplemented

    def join(self, test: str, a, b, cond=None):
        if _same(a, b):
            return a
        return Phi(test, a, b, cond)

    def where(self, mask, new, old, node):
        return Phi("mask:" + str(mask), new, old)

    def loop_index(self, name: str, iter_node: ast.expr, interp):
        return self.atom(name)

    def refine(self, interp, env: dict, test: ast.expr, taken: bool) -> None:
        return None


def _same(a, b) -> bool:
    try:
        if type(a) is not type(b):
            return False
        if isinstance(a, Tup):
            return len(a.items) == len(b.items) and all(_same(x, y) for x, y in zip(a.items, b.items))
        if isinstance(a, Phi):
            return a.test == b.test and _same(a.a, b.a) and _same(a.b, b.b)
        r = a == b
        return bool(r)
    except Exception:
        return False


@dataclass
class Frame:
    fi: FuncInfo
    env: dict
    self_path: Optional[str]  # path of the object `self` refers to
    returns: list = field(default_factory=list)
    mutated: set = field(default_factory=set)  # parameter names stored through subscripts
    loopvars: set = field(default_factory=set)
    depth: int = 0
    mask_ctx: Optional[str] = None  # slice text of the masked store being evaluated
    return_states: list = field(default_factory=list)  # object-env snapshot at every `return`
    alias: dict = field(default_factory=dict)  # local name -> set of local names bound to the same array object
    objalias: dict = field(default_factory=dict)  # local name -> object path it was bound to (alive = state.alive)
    funcalias: dict = field(default_factory=dict)  # local name -> attribute expression of a bound method (normal = self.rng.normal)


class Interp:
    def __init__(
        self,
        prog: Program,
        domain: Domain,
        depth: int = 4,
        call_hook: Optional[Callable] = None,
        decide_hook: Optional[Callable] = None,
        attr_hook: Optional[Callable] = None,
        stmt_hook: Optional[Callable] = None,
    ) -> None:
        self.prog = prog
        self.dom = domain
        self.max_depth = depth
        self.call_hook = call_hook
        self.decide_hook = decide_hook
        self.attr_hook = attr_hook
        self.stmt_hook = stmt_hook
        self.objenv: dict[str, Any] = {}  # path -> value (object attributes, shared)
        self.trace: list[tuple[str, ast.AST]] = []  # (function, call node) chain for diagnostics
        self.stack: list[Frame] = []
        self.visited_functions: set[str] = set()
        self.unresolved_calls: list[str] = []
        self._tenv_cache: dict = {}

    # ------------------------------------------------------------------
    def run(self, fi: FuncInfo, args: dict[str, Any], self_path: Optional[str] = None, depth: int = 0):
        """Evaluate ``fi`` with parameters bound to ``args`` -> abstract return value."""
        self.visited_functions.add(fi.qual)
        env = dict(args)
        for p in fi.params:
            if p in ("self", "cls"):
                continue
            if p not in env:
                d = fi.defaults().get(p)
                if d is not None:
                    env[p] = self._const_default(d)
                else:
                    env[p] = Ref(p)
        fr = Frame(fi, env, self_path, depth=depth)
        self.stack.append(fr)
        try:
            self.block(fi.node.body, fr)
        finally:
            self.stack.pop()
        return self._result(fr), fr

    def _const_default(self, d: ast.expr):
        try:
            return self._pyconst(ast.literal_eval(d))
        except Exception:
            return Ref("default:" + unparse(d))

    def _pyconst(self, c):
        if c is None or isinstance(c, (str, bool)):
            return c
        if isinstance(c, (int, float)):
            return self.dom.const(c)
        if isinstance(c, (list, tuple)):
            return Tup([self._pyconst(x) for x in c])
        return Ref("const:" + repr(c))

    def _result(self, fr: Frame):
        if not fr.returns:
            return None
        val = fr.returns[-1][1]
        for test, v in reversed(fr.returns[:-1]):
            val = self._join(test or "?", v, val)
        return val

    def _join(self, test: str, a, b, cond=None):
        if isinstance(a, Tup) and isinstance(b, Tup) and len(a.items) == len(b.items):
            return Tup([self._join(test, x, y, cond) for x, y in zip(a.items, b.items)])
        if isinstance(a, Rec) and isinstance(b, Rec) and a.cls == b.cls:
            return Rec(a.cls, {k: self._join(test, a.fields[k], b.fields[k], cond) for k in a.fields})
        if _same(a, b):
            return a
        if self.dom.is_value(a) and self.dom.is_value(b):
            return self.dom.join(test, a, b, cond)
        return Phi(test, a, b, cond)

    # ------------------------------------------------------------------
    # statements
    # ------------------------------------------------------------------
    def block(self, stmts: list[ast.stmt], fr: Frame) -> str:
        for st in stmts:
            if self.stmt_hook is not None:
                self.stmt_hook(st, fr, self)
            status = self.stmt(st, fr)
            if status != "fall":
                return status
        return "fall"

    def stmt(self, st: ast.stmt, fr: Frame) -> str:
        if isinstance(st, ast.Expr):
            if isinstance(st.value, ast.Constant):
                return "fall"  # docstring
            outs = [k for k in st.value.keywords if k.arg == "out"] if isinstance(st.value, ast.Call) else []
            if outs and isinstance(outs[0].value, (ast.Name, ast.Attribute, ast.Subscript)):
                # np.clip(U, lo, hi, out=U): an in-place write, read as `U = np.clip(U, lo, hi)`
                call = ast.Call(func=st.value.func, args=st.value.args, keywords=[k for k in st.value.keywords if k.arg != "out"])
                ast.copy_location(call, st.value)
                tgt = copy.deepcopy(outs[0].value)
                for n in ast.walk(tgt):
                    if hasattr(n, "ctx") and n is tgt:
                        n.ctx = ast.Store()
                self.assign(tgt, self.eval(call, fr), fr, st)
                return "fall"
            self.eval(st.value, fr)
            return "fall"
        if isinstance(st, ast.Assign):
            # A[m] = f(B[m], C[m]): mask-aligned element-wise update -> where(m, f(B, C), A)
            fr.mask_ctx = None
            for t in st.targets:
                if isinstance(t, ast.Subscript) and not _const_key(t) and not self._is_loopvar_index(t, fr) and not _is_full_slice(t.slice):
                    fr.mask_ctx = unparse(t.slice)
            saved = None
            try:
                if fr.mask_ctx is not None and hasattr(self.dom, "refine_for_mask"):
                    mt = [t for t in st.targets if isinstance(t, ast.Subscript)][0]
                    saved = self.dom.refine_for_mask(fr.env, self.eval(mt.slice, fr), True)
                v = self.eval(st.value, fr)
            finally:
                fr.mask_ctx = None
                if saved:
                    fr.env.update(saved)
            for t in st.targets:
                self.assign(t, v, fr, st)
            self._update_aliases(st, fr)
            return "fall"
        if isinstance(st, ast.AnnAssign):
            if st.value is not None:
                self.assign(st.target, self.eval(st.value, fr), fr, st)
            return "fall"
        if isinstance(st, ast.AugAssign):
            cur = self.eval(_load(st.target), fr)
            rhs = self.eval(st.value, fr)
            if isinstance(st.target, ast.Subscript) and not self._is_loopvar_index(st.target, fr) and not _const_key(st.target):
                # Z[mask] *= -1  ->  where(mask, Z*-1, Z)
                mask = self.eval(st.target.slice, fr)
                if hasattr(self.dom, "refine_for_mask"):
                    saved = self.dom.refine_for_mask(fr.env, mask, True)
                    cur_true = self.eval(st.target.value, fr)
                    fr.env.update(saved)
                    saved = self.dom.refine_for_mask(fr.env, mask, False)
                    base_cur = self.eval(st.target.value, fr)
                    fr.env.update(saved)
                else:
                    base_cur = cur_true = self.eval(st.target.value, fr)
                newv = self._binop(st.op, cur_true, rhs, st)
                val = self.dom.where(mask, newv, self.num(base_cur), st)
                self.assign(st.target.value, val, fr, st, element_store=True)
                self._mark_mutated(st.target.value, fr)
                if isinstance(st.target.value, ast.Name):
                    for other in fr.alias.get(st.target.value.id, ()):
                        if other != st.target.value.id:
                            fr.env[other] = fr.env.get(st.target.value.id)
                return "fall"
            val = self._binop(st.op, cur, rhs, st)
            self.assign(st.target, val, fr, st)
            if isinstance(st.target, ast.Name):
                # in-place on an array parameter (Z += W*dt) is a mutation of the argument
                self._mark_mutated(st.target, fr)
                # ... and of every other local name bound to the same array (U = V = np.zeros_like(X))
                for other in fr.alias.get(st.target.id, ()):
                    if other != st.target.id:
                        fr.env[other] = val
            return "fall"
        if isinstance(st, ast.Return):
            v = self.eval(st.value, fr) if st.value is not None else None
            fr.returns.append((None, v))
            fr.return_states.append((st, dict(self.objenv)))
            return "return"
        if isinstance(st, ast.If):
            return self.if_stmt(st, fr)
        if isinstance(st, ast.For):
            return self.for_stmt(st, fr)
        if isinstance(st, ast.Raise):
            return "raise"
        if isinstance(st, ast.Break):
            return "break"
        if isinstance(st, ast.Continue):
            return "continue"
        if isinstance(st, (ast.Pass, ast.Import, ast.ImportFrom, ast.Global, ast.Nonlocal, ast.Assert, ast.Delete)):
            return "fall"
        if isinstance(st, ast.Try):
            # evaluate the body; handlers are error paths (not part of the numeric result)
            s = self.block(st.body, fr)
            if s == "fall" and st.orelse:
                s = self.block(st.orelse, fr)
            if st.finalbody:
                self.block(st.finalbody, fr)
            return s
        if isinstance(st, ast.With):
            for it in st.items:
                v = self.eval(it.context_expr, fr)
                if it.optional_vars is not None:
                    self.assign(it.optional_vars, v, fr, st)
            return self.block(st.body, fr)
        if isinstance(st, (ast.FunctionDef, ast.ClassDef)):
            return "fall"
        raise Unsupported(f"{fr.fi.loc(st)}: unsupported statement {type(st).__name__} in {fr.fi.qual}")

    def if_stmt(self, st: ast.If, fr: Frame) -> str:
        if any_guard_is_redundant(st):
            # if m.any(): A[m] = v ...  ==  A[m] = v ...   (every store in the body is masked by m)
            return self.block(st.body, fr)
        decided = self.decide(st.test, fr)
        if decided is True:
            return self.block(st.body, fr)
        if decided is False:
            return self.block(st.orelse, fr) if st.orelse else "fall"
        test_text = unparse(st.test)
        env0 = fr.env
        obj0 = self.objenv
        # true arm
        fr.env = dict(env0)
        self.objenv = dict(obj0)
        self.dom.refine(self, fr.env, st.test, True)
        nret = len(fr.returns)
        s1 = self.block(st.body, fr)
        env1, obj1 = fr.env, self.objenv
        for i in range(nret, len(fr.returns)):
            t, v = fr.returns[i]
            fr.returns[i] = (test_text if t is None else f"{test_text} and {t}", v)
        # false arm
        fr.env = dict(env0)
        self.objenv = dict(obj0)
        self.dom.refine(self, fr.env, st.test, False)
        nret2 = len(fr.returns)
        s2 = self.block(st.orelse, fr) if st.orelse else "fall"
        env2, obj2 = fr.env, self.objenv
        for i in range(nret2, len(fr.returns)):
            t, v = fr.returns[i]
            fr.returns[i] = (f"not ({test_text})" if t is None else f"not ({test_text}) and {t}", v)
        live = [(env1, obj1, s1), (env2, obj2, s2)]
        falling = [(e, o) for e, o, s in live if s == "fall"]
        if not falling:
            fr.env, self.objenv = env1, obj1
            if s1 == s2:
                return s1
            for pref in ("return", "break", "continue", "raise"):
                if pref in (s1, s2):
                    return pref
        if len(falling) == 1:
            fr.env, self.objenv = falling[0]
            return "fall"
        fr.env = self._merge(test_text, env1, env2)
        self.objenv = self._merge(test_text, obj1, obj2)
        return "fall"

    def _merge(self, test: str, a: dict, b: dict) -> dict:
        out = {}
        for k in set(a) | set(b):
            if k in a and k in b:
                out[k] = self._join(test, a[k], b[k])
            else:
                # defined on one arm only: keep it (reads on the other arm would have failed)
                out[k] = a.get(k, b.get(k))
        return out

    def for_stmt(self, st: ast.For, fr: Frame) -> str:
        it = st.iter
        # generic iteration: bind the target to the domain's loop index
        if isinstance(st.target, ast.Name):
            tname = st.target.id
            if isinstance(it, ast.Call) and unparse(it.func) in ("range", "numba.prange", "prange", "enumerate"):
                fr.env[tname] = self.dom.loop_index(tname, it, self)
                fr.loopvars.add(tname)
            else:
                itv = self.eval(it, fr)
                if isinstance(itv, Tup) and itv.items:
                    # iterate a literal list: evaluate the body for each element (literal strings are
                    # written into the body, so that `d[name]` is the constant-key access of the unrolled code)
                    status = "fall"
                    lits = list(it.elts) if isinstance(it, (ast.Tuple, ast.List)) and len(it.elts) == len(itv.items) else [None] * len(itv.items)
                    for item, lit in zip(itv.items, lits):
                        fr.env[tname] = item
                        body = st.body
                        if isinstance(lit, ast.Constant) and isinstance(lit.value, str):
                            import copy

                            from .program import _Subst

                            body = [ast.fix_missing_locations(_Subst({tname: lit}).visit(copy.deepcopy(b))) for b in st.body]
                        status = self.block(body, fr)
                        if status in ("return", "raise"):
                            return status
                    return "fall"
                fr.env[tname] = Ref(f"item({_path(itv) if isinstance(itv, Ref) else unparse(it)})")
                fr.loopvars.add(tname)
        elif isinstance(st.target, ast.Tuple) and isinstance(it, (ast.Tuple, ast.List)) and it.elts and all(isinstance(e, (ast.Tuple, ast.List)) and len(e.elts) == len(st.target.elts) for e in it.elts):
            # table-driven loop over a literal tuple of tuples: the body once per row
            import copy

            from .program import _Subst

            for row in it.elts:
                self.assign(st.target, Tup([self.eval(x, fr) for x in row.elts]), fr, st)
                # literal columns (variable names) are written into the body, so that `vars[name]` is the
                # constant-key access it would be in the unrolled code
                consts = {t.id: x for t, x in zip(st.target.elts, row.elts) if isinstance(t, ast.Name) and isinstance(x, ast.Constant)}
                body = [ast.fix_missing_locations(_Subst(consts).visit(copy.deepcopy(b))) for b in st.body] if consts else st.body
                status = self.block(body, fr)
                if status in ("return", "raise"):
                    return status
            return "fall"
        elif isinstance(st.target, ast.Tuple):
            for e in st.target.elts:
                if isinstance(e, ast.Name):
                    fr.env[e.id] = Ref(f"item:{e.id}")
                    fr.loopvars.add(e.id)
        else:
            raise Unsupported(f"{fr.fi.loc(st)}: unsupported loop target {short(st.target)}")
        status = self.block(st.body, fr)
        if status == "return":
            return "return"
        return "fall"  # break / continue / raise inside one generic iteration end that iteration only

    def _update_aliases(self, st: ast.Assign, fr: Frame) -> None:
        """Local names bound to one array object: `U = V = <array expression>` and `A = B`.
        An in-place update of one of them (A += x, A[m] = y) is an update of all of them."""
        # name = <object path> / a, b = <path>, <path>: remember which object array the name denotes
        pairs = []
        for t in st.targets:
            if isinstance(t, ast.Name):
                pairs.append((t, st.value))
            elif isinstance(t, (ast.Tuple, ast.List)) and isinstance(st.value, (ast.Tuple, ast.List)) and len(t.elts) == len(st.value.elts):
                pairs += [(a, b) for a, b in zip(t.elts, st.value.elts) if isinstance(a, ast.Name)]
        for a, b in pairs:
            fr.objalias.pop(a.id, None)
            fr.funcalias.pop(a.id, None)
            if isinstance(b, ast.Attribute):
                fr.funcalias[a.id] = b  # used only when the name is called
            if isinstance(b, (ast.Attribute, ast.Subscript)):
                pth = self.path_of(b, fr)
                if pth is not None and pth in self.objenv:
                    fr.objalias[a.id] = pth
            elif isinstance(b, ast.Name) and b.id in fr.objalias:
                fr.objalias[a.id] = fr.objalias[b.id]
        names = [t.id for t in st.targets if isinstance(t, ast.Name)]
        for n in names:  # rebinding leaves the old group
            for m in fr.alias.pop(n, set()):
                if m != n and m in fr.alias:
                    fr.alias[m].discard(n)
        v = st.value
        scalar_literal = isinstance(v, ast.Constant) or (isinstance(v, ast.UnaryOp) and isinstance(v.operand, ast.Constant))
        if scalar_literal or not names:
            return
        group = set(names)
        if isinstance(v, ast.Name) and isinstance(fr.env.get(v.id), (Ref,)) is False and v.id in fr.env and not isinstance(fr.env.get(v.id), (int, float, bool, str, type(None), Tup)):
            group |= {v.id} | set(fr.alias.get(v.id, ()))
        elif len(names) < 2:
            return
        if len(group) > 1:
            for n in group:
                fr.alias[n] = set(group)

    # ------------------------------------------------------------------
    def decide(self, test: ast.expr, fr: Frame):
        if self.decide_hook is not None:
            d = self.decide_hook(test, fr, self)
            if d is not None:
                return d
        # short-circuit connectives: decided operand by operand (`out is None or len(out[0]) != n`)
        if isinstance(test, ast.BoolOp):
            is_or = isinstance(test.op, ast.Or)
            undecided = False
            for operand in test.values:
                d = self.decide(operand, fr)
                if d is None:
                    undecided = True
                    continue
                if d is is_or and not undecided:
                    return is_or  # an earlier-or-this operand settles it and nothing undecided precedes it
                if d is is_or:
                    break
            else:
                if not undecided:
                    return not is_or
            if undecided:
                pass  # fall through to the evaluation below
        if isinstance(test, ast.UnaryOp) and isinstance(test.op, ast.Not):
            d = self.decide(test.operand, fr)
            if d is not None:
                return not d
        try:
            v = self.eval(test, fr)
        except Unsupported:
            return None
        if isinstance(v, bool):
            return v
        if v is None:
            return False
        if isinstance(v, str):
            return bool(v)
        if isinstance(v, Tup):
            return bool(v.items)
        return None

    # ------------------------------------------------------------------
    # assignment
    # ------------------------------------------------------------------
    def assign(self, target: ast.expr, v, fr: Frame, st: ast.AST, element_store: bool = False) -> None:
        if isinstance(target, ast.Name):
            cur = fr.env.get(target.id)
            if element_store and isinstance(cur, Ref) and "." in cur.path and not cur.path.startswith(("item", "call:", "obj:", "slice:", "str:", "default:", "const:", "nonnum:", "seq:")):
                # store through a local alias of an object (ncvars = self.nc.variables; ncvars[k][i] = v)
                self.objenv[cur.path] = v
                return
            fr.env[target.id] = v
            if element_store and target.id in fr.objalias:
                # A = obj.arr; A[m] = v  writes obj.arr itself
                self.objenv[fr.objalias[target.id]] = v
            return
        if isinstance(target, (ast.Tuple, ast.List)):
            if isinstance(v, Rec):
                v = Tup(list(v.fields.values()))
            if isinstance(v, Tup) and len(v.items) == len(target.elts):
                for t, x in zip(target.elts, v.items):
                    self.assign(t, x, fr, st)
                return
            if isinstance(v, Phi) and isinstance(v.a, Tup) and isinstance(v.b, Tup):
                for i, t in enumerate(target.elts):
                    self.assign(t, self._join(v.test, v.a.items[i], v.b.items[i]), fr, st)
                return
            if isinstance(v, Ref):
                for i, t in enumerate(target.elts):
                    self.assign(t, Ref(f"{v.path}[{i}]"), fr, st)
                return
            raise Unsupported(f"{fr.fi.loc(st)}: cannot destructure {v!r} into {short(target)}")
        if isinstance(target, ast.Attribute) or (isinstance(target, ast.Subscript) and _const_key(target)):
            path = self.path_of(target, fr)
            if path is not None:
                self.objenv[path] = v
                return
        if isinstance(target, ast.Subscript):
            base = target.value
            if self._is_loopvar_index(target, fr):
                # Xp[i] = e(X[i], ...)  -> Xp is e(X, ...) element-wise
                bp = self.path_of(base, fr)
                if bp in self.prog.role_class:
                    # state[name] = ... inside a loop over names: one generic item of the role object
                    self.objenv[f"{bp}.<item>"] = v
                    return
                self.assign(base, v, fr, st, element_store=True)
                self._mark_mutated(base, fr)
                return
            if _is_full_slice(target.slice):
                self.assign(base, v, fr, st, element_store=True)
                self._mark_mutated(base, fr)
                return
            # masked / indexed store
            mask = self.eval(target.slice, fr)
            saved = self.dom.refine_for_mask(fr.env, mask, False) if hasattr(self.dom, "refine_for_mask") else None
            try:
                old = self.eval(base, fr)
            except Unsupported:
                old = Ref("undef")
            finally:
                if saved:
                    fr.env.update(saved)
            val = self.dom.where(mask, self.num(v) if not isinstance(v, (Tup, Phi)) else v, self.num(old), st)
            self.assign(base, val, fr, st, element_store=True)
            self._mark_mutated(base, fr)
            return
        if isinstance(target, ast.Starred):
            raise Unsupported(f"{fr.fi.loc(st)}: starred assignment")
        raise Unsupported(f"{fr.fi.loc(st)}: unsupported assignment target {short(target)}")

    def _mark_mutated(self, base: ast.expr, fr: Frame) -> None:
        if isinstance(base, ast.Name) and base.id in fr.fi.params:
            fr.mutated.add(base.id)

    def _is_loopvar_index(self, sub: ast.Subscript, fr: Frame) -> bool:
        s = sub.slice
        return isinstance(s, ast.Name) and s.id in fr.loopvars and not isinstance(fr.env.get(s.id), Tup)

    # ------------------------------------------------------------------
    # paths
    # ------------------------------------------------------------------
    def path_of(self, node: ast.expr, fr: Frame) -> Optional[str]:
        """Canonical access path of an attribute / constant-key subscript chain."""
        if isinstance(node, ast.Name):
            if node.id == "self" and fr.self_path:
                return fr.self_path
            v = fr.env.get(node.id)
            if isinstance(v, Ref):
                return v.path
            return None
        if isinstance(node, ast.Attribute):
            b = self.path_of(node.value, fr)
            if b is None:
                return None
            return self._canon(f"{b}.{node.attr}", fr)
        if isinstance(node, ast.Subscript) and _const_key(node):
            b = self.path_of(node.value, fr)
            if b is None and isinstance(node.value, ast.Name) and node.value.id in fr.objalias:
                b = fr.objalias[node.value.id]  # fields = self.fields; fields["u"] is self.fields["u"]
            if b is None:
                return None
            key = node.slice.value  # type: ignore[attr-defined]
            if b.endswith("modules") and isinstance(key, str) and key in self.prog.role_class:
                return key
            return self._canon(f"{b}[{key!r}]", fr)
        return None

    def _canon(self, path: str, fr: Frame) -> str:
        # role typing of attributes (self.grid -> grid) from the class' assignments
        head, _, last = path.rpartition(".")
        if head and "[" not in last:
            env = self._tenv(fr.fi) if head == fr.self_path else {}
            role = env.get(f"self.{last}")
            if role:
                return role
        # State: state.X == state['X'] == state.variables['X']
        for pre in ("state.variables[", "state["):
            if path.startswith(pre) and path.endswith("]"):
                return "state." + path[len(pre) + 1 : -2]
        return path

    def _tenv(self, fi: FuncInfo) -> dict:
        k = fi.qual
        if k not in self._tenv_cache:
            self._tenv_cache[k] = self.prog.type_env(fi)
        return self._tenv_cache[k]

    # ------------------------------------------------------------------
    # expressions
    # ------------------------------------------------------------------
    def num(self, v):
        """Coerce to a domain value."""
        if self.dom.is_value(v):
            return v
        if isinstance(v, bool):
            return self.dom.const(int(v))
        if isinstance(v, Ref):
            return self.dom.atom(v.path)
        if isinstance(v, (Phi, Tup)):
            return v
        if v is None:
            raise Unsupported("None used as a number")
        if isinstance(v, str):
            raise Unsupported(f"string {v!r} used as a number")
        return v

    def eval(self, node: ast.expr, fr: Frame):
        if isinstance(node, ast.Constant):
            return self._pyconst(node.value)
        if isinstance(node, ast.Name):
            if node.id in fr.env:
                v = fr.env[node.id]
                if isinstance(v, Ref) and v.path in self.objenv and "." in v.path:
                    # a local alias of an object array (active = state.active): read the array's current value
                    return self.objenv[v.path]
                return v
            if node.id == "self":
                return Ref(fr.self_path or "self")
            mi = fr.fi.module
            if node.id in mi.constants:
                try:
                    return self._pyconst(ast.literal_eval(mi.constants[node.id]))
                except Exception:
                    return Ref(f"{mi.name}.{node.id}")
            if node.id in ("True", "False", "None"):
                return {"True": True, "False": False, "None": None}[node.id]
            return Ref(node.id)
        if isinstance(node, ast.Attribute):
            return self.eval_attr(node, fr)
        if isinstance(node, ast.Subscript):
            return self.eval_subscript(node, fr)
        if isinstance(node, ast.BinOp):
            a = self.eval(node.left, fr)
            b = self.eval(node.right, fr)
            if isinstance(a, str) or isinstance(b, str):
                return Ref("str:" + unparse(node))
            if isinstance(a, Tup) or isinstance(b, Tup):
                if isinstance(a, Tup) and isinstance(b, Tup) and isinstance(node.op, ast.Add):
                    return Tup(a.items + b.items)
                return Ref("seq:" + unparse(node))
            return self._binop(node.op, a, b, node)
        if isinstance(node, ast.UnaryOp):
            a = self.eval(node.operand, fr)
            if isinstance(node.op, ast.Not):
                if isinstance(a, bool):
                    return not a
                if a is None:
                    return True
                if isinstance(a, str):
                    return not a
                r = self.dom.unop(node.op, self.num(a), node) if self.dom.is_value(a) or isinstance(a, Ref) else None
                return r if r is not None else Ref("not:" + unparse(node.operand))
            return self._unop(node.op, a, node)
        if isinstance(node, ast.Compare):
            return self.eval_compare(node, fr)
        if isinstance(node, ast.BoolOp):
            vals = [self.eval(v, fr) for v in node.values]
            if all(isinstance(v, bool) or v is None for v in vals):
                bs = [bool(v) for v in vals]
                return all(bs) if isinstance(node.op, ast.And) else any(bs)
            r = self.dom.boolop(node.op, vals, node)
            return r if r is not None else Ref("bool:" + unparse(node))
        if isinstance(node, ast.Call):
            return self.eval_call(node, fr)
        if isinstance(node, (ast.Tuple, ast.List)):
            items = []
            for e in node.elts:
                if isinstance(e, ast.Starred):
                    v = self.eval(e.value, fr)
                    if isinstance(v, Tup):
                        items.extend(v.items)
                    else:
                        items.append(Ref("*" + unparse(e.value)))
                else:
                    items.append(self.eval(e, fr))
            return Tup(items)
        if isinstance(node, ast.IfExp):
            d = self.decide(node.test, fr)
            if d is True:
                return self.eval(node.body, fr)
            if d is False:
                return self.eval(node.orelse, fr)
            return self._join(unparse(node.test), self.eval(node.body, fr), self.eval(node.orelse, fr))
        if isinstance(node, ast.Slice):
            lo = vtext(self.eval(node.lower, fr)) if node.lower is not None else ""
            hi = vtext(self.eval(node.upper, fr)) if node.upper is not None else ""
            st = (":" + vtext(self.eval(node.step, fr))) if node.step is not None else ""
            return Ref(f"slice:{lo}:{hi}{st}")
        if isinstance(node, ast.JoinedStr):
            return Ref("str:" + unparse(node))
        if isinstance(node, ast.DictComp) and len(node.generators) == 1:
            g = node.generators[0]
            saved = dict(fr.env)
            try:
                tgts = g.target.elts if isinstance(g.target, ast.Tuple) else [g.target]
                for t in tgts:
                    if isinstance(t, ast.Name):
                        fr.env[t.id] = Ref("item")
                try:
                    v = self.eval(node.value, fr)
                except Unsupported:
                    return Ref("obj:" + unparse(node))
            finally:
                fr.env = saved
            return MapV(v, unparse(node))
        if isinstance(node, (ast.Dict, ast.Set, ast.ListComp, ast.DictComp, ast.SetComp, ast.GeneratorExp, ast.Lambda)):
            return Ref("obj:" + unparse(node))
        if isinstance(node, ast.Starred):
            return self.eval(node.value, fr)
        raise Unsupported(f"{fr.fi.loc(node)}: unsupported expression {type(node).__name__}: {short(node)}")

    def _binop(self, op, a, b, node):
        if isinstance(a, Phi) or isinstance(b, Phi):
            # distribute over a two-armed value
            if isinstance(a, Phi):
                return self._join(a.test, self._binop(op, a.a, b, node), self._binop(op, a.b, b, node), a.cond)
            return self._join(b.test, self._binop(op, a, b.a, node), self._binop(op, a, b.b, node), b.cond)
        if isinstance(a, (Tup, str, MapV)) or isinstance(b, (Tup, str, MapV)) or a is None or b is None:
            return Ref("nonnum:" + short(node, 60))
        return self.dom.binop(op, self.num(a), self.num(b), node)

    def _unop(self, op, a, node):
        if isinstance(a, Phi):
            return self._join(a.test, self._unop(op, a.a, node), self._unop(op, a.b, node), a.cond)
        return self.dom.unop(op, self.num(a), node)

    def eval_attr(self, node: ast.Attribute, fr: Frame):
        if self.attr_hook is not None:
            r = self.attr_hook(node, fr, self)
            if r is not NotImplemented:
                return r
        path = self.path_of(node, fr)
        if path is not None:
            if path in self.objenv:
                return self.objenv[path]
            return Ref(path)
        base = self.eval(node.value, fr)
        if isinstance(base, Rec):
            if node.attr in base.fields:
                return base.fields[node.attr]
            prop = self.prog.modules[base.cls[0]].functions.get(f"{base.cls[1]}.{node.attr}")
            if prop is not None and any(unparse(d) in ("property", "functools.cached_property", "cached_property") for d in prop.node.decorator_list):
                if fr.depth >= self.max_depth + 2:
                    return Ref(f"call:{prop.qual}")
                result, _ = self.run(prop, {"self": base}, None, depth=fr.depth + 1)
                return result
            raise Unsupported(f"{fr.fi.loc(node)}: {base.cls[1]} has no field {node.attr}")
        if self.dom.is_value(base) or isinstance(base, Phi):
            r = self._dom_call("." + node.attr, [base], {}, node)
            if r is not NotImplemented:
                return r
            if node.attr in ("dtype", "itemsize", "nbytes", "flags"):
                return Ref(f"meta:{short(node)}")  # storage metadata: says nothing about the values
            raise Unsupported(f"{fr.fi.loc(node)}: attribute .{node.attr} of an abstract value: {short(node)}")
        if isinstance(base, Ref):
            p = f"{base.path}.{node.attr}"
            return self.objenv.get(p, Ref(p))
        if isinstance(base, Tup) and node.attr in ("size",):
            return self.dom.const(len(base.items))
        return Ref(unparse(node))

    def eval_subscript(self, node: ast.Subscript, fr: Frame):
        if _const_key(node):
            path = self.path_of(node, fr)
            if path is not None:
                if path in self.objenv:
                    return self.objenv[path]
                if not isinstance(node.slice.value, int):  # type: ignore[attr-defined]
                    return Ref(path)
        base = self.eval(node.value, fr)
        if isinstance(base, MapV):
            return base.value
        if isinstance(base, Tup):
            if isinstance(node.slice, ast.Constant) and isinstance(node.slice.value, int):
                return base.items[node.slice.value]
            return Ref("item:" + unparse(node))
        if self._is_loopvar_index(node, fr):
            return base  # element-wise abstraction X[n] -> X
        sl = node.slice
        if fr.mask_ctx is not None and unparse(sl) == fr.mask_ctx:
            return base  # B[m] on the right of A[m] = ...: same element
        if _is_full_slice(sl) or _is_newaxis_slice(sl):
            return base
        idx_nodes = list(sl.elts) if isinstance(sl, ast.Tuple) else [sl]
        idx = []
        for e in idx_nodes:
            if isinstance(e, ast.Slice):
                idx.append(("slice", self.eval(e.lower, fr) if e.lower else None, self.eval(e.upper, fr) if e.upper else None))
            else:
                v = self.eval(e, fr)
                if isinstance(e, ast.Name) and e.id in fr.loopvars and not self.dom.is_value(v):
                    v = self.dom.atom(e.id)
                idx.append(v)
        return self.dom.elem(base, unparse(node.value), idx, node, self)

    def eval_compare(self, node: ast.Compare, fr: Frame):
        left = self.eval(node.left, fr)
        result = True
        for op, rnode in zip(node.ops, node.comparators):
            right = self.eval(rnode, fr)
            r = self._cmp(op, left, right, node)
            if r is False:
                return False
            if r is not True:
                result = r if result is True else Ref("cmp:" + unparse(node))
            left = right
        return result

    def _cmp(self, op, a, b, node):
        pyconst = lambda v: v is None or isinstance(v, (str, bool))
        if isinstance(op, (ast.Is, ast.IsNot)):
            if pyconst(a) and pyconst(b):
                return (a is b) if isinstance(op, ast.Is) else (a is not b)
            if b is None and (self.dom.is_value(a) or isinstance(a, (Tup, Phi))):
                return isinstance(op, ast.IsNot)
            return Ref("cmp:" + unparse(node))
        if isinstance(op, (ast.In, ast.NotIn)):
            if isinstance(b, Tup) and pyconst(a) and all(pyconst(x) for x in b.items):
                r = a in b.items
                return r if isinstance(op, ast.In) else not r
            return Ref("cmp:" + unparse(node))
        if pyconst(a) and pyconst(b):
            if isinstance(op, ast.Eq):
                return a == b
            if isinstance(op, ast.NotEq):
                return a != b
        if pyconst(a) or pyconst(b):
            if (isinstance(a, str) and self.dom.is_value(b)) or (isinstance(b, str) and self.dom.is_value(a)):
                return isinstance(op, ast.NotEq)
            return Ref("cmp:" + unparse(node))
        if isinstance(a, (Tup, Phi)) or isinstance(b, (Tup, Phi)):
            return Ref("cmp:" + unparse(node))
        r = self.dom.compare(op, self.num(a), self.num(b), node)
        return r if r is not None else Ref("cmp:" + unparse(node))

    # ------------------------------------------------------------------
    def eval_call(self, node: ast.Call, fr: Frame):
        if isinstance(node.func, ast.Name) and node.func.id in fr.funcalias:
            # normal = self.rng.normal; normal(size=n)  is  self.rng.normal(size=n)
            node = ast.copy_location(ast.Call(func=fr.funcalias[node.func.id], args=node.args, keywords=node.keywords), node)
        if self.call_hook is not None:
            r = self.call_hook(node, fr, self)
            if r is not NotImplemented:
                return r
        fname = unparse(node.func)
        r = self._record_call(node, fr)
        if r is not NotImplemented:
            return r
        # resolution to a repository function
        targets = []
        try:
            targets = self.prog.resolve_call(fr.fi, node, self._tenv(fr.fi))
        except AnalysisError:
            targets = []
        recv_path = None
        if isinstance(node.func, ast.Attribute):
            recv_path = self.path_of(node.func.value, fr)
            if not targets and recv_path in self.prog.role_class:
                try:
                    targets = [self.prog.role_func(recv_path, node.func.attr)]
                except AnalysisError:
                    targets = []
        if len(targets) == 1 and targets[0].name != "__init__":
            callee = targets[0]
            if fr.depth < self.max_depth:
                return self.inline(callee, node, fr, recv_path)
            return Ref(f"call:{callee.qual}")
        # library / builtin
        args = [self.eval(a, fr) for a in node.args if not isinstance(a, ast.Starred)]
        if any(isinstance(a, ast.Starred) for a in node.args):
            return Ref("call:" + fname)
        kwargs = {k.arg: self.eval(k.value, fr) for k in node.keywords if k.arg}
        if isinstance(node.func, ast.Attribute):
            recv = self.eval(node.func.value, fr)
            # a local list used as an accumulator: Us.append(U) / Us.extend([..])
            if isinstance(recv, Tup) and isinstance(node.func.value, ast.Name) and node.func.attr in ("append", "extend") and len(args) == 1:
                add = [args[0]] if node.func.attr == "append" else (list(args[0].items) if isinstance(args[0], Tup) else None)
                if add is not None:
                    fr.env[node.func.value.id] = Tup(list(recv.items) + add)
                    return None
            if self.dom.is_value(recv) or isinstance(recv, (Phi, Tup)):
                r = self._dom_call("." + node.func.attr, [recv] + args, kwargs, node)
                if r is not NotImplemented:
                    return r
                return Ref(f"call:{short(node, 60)}")
        r = self._dom_call(fname, args, kwargs, node)
        if r is not NotImplemented:
            # numpy's out= keyword: the result is also stored in place
            for k in node.keywords:
                if k.arg == "out" and isinstance(k.value, ast.Name):
                    self.assign(k.value, r, fr, node, element_store=True)
                    self._mark_mutated(k.value, fr)
                elif k.arg == "out" and isinstance(k.value, (ast.Attribute, ast.Subscript)) and self.path_of(k.value, fr) is not None:
                    self.assign(k.value, r, fr, node)
            return r
        if fname.split(".")[0] not in ("logger", "logging", "print"):
            self.unresolved_calls.append(f"{fr.fi.qual}: {short(node, 70)}")
        return Ref(f"call:{short(node, 60)}")

    def _record_call(self, node: ast.Call, fr: Frame):
        """Value classes of the repository: construction, classmethods / staticmethods called on the
        class, methods called on an instance, _replace. NotImplemented when the call is none of these."""
        f = node.func
        cls = None
        if isinstance(f, ast.Name):
            v = fr.env.get(f.id)
            if isinstance(v, ClsRef):
                cls = v.cls
            elif f.id not in fr.env:
                cls = self.prog.record_class_of(fr.fi, f.id)
            if cls is None:
                return NotImplemented
            fields = self.prog.record_fields(*cls)
            if any(isinstance(a, ast.Starred) for a in node.args) or any(k.arg is None for k in node.keywords):
                return NotImplemented
            vals: dict = {}
            for (name, _d), a in zip(fields, node.args):
                vals[name] = self.eval(a, fr)
            for k in node.keywords:
                vals[k.arg] = self.eval(k.value, fr)
            for name, d in fields:
                if name not in vals:
                    if d is None:
                        raise Unsupported(f"{fr.fi.loc(node)}: field {name} of {cls[1]} not given")
                    vals[name] = self._const_default(d)
            return Rec(cls, {name: vals[name] for name, _ in fields})
        if not isinstance(f, ast.Attribute):
            return NotImplemented
        recv = None
        if isinstance(f.value, ast.Name):
            v = fr.env.get(f.value.id)
            if isinstance(v, ClsRef):
                cls = v.cls
            elif isinstance(v, Rec):
                recv = v
            elif f.value.id not in fr.env and f.value.id != "self":
                cls = self.prog.record_class_of(fr.fi, f.value.id)
        if cls is None and recv is None:
            if isinstance(f.value, (ast.Call, ast.Attribute, ast.Subscript)):
                try:
                    v = self.eval(f.value, fr)
                except Unsupported:
                    return NotImplemented
                if isinstance(v, Rec):
                    recv = v
        if cls is None and recv is None:
            return NotImplemented
        owner = cls or recv.cls
        if recv is not None and f.attr == "_replace" and not node.args:
            new = dict(recv.fields)
            for k in node.keywords:
                new[k.arg] = self.eval(k.value, fr)
            return Rec(recv.cls, new)
        if recv is not None and f.attr == "_asdict":
            return NotImplemented
        callee = self.prog.modules[owner[0]].functions.get(f"{owner[1]}.{f.attr}")
        if callee is None:
            return NotImplemented
        decos = [unparse(d) for d in callee.node.decorator_list]
        params = list(callee.params)
        extra: dict = {}
        if "staticmethod" in decos:
            pass
        elif "classmethod" in decos:
            extra[params[0]] = ClsRef(owner)
            params = params[1:]
        else:
            if recv is None:
                return NotImplemented
            extra[params[0]] = recv
            params = params[1:]
        if any(isinstance(a, ast.Starred) for a in node.args) or any(k.arg is None for k in node.keywords):
            return NotImplemented
        args = dict(extra)
        for p_, a in zip(params, node.args):
            args[p_] = self.eval(a, fr)
        for k in node.keywords:
            args[k.arg] = self.eval(k.value, fr)
        self.trace.append((fr.fi.qual, node))
        try:
            result, _cfr = self.run(callee, args, None, depth=fr.depth + 1)
        finally:
            self.trace.pop()
        return result

    def _dom_call(self, fname, args, kwargs, node):
        """Domain call, distributed over two-armed arguments."""
        for i, a in enumerate(args):
            if isinstance(a, Phi) and fname not in ("np.where",):
                ra = self._dom_call(fname, args[:i] + [a.a] + args[i + 1 :], kwargs, node)
                rb = self._dom_call(fname, args[:i] + [a.b] + args[i + 1 :], kwargs, node)
                if ra is NotImplemented or rb is NotImplemented:
                    return NotImplemented
                return self._join(a.test, ra, rb, a.cond)
        return self.dom.call(fname, args, kwargs, node, self)

    def inline(self, callee: FuncInfo, node: ast.Call, fr: Frame, recv_path: Optional[str]):
        if any(isinstance(a, ast.Starred) for a in node.args):
            # f(a, *limits): expand starred tuples whose abstract value is a Tup of known length
            import copy

            new_args = []
            tmp_names = {}
            for a in node.args:
                if isinstance(a, ast.Starred):
                    v = self.eval(a.value, fr)
                    if not isinstance(v, Tup):
                        raise Unsupported(f"{fr.fi.loc(node)}: starred argument with unknown length in {short(node)}")
                    for i, item in enumerate(v.items):
                        nm = f"__star{len(tmp_names)}"
                        tmp_names[nm] = item
                        new_args.append(ast.Name(id=nm, ctx=ast.Load()))
                else:
                    new_args.append(a)
            node2 = ast.Call(func=node.func, args=new_args, keywords=node.keywords)
            ast.copy_location(node2, node)
            saved = {k: fr.env.get(k) for k in tmp_names}
            fr.env.update(tmp_names)
            try:
                return self.inline(callee, ast.fix_missing_locations(node2), fr, recv_path)
            finally:
                for k in tmp_names:
                    fr.env.pop(k, None)
        bound = bind_args(callee, node)
        args = {}
        arg_nodes = {}
        for name, expr in bound.items():
            if name in callee.defaults() and expr is callee.defaults()[name]:
                args[name] = self._const_default(expr)
            else:
                args[name] = self.eval(expr, fr)
                arg_nodes[name] = expr
        if callee.cls:
            if isinstance(node.func, ast.Attribute) and unparse(node.func.value) == "self":
                self_path = fr.self_path
            else:
                self_path = recv_path
                if self_path is None:
                    role = self.prog.role_of_class(callee.module.name, callee.cls)
                    self_path = role or callee.cls
        else:
            self_path = None
        self.trace.append((fr.fi.qual, node))
        try:
            result, cfr = self.run(callee, args, self_path, depth=fr.depth + 1)
        finally:
            self.trace.pop()
        # write back in-place mutations of array arguments
        for p in cfr.mutated:
            if p in arg_nodes and isinstance(arg_nodes[p], ast.Name):
                fr.env[arg_nodes[p].id] = cfr.env[p]
                if arg_nodes[p].id in fr.fi.params:
                    fr.mutated.add(arg_nodes[p].id)
        return result

    def chain(self) -> str:
        return " -> ".join(f"{q}@{getattr(n, 'lineno', '?')}" for q, n in self.trace)


# ----------------------------------------------------------------------
def _load(t: ast.expr) -> ast.expr:
    import copy

    n = copy.deepcopy(t)
    for sub in ast.walk(n):
        if hasattr(sub, "ctx"):
            sub.ctx = ast.Load()
    return n


def _const_key(node: ast.Subscript) -> bool:
    return isinstance(node.slice, ast.Constant) and isinstance(node.slice.value, (str, int))


def _is_full_slice(s: ast.expr) -> bool:
    if isinstance(s, ast.Slice):
        return s.lower is None and s.upper is None and s.step is None
    if isinstance(s, ast.Constant) and s.value is Ellipsis:
        return True
    if isinstance(s, ast.Tuple):
        return all(_is_full_slice(e) for e in s.elts)
    return False


def _is_newaxis_slice(s: ast.expr) -> bool:
    if isinstance(s, ast.Tuple):
        return all(
            _is_full_slice(e) or (isinstance(e, ast.Constant) and e.value is None) or unparse(e) in ("np.newaxis", "None")
            for e in s.elts
        )
    return False


def vtext(v) -> str:
    """Canonical text of any abstract value."""
    if isinstance(v, Ref):
        return v.path
    if isinstance(v, Phi):
        return f"phi({v.test};{vtext(v.a)};{vtext(v.b)})"
    if isinstance(v, Tup):
        return "(" + ",".join(vtext(x) for x in v.items) + ")"
    if isinstance(v, MapV):
        return "map(" + vtext(v.value) + ")"
    if hasattr(v, "canon"):
        return v.canon()
    return str(v)


def _path(v) -> str:
    return v.path if isinstance(v, Ref) else str(v)


def any_mask_of(test: ast.expr):
    """`m.any()` / `np.any(m)` / `m.sum() > 0`-free forms -> the mask expression m, else None."""
    if isinstance(test, ast.Call) and not test.keywords:
        if isinstance(test.func, ast.Attribute) and test.func.attr == "any" and not test.args:
            return test.func.value
        if unparse(test.func) in ("np.any", "numpy.any", "any") and len(test.args) == 1:
            return test.args[0]
    return None


def any_guard_is_redundant(st: ast.If) -> bool:
    """True for `if m.any(): <body>` without else where every statement of the body is a store
    masked by the same m (A[m] = ..., A[m] op= ...): the guard only saves work, the body is a no-op
    when no element of m is set."""
    m = any_mask_of(st.test)
    if m is None or st.orelse or not st.body:
        return False
    mt = unparse(m)
    for b in st.body:
        if isinstance(b, ast.Assign):
            tg = b.targets
        elif isinstance(b, ast.AugAssign):
            tg = [b.target]
        elif isinstance(b, ast.Expr) and isinstance(b.value, ast.Call) and unparse(b.value.func).split(".")[0] in ("logger", "logging"):
            continue
        else:
            return False
        for t in tg:
            if not (isinstance(t, ast.Subscript) and unparse(t.slice) == mt):
                return False
    return True


def make_flag_decide(flags: dict, prefix: str = "self."):
    """decide_hook that evaluates boolean expressions over configuration flags
    (`self.vertdiff or self.vertical_advection`, `not self.vertdiff and not ...`)."""

    def ev(n):
        if isinstance(n, ast.BoolOp):
            vals = [ev(v) for v in n.values]
            if isinstance(n.op, ast.And):
                if any(v is False for v in vals):
                    return False
                return True if all(v is True for v in vals) else None
            if any(v is True for v in vals):
                return True
            return False if all(v is False for v in vals) else None
        if isinstance(n, ast.UnaryOp) and isinstance(n.op, ast.Not):
            v = ev(n.operand)
            return None if v is None else not v
        t = unparse(n)
        if t.startswith(prefix) and t[len(prefix):] in flags:
            return bool(flags[t[len(prefix):]])
        return None

    def decide(test, fr, it):
        return ev(test)

    return decide
