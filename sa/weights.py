"""Interpolation-weight identities: given the normal form of an interpolated value, extract
the coefficient of every node atom and compare with the tensor-product (multi-linear) weights."""

from __future__ import annotations

from dataclasses import dataclass
from fractions import Fraction
from itertools import product
from typing import Optional

from .nf import NF
from .nfdomain import NFDomain


@dataclass
class Axis:
    name: str  # "x", "y", "k"
    pos: int  # index position in the subscript
    base: NF  # integer base index
    frac: NF  # weight of the node at base + hi
    lo: int  # offset of the node that gets (1 - frac)
    hi: int  # offset of the node that gets frac


def node_weights(value: NF, dom: NFDomain, array: str) -> tuple[dict[tuple, NF], NF, list[str]]:
    """-> ({index-NF-tuple-canon: weight}, residual, problems) for element atoms of ``array``."""
    problems = []
    weights: dict[str, NF] = {}
    residual = value
    for atom in sorted(value.atoms()):
        info = dom.elem_info.get(atom)
        if info is None or info[0] != array:
            continue
        try:
            w = value.coeff(atom)
        except ValueError as e:
            problems.append(str(e))
            continue
        if value.degree(atom) != 1:
            problems.append(f"value is not linear in {atom}")
        weights[atom] = w
        residual = residual - w * NF.atom(atom)
    return weights, residual, problems


def check_multilinear(value: NF, dom: NFDomain, array: str, axes: list[Axis]) -> list[tuple[str, bool, str]]:
    """Obligations (name, ok, detail) saying that ``value`` is the multi-linear interpolant of
    ``array`` on the stencil spanned by ``axes``."""
    out = []
    weights, residual, problems = node_weights(value, dom, array)
    for p in problems:
        out.append(("structure", False, p))
    out.append(("no term besides the node values", residual.is_zero(), f"residual {residual}"))
    expected_nodes = {}
    for offs in product(*[(a.lo, a.hi) for a in axes]):
        w = NF.const(1)
        for a, o in zip(axes, offs):
            w = w * (a.frac if o == a.hi else (1 - a.frac))
        expected_nodes[offs] = w
    found = {}
    for atom, w in weights.items():
        idx = dom.elem_info[atom][1]
        offs = []
        ok = True
        for a in axes:
            if a.pos >= len(idx) or not isinstance(idx[a.pos], NF):
                ok = False
                break
            d = idx[a.pos] - a.base
            if not d.is_const() or d.const_value().denominator != 1:
                ok = False
                break
            offs.append(int(d.const_value()))
        if not ok:
            out.append((f"node {atom}", False, f"index is not base + constant on every axis (bases {[str(a.base) for a in axes]})"))
            continue
        found[tuple(offs)] = found.get(tuple(offs), NF.const(0)) + w
    out.append((f"stencil = {len(expected_nodes)} surrounding nodes", set(found) == set(expected_nodes), f"offsets used {sorted(found)}, expected {sorted(expected_nodes)}"))
    total = sum(found.values(), NF.const(0))
    out.append(("weights sum to 1", total == NF.const(1), f"sum = {total}"))
    for i, a in enumerate(axes):
        # linear precision: sum w * offset = lo + frac*(hi-lo)
        mom = sum((w * offs[i] for offs, w in found.items()), NF.const(0))
        want = NF.const(a.lo) + a.frac * (a.hi - a.lo)
        out.append((f"linear precision along {a.name}", mom == want, f"sum w*offset = {mom}, required {want}"))
    for offs, w in sorted(expected_nodes.items()):
        got = found.get(offs)
        out.append((f"weight of node offset {offs}", got is not None and got == w, f"weight {got}, required {w} (product of the per-axis factors: convex combination)"))
    return out
