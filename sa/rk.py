"""Butcher-tableau extraction from Runge-Kutta style velocity samplers, and the
order conditions (exact rational arithmetic)."""

from __future__ import annotations

import ast
from dataclasses import dataclass, field
from fractions import Fraction
from typing import Any, Optional

from .interp import Interp, Phi, Ref, Tup, Unsupported
from .nf import NF
from .nfdomain import NFDomain
from .program import AnalysisError, FuncInfo, Program, short, unparse


@dataclass
class Stage:
    k: int
    px: NF  # x position passed to the oracle
    py: NF
    c: Optional[NF]  # time fraction (None if the oracle has no time argument)
    z_ok: bool
    node: ast.Call


@dataclass
class Tableau:
    fi: FuncInfo
    stages: list[Stage] = field(default_factory=list)
    A: list[list[NF]] = field(default_factory=list)  # from x
    Ay: list[list[NF]] = field(default_factory=list)  # from y
    b: list[NF] = field(default_factory=list)
    by: list[NF] = field(default_factory=list)
    c: list[NF] = field(default_factory=list)
    problems: list[str] = field(default_factory=list)
    mutated_params: set = field(default_factory=set)


def order_conditions(A: list[list[NF]], b: list[NF], c: list[NF], p: int) -> list[tuple[str, NF, Fraction]]:
    """(name, lhs, rhs) for all order conditions up to order p (explicit RK, trees up to order 4)."""
    s = len(b)
    R = range(s)
    out = []
    S = lambda it: sum(it, NF.const(0))
    if p >= 1:
        out.append(("order 1: sum b_i = 1", S(b[i] for i in R), Fraction(1)))
    if p >= 2:
        out.append(("order 2: sum b_i c_i = 1/2", S(b[i] * c[i] for i in R), Fraction(1, 2)))
    if p >= 3:
        out.append(("order 3: sum b_i c_i^2 = 1/3", S(b[i] * c[i] * c[i] for i in R), Fraction(1, 3)))
        out.append(("order 3: sum b_i a_ij c_j = 1/6", S(b[i] * A[i][j] * c[j] for i in R for j in R), Fraction(1, 6)))
    if p >= 4:
        out.append(("order 4: sum b_i c_i^3 = 1/4", S(b[i] * c[i] ** 3 for i in R), Fraction(1, 4)))
        out.append(("order 4: sum b_i c_i a_ij c_j = 1/8", S(b[i] * c[i] * A[i][j] * c[j] for i in R for j in R), Fraction(1, 8)))
        out.append(("order 4: sum b_i a_ij c_j^2 = 1/12", S(b[i] * A[i][j] * c[j] * c[j] for i in R for j in R), Fraction(1, 12)))
        out.append(
            (
                "order 4: sum b_i a_ij a_jk c_k = 1/24",
                S(b[i] * A[i][j] * A[j][k] * c[k] for i in R for j in R for k in R),
                Fraction(1, 24),
            )
        )
    return out


def extract_tableau(
    prog: Program,
    fi: FuncInfo,
    *,
    oracle,  # callable(node, fr, interp) -> Optional[(px_node, py_node, z_node|None, c_node|None)]
    base: tuple[str, str],  # atoms of the base position
    scale_x: NF,  # displacement = a * U * scale_x
    scale_y: NF,
    args: dict[str, Any],
    self_path: Optional[str] = None,
    noop_calls: tuple[str, ...] = (),
    objenv: Optional[dict] = None,
    tuple_ctors: tuple[str, ...] = (),
    z_atom: Optional[str] = None,
) -> Tableau:
    dom = NFDomain()
    tab = Tableau(fi)

    def hook(node: ast.Call, fr, it: Interp):
        o = oracle(node, fr, it)
        if o is not None:
            pxn, pyn, zn, cn = o
            k = len(tab.stages)
            px = it.num(it.eval(pxn, fr))
            py = it.num(it.eval(pyn, fr))
            cv = None
            if cn is not None:
                cv = it.num(it.eval(cn, fr)) if not isinstance(cn, NF) else cn
            z_ok = True
            if zn is not None and z_atom is not None:
                zv = it.eval(zn, fr)
                z_ok = isinstance(it.num(zv), NF) and it.num(zv) == NF.atom(z_atom)
            tab.stages.append(Stage(k, px, py, cv, z_ok, node))
            return Tup([NF.atom(f"U{k}"), NF.atom(f"V{k}")])
        fname = unparse(node.func)
        if fname in noop_calls:
            return None
        if fname in tuple_ctors:
            items = []
            for a in node.args:
                if isinstance(a, ast.Starred):
                    v = it.eval(a.value, fr)
                    if isinstance(v, Tup):
                        items.extend(v.items)
                    else:
                        raise Unsupported(f"starred non-tuple in {short(node)}")
                else:
                    items.append(it.eval(a, fr))
            return Tup(items)
        return NotImplemented

    it = Interp(prog, dom, depth=3, call_hook=hook)
    if objenv:
        it.objenv.update(objenv)
    result, fr = it.run(fi, dict(args), self_path)
    tab.mutated_params = set(fr.mutated)
    if isinstance(result, Phi):
        tab.problems.append(f"the returned velocity depends on a run-time branch: {result.test}")
        return tab
    if not (isinstance(result, Tup) and len(result.items) == 2):
        tab.problems.append(f"the function does not return a (U, V) pair: {result!r}")
        return tab
    ru, rv = result.items
    if not (isinstance(ru, NF) and isinstance(rv, NF)):
        tab.problems.append(f"returned velocity is not a normal form: {ru!r}, {rv!r}")
        return tab
    s = len(tab.stages)
    if s == 0:
        tab.problems.append("no call to the velocity oracle")
        return tab
    bx, by = NF.atom(base[0]), NF.atom(base[1])
    for st in tab.stages:
        rowx, rowy = [], []
        if not (isinstance(st.px, NF) and isinstance(st.py, NF)):
            tab.problems.append(f"stage {st.k}: the stage position depends on a run-time branch: {st.px!r}"[:200])
            continue
        dx = st.px - bx
        dy = st.py - by
        resx, resy = dx, dy
        for j in range(s):
            try:
                ax = dx.coeff(f"U{j}") / scale_x
                ay = dy.coeff(f"V{j}") / scale_y
            except ValueError as e:
                tab.problems.append(f"stage {st.k}: {e}")
                ax = ay = NF.const(0)
            rowx.append(ax)
            rowy.append(ay)
            resx = resx - ax * NF.atom(f"U{j}") * scale_x
            resy = resy - ay * NF.atom(f"V{j}") * scale_y
        if not resx.is_zero():
            tab.problems.append(f"stage {st.k}: x position is not base + sum a*U*dt/dx (residual {resx})")
        if not resy.is_zero():
            tab.problems.append(f"stage {st.k}: y position is not base + sum a*V*dt/dy (residual {resy})")
        for j in range(st.k, s):
            if not rowx[j].is_zero() or not rowy[j].is_zero():
                tab.problems.append(f"stage {st.k} depends on the later stage {j}")
        tab.A.append(rowx)
        tab.Ay.append(rowy)
        if not st.z_ok:
            tab.problems.append(f"stage {st.k}: the depth passed to the velocity oracle is not the particle depth")
    # weights
    resu, resv = ru, rv
    for j in range(s):
        try:
            bj = ru.coeff(f"U{j}")
            bjy = rv.coeff(f"V{j}")
        except ValueError as e:
            tab.problems.append(f"weights: {e}")
            bj = bjy = NF.const(0)
        tab.b.append(bj)
        tab.by.append(bjy)
        resu = resu - bj * NF.atom(f"U{j}")
        resv = resv - bjy * NF.atom(f"V{j}")
    if not resu.is_zero():
        tab.problems.append(f"returned U is not a weighted sum of the stage velocities (residual {resu})")
    if not resv.is_zero():
        tab.problems.append(f"returned V is not a weighted sum of the stage velocities (residual {resv})")
    # c: from the time argument, else the row sums
    rows = [sum(r, NF.const(0)) for r in tab.A]
    for st, rs in zip(tab.stages, rows):
        tab.c.append(st.c if st.c is not None else rs)
    return tab
