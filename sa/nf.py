"""E4 - rational normal forms: multivariate rational functions with Fraction
coefficients over named atoms.  Equality is decided by cross-multiplication of
polynomials (exact arithmetic, no solver, no sampling of values).

Atoms are strings: parameter names, attribute reads, array elements with a
canonical index (``F[k-1;j;i+1]``), opaque function applications
(``sinh(S*theta_s)``).  Monomial exponents are Fractions so that square roots
of monomials stay inside the domain.
"""

from __future__ import annotations

from fractions import Fraction
from typing import Iterable, Optional, Union

Mono = tuple  # tuple[(atom, Fraction), ...] sorted by atom
Poly = dict  # dict[Mono, Fraction]

Num = Union[int, Fraction]


def _mono_mul(a: Mono, b: Mono) -> Mono:
    d: dict[str, Fraction] = dict(a)
    for k, e in b:
        d[k] = d.get(k, Fraction(0)) + e
    return tuple(sorted((k, e) for k, e in d.items() if e != 0))


def _poly_add(a: Poly, b: Poly, sign: int = 1) -> Poly:
    out = dict(a)
    for m, c in b.items():
        v = out.get(m, Fraction(0)) + sign * c
        if v == 0:
            out.pop(m, None)
        else:
            out[m] = v
    return out


def _poly_mul(a: Poly, b: Poly) -> Poly:
    out: Poly = {}
    for m1, c1 in a.items():
        for m2, c2 in b.items():
            m = _mono_mul(m1, m2)
            v = out.get(m, Fraction(0)) + c1 * c2
            if v == 0:
                out.pop(m, None)
            else:
                out[m] = v
    return out


def _poly_str(p: Poly) -> str:
    if not p:
        return "0"
    terms = []
    for m in sorted(p, key=lambda m: (len(m), m)):
        c = p[m]
        ms = "*".join(k if e == 1 else f"{k}^{e}" for k, e in m)
        if not ms:
            terms.append(str(c))
        elif c == 1:
            terms.append(ms)
        elif c == -1:
            terms.append("-" + ms)
        else:
            terms.append(f"{c}*{ms}")
    s = " + ".join(terms)
    return s.replace("+ -", "- ")


class NF:
    """num / den, both polynomials."""

    __slots__ = ("num", "den")

    def __init__(self, num: Poly, den: Optional[Poly] = None) -> None:
        self.num = num
        self.den = den if den is not None else {(): Fraction(1)}
        self._simplify()

    # -- constructors ---------------------------------------------------
    @staticmethod
    def const(c: Num | float) -> "NF":
        if isinstance(c, bool):
            c = int(c)
        if isinstance(c, float):
            c = Fraction(str(c))  # 0.5 -> 1/2, 0.01 -> 1/100 (decimal literal meaning)
        c = Fraction(c)
        return NF({(): c} if c != 0 else {})

    @staticmethod
    def atom(name: str, exp: Num = 1) -> "NF":
        return NF({((name, Fraction(exp)),): Fraction(1)})

    # -- simplification -------------------------------------------------
    @staticmethod
    def _fold_consts(p: Poly) -> Poly:
        """const(c)^n with integer n is the number c^n."""
        if not any(k.startswith("const(") for m in p for k, _ in m):
            return p
        out: Poly = {}
        for m, c in p.items():
            keep = []
            for k, e in m:
                if k.startswith("const(") and e.denominator == 1:
                    c = c * Fraction(k[6:-1]) ** int(e)
                elif k.startswith("const("):
                    # split off the integer part of the exponent
                    whole = e.numerator // e.denominator
                    if whole:
                        c = c * Fraction(k[6:-1]) ** whole
                    keep.append((k, e - whole))
                else:
                    keep.append((k, e))
            mm = tuple(sorted(keep))
            v = out.get(mm, Fraction(0)) + c
            if v == 0:
                out.pop(mm, None)
            else:
                out[mm] = v
        return out

    def _simplify(self) -> None:
        if not self.den:
            raise ZeroDivisionError("normal form with zero denominator")
        self.num = NF._fold_consts(self.num)
        self.den = NF._fold_consts(self.den)
        if not self.num:
            self.den = {(): Fraction(1)}
            return
        # single-term denominator: divide through
        if len(self.den) == 1:
            (dm, dc), = self.den.items()
            if dm or dc != 1:
                inv = tuple((k, -e) for k, e in dm)
                self.num = {_mono_mul(m, inv): c / dc for m, c in self.num.items()}
                self.den = {(): Fraction(1)}
            return
        # clear negative exponents / cancel a common monomial factor: for every atom
        # shift by the minimal exponent over all monomials of num and den
        atoms = {k for p in (self.num, self.den) for m in p for k, _ in m}
        shift = []
        for k in atoms:
            emin = None
            for p in (self.num, self.den):
                for m in p:
                    e = dict(m).get(k, Fraction(0))
                    emin = e if emin is None or e < emin else emin
            if emin:
                shift.append((k, -emin))
        if shift:
            inv = tuple(sorted(shift))
            self.num = {_mono_mul(m, inv): c for m, c in self.num.items()}
            self.den = {_mono_mul(m, inv): c for m, c in self.den.items()}
            if len(self.den) == 1:
                return self._simplify()
        lead = self.den[min(self.den, key=lambda m: (len(m), m))]
        if lead != 1:
            self.num = {m: c / lead for m, c in self.num.items()}
            self.den = {m: c / lead for m, c in self.den.items()}
        # identical numerator and denominator up to a constant
        if len(self.num) == len(self.den) and set(self.num) == set(self.den):
            ratios = {self.num[m] / self.den[m] for m in self.num}
            if len(ratios) == 1:
                r = ratios.pop()
                self.num = {(): r}
                self.den = {(): Fraction(1)}

    # -- arithmetic -----------------------------------------------------
    @staticmethod
    def lift(x) -> "NF":
        return x if isinstance(x, NF) else NF.const(x)

    def __add__(self, o) -> "NF":
        o = NF.lift(o)
        if self.den == o.den:
            return NF(_poly_add(self.num, o.num), dict(self.den))
        return NF(_poly_add(_poly_mul(self.num, o.den), _poly_mul(o.num, self.den)), _poly_mul(self.den, o.den))

    __radd__ = __add__

    def __neg__(self) -> "NF":
        return NF({m: -c for m, c in self.num.items()}, dict(self.den))

    def __sub__(self, o) -> "NF":
        return self + (-NF.lift(o))

    def __rsub__(self, o) -> "NF":
        return NF.lift(o) - self

    def __mul__(self, o) -> "NF":
        o = NF.lift(o)
        return NF(_poly_mul(self.num, o.num), _poly_mul(self.den, o.den))

    __rmul__ = __mul__

    def __truediv__(self, o) -> "NF":
        o = NF.lift(o)
        if not o.num:
            raise ZeroDivisionError("division by the zero normal form")
        return NF(_poly_mul(self.num, o.den), _poly_mul(self.den, o.num))

    def __rtruediv__(self, o) -> "NF":
        return NF.lift(o) / self

    def __pow__(self, e) -> "NF":
        if isinstance(e, NF):
            if not e.is_const():
                raise ValueError("non-constant exponent")
            e = e.const_value()
        if isinstance(e, float):
            e = Fraction(str(e))
        e = Fraction(e)
        if e.denominator == 1:
            n = int(e)
            if n == 0:
                return NF.const(1)
            base = self if n > 0 else NF.const(1) / self
            out = NF.const(1)
            for _ in range(abs(n)):
                out = out * base
            return out
        # fractional power: only of a single monomial over a single monomial
        if len(self.num) == 1 and len(self.den) == 1:
            (m, c), = self.num.items()
            if c < 0:
                raise ValueError("fractional power of a negative coefficient")
            # coefficient: keep c^e exact when possible, else as an atom
            cn, cd = c.numerator, c.denominator
            q = e.denominator
            def root(v):
                r = round(v ** (1.0 / q))
                for cand in (r - 1, r, r + 1):
                    if cand >= 0 and cand ** q == v:
                        return cand
                return None
            rn, rd = root(cn), root(cd)
            mono = tuple((k, x * e) for k, x in m)
            if rn is not None and rd is not None:
                coef = Fraction(rn, rd) ** e.numerator
                return NF({mono: coef})
            name = f"const({c})"
            mono = _mono_mul(mono, ((name, e),))
            return NF({mono: Fraction(1)})
        raise ValueError(f"fractional power of a non-monomial: {self}")

    # -- queries --------------------------------------------------------
    def __eq__(self, o) -> bool:  # type: ignore[override]
        o = NF.lift(o)
        return _poly_mul(self.num, o.den) == _poly_mul(o.num, self.den)

    def __ne__(self, o) -> bool:  # type: ignore[override]
        return not self.__eq__(o)

    def __hash__(self) -> int:
        return hash(self.canon())

    def is_zero(self) -> bool:
        return not self.num

    def is_const(self) -> bool:
        return (not self.num or set(self.num) == {()}) and set(self.den) == {()}

    def const_value(self) -> Fraction:
        if not self.is_const():
            raise ValueError(f"not a constant: {self}")
        return self.num.get((), Fraction(0)) / self.den[()]

    def is_poly(self) -> bool:
        return set(self.den) == {()}

    def atoms(self) -> set[str]:
        out = set()
        for p in (self.num, self.den):
            for m in p:
                for k, _ in m:
                    out.add(k)
        return out

    def canon(self) -> str:
        n = _poly_str(self.num)
        if set(self.den) == {()} and self.den[()] == 1:
            return n
        return f"({n})/({_poly_str(self.den)})"

    __repr__ = __str__ = canon

    def subst(self, mapping: dict[str, "NF"]) -> "NF":
        """Replace atoms by normal forms (only atoms with integer exponents)."""
        def poly(p: Poly) -> NF:
            total = NF.const(0)
            for m, c in p.items():
                term = NF.const(c)
                for k, e in m:
                    if k in mapping:
                        term = term * (NF.lift(mapping[k]) ** e)
                    else:
                        term = term * NF.atom(k, e)
                total = total + term
            return total
        return poly(self.num) / poly(self.den)

    def coeff(self, atom: str, power: int = 1) -> "NF":
        """Coefficient of atom^power when self is a polynomial in ``atom`` (the
        denominator must not contain it)."""
        if any(k == atom for m in self.den for k, _ in m):
            raise ValueError(f"{atom} occurs in the denominator of {self}")
        out: Poly = {}
        for m, c in self.num.items():
            d = dict(m)
            if d.get(atom, Fraction(0)) == power:
                d.pop(atom, None)
                out[tuple(sorted(d.items()))] = c
        return NF(out, dict(self.den)) if out else NF.const(0)

    def without(self, atoms: Iterable[str]) -> "NF":
        """The part of the (polynomial) numerator not containing any of ``atoms``."""
        atoms = set(atoms)
        out = {m: c for m, c in self.num.items() if not any(k in atoms for k, _ in m)}
        return NF(out, dict(self.den)) if out else NF.const(0)

    def degree(self, atom: str) -> Fraction:
        return max((dict(m).get(atom, Fraction(0)) for m in self.num), default=Fraction(0))

    def diff(self, atom: str) -> "NF":
        def dpoly(p: Poly) -> Poly:
            out: Poly = {}
            for m, c in p.items():
                d = dict(m)
                e = d.get(atom)
                if not e:
                    continue
                d[atom] = e - 1
                mm = tuple(sorted((k, x) for k, x in d.items() if x != 0))
                out[mm] = out.get(mm, Fraction(0)) + c * e
            return {m: c for m, c in out.items() if c != 0}
        dn, dd = dpoly(self.num), dpoly(self.den)
        num = _poly_add(_poly_mul(dn, self.den), _poly_mul(self.num, dd), -1)
        return NF(num, _poly_mul(self.den, self.den)) if num else NF.const(0)

    def sign_const(self) -> Optional[int]:
        if self.is_const():
            v = self.const_value()
            return (v > 0) - (v < 0)
        return None


ODD = {"sinh", "tanh", "sin", "tan", "arcsin", "arctan"}
EVEN = {"cosh", "cos", "abs"}
AT_ZERO = {"sinh": 0, "tanh": 0, "sin": 0, "tan": 0, "cosh": 1, "cos": 1, "exp": 1, "abs": 0, "sqrt": 0}


def func_atom(fname: str, arg: NF) -> NF:
    """Opaque elementary function with the rewrites f(0), f(-x) = +-f(x) and exp(-x) = 1/exp(x)."""
    if arg.is_zero() and fname in AT_ZERO:
        return NF.const(AT_ZERO[fname])
    sign = 1
    # canonical orientation: leading coefficient of the numerator positive
    lead_m = min(arg.num, key=lambda m: (len(m), m)) if arg.num else None
    if lead_m is not None and arg.num[lead_m] < 0 and (fname in ODD or fname in EVEN or fname == "exp"):
        arg = -arg
        if fname in ODD:
            sign = -1
        elif fname == "exp":
            return NF.const(1) / NF.atom(f"exp({arg.canon()})")
    a = NF.atom(f"{fname}({arg.canon()})")
    return a if sign == 1 else -a
