"""C05 - particle identity: pids dense, ordered, never reused, following the particle.

Inductive invariant Inv over the State: (I1) all instance arrays have equal length; (I2) pid strictly
increasing; (I3) max(pid) < npid; (I4) npid never decreases.  The obligations below are the induction
step for every operation that can touch the state in ladim/ (plug-in IBMs are assumed to use the API).
"""

from __future__ import annotations

import ast

from ..interp import Interp, MapV, Phi, Ref, Tup, vtext
from ..nf import NF
from ..nfdomain import NFDomain
from ..paths import enumerate_paths, path_calls
from ..program import AnalysisError, Program, unparse, short, walk_no_nested
from ..report import Report
from .. import statefx


def who_may_write(prog: Program, rep: Report) -> None:
    rule = "R05.1"
    st_mod, st_cls = prog.role_module["state"], prog.role_class["state"]
    allowed = {f"{st_mod}.{st_cls}.__init__", f"{st_mod}.{st_cls}.append", f"{st_mod}.{st_cls}.compactify", "warm_start.warm_start"}
    n = 0
    for w in statefx.state_writes(prog):
        owners = prog.effective_owners(w.fi.qual)
        touches_pid = w.key in ("npid", "pid") or (w.key == "<dynamic>" and bool(owners & {f"{st_mod}.{st_cls}.compactify", "warm_start.warm_start"}))
        if w.key == "<dynamic>" and w.fi.qual == f"{st_mod}.{st_cls}.__setitem__":
            # the public item-assignment API: pid is not protected there, callers are checked instead
            continue
        if not touches_pid:
            continue
        n += 1
        rep.check(rule, w.fi.qual, short(w.node), owners <= allowed, what_bad=f"writes {w.key} outside State.__init__/append/compactify and warm_start: identifiers can be reused or reordered", what_ok=f"{w.key}: owner function", loc=w.fi.loc(w.node))
    # callers of the item API never name pid / alive-by-True etc.
    for w in statefx.state_writes(prog):
        if w.fi.qual.startswith(f"{st_mod}.{st_cls}.") or w.fi.qual == "warm_start.warm_start":
            continue
        if w.kind in ("item", "masked"):
            n += 1
            rep.check(rule, w.fi.qual, short(w.node), w.key != "pid", what_bad="assigns particle identifiers outside the State", what_ok=f"writes {w.key}", loc=w.fi.loc(w.node))
    if n < 4:
        raise AnalysisError("state-write enumeration found fewer writers than confirmed by hand")


def _lower_dict_union(fi):
    """`self.default_values | args` -> `dict(self.default_values, **args)` (the operands are dictionaries:
    the configured defaults and the keyword arguments), so one form reaches the evaluator."""
    import copy

    from ..program import FuncInfo

    kw = fi.node.args.kwarg.arg if fi.node.args.kwarg else None
    dicts = {"self.default_values", kw}

    class T(ast.NodeTransformer):
        def visit_BinOp(self, n: ast.BinOp):
            self.generic_visit(n)
            if isinstance(n.op, ast.BitOr) and (unparse(n.left) in dicts or unparse(n.right) in dicts):
                return ast.copy_location(ast.Call(func=ast.Name(id="dict", ctx=ast.Load()), args=[n.left], keywords=[ast.keyword(arg=None, value=n.right)]), n)
            return n

    return FuncInfo(fi.module, fi.qual, ast.fix_missing_locations(T().visit(copy.deepcopy(fi.node))), fi.cls)


def append_step(prog: Program, rep: Report) -> None:
    rule = "R05.2"
    from ..program import inline_helpers

    fi = _lower_dict_union(inline_helpers(prog, prog.role_func("state", "append")))
    dom = NFDomain()
    log = {"raises_after_store": False}

    def hook(node, fr, it):
        fn = unparse(node.func)
        if fn == "np.concatenate" and len(node.args) == 1 and isinstance(node.args[0], (ast.Tuple, ast.List)):
            parts = [vtext(it.eval(e, fr)) for e in node.args[0].elts]
            return NF.atom("cat(" + ";".join(parts) + ")")
        if fn == "np.arange":
            parts = [vtext(it.eval(e, fr)) for e in node.args]
            return NF.atom("arange(" + ";".join(parts) + ")")
        if fn == "np.broadcast":
            return Ref("bcast")
        if fn == "np.broadcast_to":
            v = it.eval(node.args[0], fr)
            shp = None
            for kw in node.keywords:
                if kw.arg == "shape":
                    shp = it.eval(kw.value, fr)
            if shp is None and len(node.args) > 1:
                shp = it.eval(node.args[1], fr)
            return NF.atom(f"bto({vtext(v)};{vtext(shp)})")
        if fn == "set":
            return Ref("set:" + vtext(it.eval(node.args[0], fr)) if node.args else "set:")
        if fn == "dict":
            return MapV(Ref("value_var"), unparse(node))
        return NotImplemented

    it = Interp(prog, dom, depth=1, call_hook=hook)
    it.objenv["state.npid"] = NF.atom("npid")
    it.objenv["state.pid"] = NF.atom("pid")
    res, fr = it.run(fi, dict(args=MapV(Ref("arg"), "**args")), "state")
    pid = it.objenv.get("state.pid")
    npid = it.objenv.get("state.npid")
    # n = what the release counter is advanced by (whatever the local is called)
    n_nf = (it.num(npid) - NF.atom("npid")) if isinstance(it.num(npid), NF) else None
    n_txt = n_nf.canon() if isinstance(n_nf, NF) else None
    rep.check(rule, fi.qual, "number of new particles = broadcast size of all values", n_txt == "bcast.size", what_bad=f"n is {n_txt}; it must be the common broadcast size of every supplied and default value", what_ok="b.size", loc=fi.loc())
    want_pid = NF.atom(f"cat(pid;arange(npid;{(NF.atom('npid') + n_nf).canon() if isinstance(n_nf, NF) else '?'};dtype))") if False else None
    ptxt = vtext(pid)
    ok_pid = isinstance(n_nf, NF) and ptxt in (f"cat(pid;arange(npid;{(NF.atom('npid') + n_nf).canon()}))", f"cat(pid;arange(npid;{(NF.atom('npid') + n_nf).canon()};int))")
    rep.check(rule, fi.qual, "new identifiers: pid <- concatenate(pid, arange(npid, npid + n))", ok_pid, what_bad=f"pid becomes {ptxt}: existing identifiers must stay first and unchanged, new ones are npid .. npid+n-1", what_ok="old first, then npid..npid+n-1", loc=fi.loc())
    rep.check(rule, fi.qual, "counter: npid <- npid + n (same n)", isinstance(npid, NF) and isinstance(n_nf, NF) and npid == NF.atom("npid") + n_nf, what_bad=f"npid becomes {vtext(npid)}; identifiers would be reused or skipped", what_ok="npid + n", loc=fi.loc())
    var = it.objenv.get("state.variables")
    vt = vtext(var)
    import re as _re

    vts = vt.replace(" ", "")
    mvar = _re.fullmatch(r"cat\(state\.variables;bto\((item[^;()]*|value_var);\(([^()]*?),?\)\)\)", vts)
    ok_var = isinstance(n_nf, NF) and (bool(mvar) and mvar.group(2) == n_nf.canon().replace(" ", "") or (vts.startswith("cat(state.variables;") and f";({n_nf.canon()},))".replace(" ", "") in vts))
    rep.check(rule, fi.qual, "every other variable: concatenate(old, value broadcast to n)", bool(ok_var), what_bad=f"variables become {vt}: old elements first and n new ones, or the arrays lose alignment with pid", what_ok="old first, n new values", loc=fi.loc())
    # loop domain
    loops = [n for n in walk_no_nested(fi.node) if isinstance(n, ast.For) and any(isinstance(x, ast.Call) and unparse(x.func) == "np.concatenate" for x in ast.walk(n))]
    ok_dom = False
    if len(loops) == 1 and isinstance(loops[0].iter, ast.Name):
        name = loops[0].iter.id
        for node in walk_no_nested(fi.node):
            if isinstance(node, ast.Assign) and unparse(node.targets[0]) == name:
                src = unparse(node.value)
                ok_dom = "self.variables" in src and "'pid'" in src and ("-" in src or "!=" in src or "not in" in src)
    rep.check(rule, fi.qual, "concatenation loop covers set(variables) - {pid}", ok_dom, what_bad="the loop that extends the arrays must run over every state variable except pid (handled separately), each exactly once", what_ok="all variables but pid", loc=fi.loc())
    # every variable gets a value (default / nan) before broadcasting
    value_precedence(prog, rep, rule)
    # atomicity: every raise precedes the first store
    for p in enumerate_paths(fi.node.body):
        if p.exit != "raise":
            continue
        stored = any(s[0] == "stmt" and isinstance(s[1], ast.Assign) and unparse(s[1].targets[0]).startswith(("self.variables[", "self.npid")) for s in p.steps)
        if stored:
            rep.bad(rule, fi.qual, f"path {p.describe()}", "an error is raised after part of the state was already extended: arrays of different length", fi.loc(p.exit_node))
    rep.ok(rule, fi.qual, "validation errors are raised before any store", "checked on every raising path", fi.loc())
    # invalid names are rejected (pid cannot be supplied)
    # a membership test against the set of admissible names, and a raise that precedes every store
    loopdom = None
    if len(loops) == 1 and isinstance(loops[0].iter, ast.Name):
        loopdom = loops[0].iter.id
    tests = [n for n in ast.walk(fi.node) if isinstance(n, ast.Compare) and isinstance(n.ops[0], (ast.NotIn, ast.In)) and loopdom is not None and unparse(n.comparators[0]) == loopdom]
    first_store = min([n.lineno for n in walk_no_nested(fi.node) if isinstance(n, ast.Assign) and unparse(n.targets[0]).startswith(("self.variables[", "self.npid"))] or [10**9])
    raises = [n for n in walk_no_nested(fi.node) if isinstance(n, ast.Raise) and n.lineno < first_store and n.exc is not None and "ValueError" in unparse(n.exc)]
    guards = bool(tests) and bool(raises) and min(t.lineno for t in tests) <= max(r.lineno for r in raises)
    rep.check(rule, fi.qual, "arguments outside set(variables) - {pid} are rejected", bool(guards), what_bad="a caller could pass pid=... and overwrite identifiers", what_ok="ValueError", loc=fi.loc())

# ---------------------------------------------------------------------------
# value precedence in State.append: arguments, then configured defaults, then NaN
# ---------------------------------------------------------------------------
_CLASSES = [(True, True), (True, False), (False, True), (False, False)]  # (name in args, name in defaults)


class _PrecUnknown(Exception):
    pass


def _prec_eval(e: ast.expr, env: dict, args_name: str):
    """Abstract dictionary: {class: source} with source in {"args", "default", "nan"} (absent keys
    left out), for expressions built from the keyword arguments and self.default_values."""
    txt = unparse(e)
    if isinstance(e, ast.Name) and e.id == args_name:
        return {c: "args" for c in _CLASSES if c[0]}
    if txt == "self.default_values":
        return {c: "default" for c in _CLASSES if c[1]}
    if isinstance(e, ast.Name) and e.id in env:
        return dict(env[e.id])
    if isinstance(e, ast.Call):
        fn = unparse(e.func)
        if fn == "dict":
            d: dict = {}
            for a in e.args:
                d.update(_prec_eval(a, env, args_name))
            for kw in e.keywords:
                if kw.arg is not None:
                    raise _PrecUnknown(txt)
                d.update(_prec_eval(kw.value, env, args_name))
            return d
        if fn == "dict.fromkeys" and len(e.args) == 2 and unparse(e.args[1]) in ("np.nan", "numpy.nan", "float('nan')", "math.nan"):
            return {c: "nan" for c in _CLASSES}
        if isinstance(e.func, ast.Attribute) and e.func.attr == "copy" and not e.args:
            return _prec_eval(e.func.value, env, args_name)
    if isinstance(e, ast.Dict):
        d = {}
        for k, v in zip(e.keys, e.values):
            if k is not None:
                raise _PrecUnknown(txt)
            d.update(_prec_eval(v, env, args_name))
        return d
    if isinstance(e, ast.BinOp) and isinstance(e.op, ast.BitOr):
        d = _prec_eval(e.left, env, args_name)
        d.update(_prec_eval(e.right, env, args_name))
        return d
    if isinstance(e, ast.DictComp) and len(e.generators) == 1 and not e.generators[0].ifs and isinstance(e.key, ast.Name) and isinstance(e.generators[0].target, ast.Name) and e.key.id == e.generators[0].target.id:
        # {name: <lookup chain>(name) for name in state_vars}
        out = {}
        for c in _CLASSES:
            out[c] = _prec_lookup(e.value, e.key.id, c, env, args_name)
        return out
    raise _PrecUnknown(txt)


def _prec_lookup(e: ast.expr, key: str, c, env: dict, args_name: str):
    """Source of `X.get(key, fallback)` / `X[key] if key in X else ...` chains for a key of class c."""
    if unparse(e) in ("np.nan", "numpy.nan", "float('nan')", "math.nan"):
        return "nan"
    if isinstance(e, ast.Call) and isinstance(e.func, ast.Attribute) and e.func.attr == "get" and e.args and unparse(e.args[0]) == key:
        d = _prec_eval(e.func.value, env, args_name)
        if c in d:
            return d[c]
        if len(e.args) == 2:
            return _prec_lookup(e.args[1], key, c, env, args_name)
        raise _PrecUnknown(unparse(e))
    if isinstance(e, ast.IfExp) and isinstance(e.test, ast.Compare) and len(e.test.ops) == 1 and isinstance(e.test.ops[0], (ast.In, ast.NotIn)) and unparse(e.test.left) == key:
        d = _prec_eval(e.test.comparators[0], env, args_name)
        present = (c in d) ^ isinstance(e.test.ops[0], ast.NotIn)
        return _prec_lookup(e.body if present else e.orelse, key, c, env, args_name)
    if isinstance(e, ast.Subscript) and unparse(e.slice) == key:
        d = _prec_eval(e.value, env, args_name)
        if c in d:
            return d[c]
    raise _PrecUnknown(unparse(e))


def value_precedence(prog: Program, rep: Report, rule: str) -> None:
    """Which value a newly appended particle gets for a variable: the caller's, else the configured
    default, else NaN - decided for the four classes (given / not given) x (has default / has none)."""
    fi = prog.role_func("state", "append")
    args_name = fi.node.args.kwarg.arg if fi.node.args.kwarg else None
    if args_name is None:
        raise AnalysisError("State.append: **keyword parameter not found")
    # the dictionary whose values are broadcast
    used = None
    for n in walk_no_nested(fi.node):
        if isinstance(n, ast.Call) and unparse(n.func) in ("np.broadcast", "np.broadcast_arrays") and n.args and isinstance(n.args[0], ast.Starred):
            v = n.args[0].value
            if isinstance(v, ast.Call) and isinstance(v.func, ast.Attribute) and v.func.attr == "values" and isinstance(v.func.value, ast.Name):
                used = v.func.value.id
    if used is None:
        rep.add(rule, fi.qual, "value precedence", None, "the dictionary of values that is broadcast was not found", fi.loc())
        return
    env: dict = {}
    try:
        for st in fi.node.body:
            if isinstance(st, (ast.Assign, ast.AnnAssign)) and st.value is not None:
                t = st.targets[0] if isinstance(st, ast.Assign) else st.target
                if isinstance(t, ast.Name):
                    try:
                        env[t.id] = _prec_eval(st.value, env, args_name)
                    except _PrecUnknown:
                        if t.id == used:
                            raise
                    continue
            if isinstance(st, ast.Expr) and isinstance(st.value, ast.Call) and isinstance(st.value.func, ast.Attribute) and isinstance(st.value.func.value, ast.Name) and st.value.func.value.id in env:
                d = env[st.value.func.value.id]
                m = st.value.func.attr
                if m == "update" and len(st.value.args) == 1 and not st.value.keywords:
                    d.update(_prec_eval(st.value.args[0], env, args_name))
                    continue
                if m == "update" and not st.value.args and all(k.arg is None for k in st.value.keywords):
                    for k in st.value.keywords:
                        d.update(_prec_eval(k.value, env, args_name))
                    continue
                if st.value.func.value.id == used:
                    raise _PrecUnknown(short(st))
            if isinstance(st, ast.For) and isinstance(st.target, ast.Name):
                key = st.target.id
                for b in st.body:
                    # if name not in D: D[name] = nan      |  D.setdefault(name, nan)
                    if isinstance(b, ast.If) and isinstance(b.test, ast.Compare) and isinstance(b.test.ops[0], ast.NotIn) and unparse(b.test.left) == key and isinstance(b.test.comparators[0], ast.Name) and b.test.comparators[0].id in env and not b.orelse:
                        d = env[b.test.comparators[0].id]
                        for x in b.body:
                            if isinstance(x, ast.Assign) and isinstance(x.targets[0], ast.Subscript) and unparse(x.targets[0].value) == b.test.comparators[0].id and unparse(x.targets[0].slice) == key:
                                for c in _CLASSES:
                                    if c not in d:
                                        d[c] = _prec_lookup(x.value, key, c, env, args_name)
                    elif isinstance(b, ast.Expr) and isinstance(b.value, ast.Call) and isinstance(b.value.func, ast.Attribute) and b.value.func.attr == "setdefault" and isinstance(b.value.func.value, ast.Name) and b.value.func.value.id in env and len(b.value.args) == 2 and unparse(b.value.args[0]) == key:
                        d = env[b.value.func.value.id]
                        for c in _CLASSES:
                            if c not in d:
                                d[c] = _prec_lookup(b.value.args[1], key, c, env, args_name)
                    elif isinstance(b, ast.Assign) and isinstance(b.targets[0], ast.Subscript) and isinstance(b.targets[0].value, ast.Name) and b.targets[0].value.id == used:
                        raise _PrecUnknown(short(b))
            if any(isinstance(x, ast.Call) and unparse(x.func) in ("np.broadcast", "np.broadcast_arrays") for x in ast.walk(st)):
                break
    except _PrecUnknown as e:
        rep.add(rule, fi.qual, "value precedence", None, f"dictionary construction outside the evaluator: {e}", fi.loc())
        return
    d = env.get(used)
    if d is None:
        rep.add(rule, fi.qual, "value precedence", None, f"{used} is not built from the arguments and defaults in a form the evaluator reads", fi.loc())
        return
    want = {(True, True): "args", (True, False): "args", (False, True): "default", (False, False): "nan"}
    names = {(True, True): "given by the caller, default configured", (True, False): "given by the caller, no default", (False, True): "not given, default configured", (False, False): "neither given nor defaulted"}
    for c in _CLASSES:
        got = d.get(c, "no value")
        rep.check(rule, fi.qual, f"value of a variable {names[c]}", got == want[c], what_bad=f"new particles get the {got} value, must be the {want[c]} value: " + ("released rows lose their column values" if c[0] else "the variable keeps its old length or a wrong fill"), what_ok=f"{want[c]} value", loc=fi.loc())


def dead_removed(prog: Program, rep: Report, rule: str) -> None:
    """Every path of State.compactify that does not filter the arrays must be impossible while a dead
    particle is held. The guards only compare counts, so four orderings of (n, a) decide them."""
    from ..paths import enumerate_paths as _paths
    from ..program import expand_locals, inline_helpers

    fi = inline_helpers(prog, prog.role_func("state", "compactify"))
    CASES = {"empty state": (0, 0), "all dead": (2, 0), "some dead": (2, 1), "none dead": (2, 2)}

    class Unknown(Exception):
        pass

    def ev(e, n, a):
        t = unparse(e)
        if t in ("len(self)", "len(self.variables['pid'])", "len(self.pid)", "len(self.variables['alive'])", "len(self.alive)", "self.alive.size", "self.variables['alive'].size", "len(self['pid'])", "len(self['alive'])"):
            return n
        if t in ("sum(self.variables['alive'])", "sum(self.alive)", "np.count_nonzero(self.variables['alive'])", "np.count_nonzero(self.alive)", "self.alive.sum()", "self.variables['alive'].sum()", "np.sum(self.alive)", "np.sum(self.variables['alive'])", "int(self.alive.sum())", "sum(self['alive'])"):
            return a
        if t in ("self.variables['alive'].all()", "self.alive.all()", "np.all(self.alive)", "all(self.alive)", "np.all(self.variables['alive'])"):
            return a == n
        if t in ("self.variables['alive'].any()", "self.alive.any()", "np.any(self.alive)", "any(self.alive)"):
            return a > 0
        if t in ("(~self.alive).any()", "np.any(~self.alive)", "(~self.variables['alive']).any()"):
            return a < n
        if isinstance(e, ast.Constant) and isinstance(e.value, (int, bool)):
            return e.value
        if isinstance(e, ast.Call) and unparse(e.func) in ("int", "bool") and len(e.args) == 1:
            v = ev(e.args[0], n, a)
            return int(v) if unparse(e.func) == "int" else bool(v)
        if isinstance(e, ast.BinOp) and isinstance(e.op, (ast.Add, ast.Sub)):
            l, r = ev(e.left, n, a), ev(e.right, n, a)
            return l + r if isinstance(e.op, ast.Add) else l - r
        if isinstance(e, ast.UnaryOp) and isinstance(e.op, ast.Not):
            return not ev(e.operand, n, a)
        if isinstance(e, ast.BoolOp):
            vals = [ev(v, n, a) for v in e.values]
            return all(vals) if isinstance(e.op, ast.And) else any(vals)
        if isinstance(e, ast.Compare):
            left = ev(e.left, n, a)
            for op, c in zip(e.ops, e.comparators):
                right = ev(c, n, a)
                r = {ast.Eq: left == right, ast.NotEq: left != right, ast.Lt: left < right, ast.LtE: left <= right, ast.Gt: left > right, ast.GtE: left >= right}.get(type(op))
                if r is None:
                    raise Unknown(unparse(e))
                if not r:
                    return False
                left = right
            return True
        raise Unknown(t)

    def filters(p_) -> bool:
        return any(s_[0] == "iter" or (s_[0] == "stmt" and isinstance(s_[1], ast.Assign) and "self.variables[" in unparse(s_[1].targets[0]) and isinstance(s_[1].value, ast.Subscript)) for s_ in p_.steps)

    bad, unknown = [], []
    n_paths = 0
    for p_ in _paths(fi.node.body, unroll=(1,)):
        n_paths += 1
        if filters(p_) or p_.exit == "raise":
            continue
        for label, (n, a) in CASES.items():
            if a == n:
                continue  # nothing to remove in this ordering
            try:
                holds = all(bool(ev(expand_locals(t, fi.node), n, a)) == taken for t, taken in p_.conds())
            except Unknown as u:
                unknown.append(str(u))
                continue
            if holds:
                bad.append(f"with {label} (n={n}, alive={a}) the path {p_.describe()} leaves compactify without removing anything")
    if bad:
        rep.bad(rule, fi.qual, "dead particles are removed whenever the state holds any", "; ".join(bad[:2]) + ": dead particles stay in the state and are written to later records", fi.loc())
    elif unknown:
        rep.add(rule, fi.qual, "dead particles are removed whenever the state holds any", None, f"guard outside the count algebra: {unknown[0]}", fi.loc())
    else:
        rep.ok(rule, fi.qual, "dead particles are removed whenever the state holds any", f"{n_paths} path(s), 4 orderings of (n, alive)", fi.loc())


def compactify_step(prog: Program, rep: Report) -> None:
    rule = "R05.3"
    fi = prog.role_func("state", "compactify")
    from ..program import punparse

    def P(e):
        return punparse(e, fi.node)
    loops = [n for n in walk_no_nested(fi.node) if isinstance(n, ast.For) and any(isinstance(x, ast.Subscript) and isinstance(x.ctx, ast.Store) and P(x.value) == "self.variables" for x in ast.walk(n))]
    if not loops:
        raise AnalysisError("State.compactify: no loop storing into self.variables found")
    all_stores = []
    for loop in loops:
        it_src = P(loop.iter)
        rep.check(rule, fi.qual, f"loop over {it_src}", it_src in ("self.instance_variables", "sorted(self.instance_variables)", "list(self.instance_variables)"), what_bad="dead particles must be removed from the instance variables and from nothing else (particle variables are indexed by pid and keep their length)", what_ok="instance variables only", loc=fi.loc(loop))
        var = unparse(loop.target)
        stores = [n for n in loop.body if isinstance(n, ast.Assign)]
        all_stores += stores
        ok = len(stores) == 1 and len(loop.body) == 1
        mask_name = None
        if ok:
            st = stores[0]
            t, v = st.targets[0], st.value
            ok = P(t) == f"self.variables[{var}]" and isinstance(v, ast.Subscript) and P(v.value) == f"self.variables[{var}]" and isinstance(v.slice, ast.Name)
            if ok:
                mask_name = v.slice.id
        emptying = len(stores) == 1 and len(loop.body) == 1 and P(stores[0].targets[0]) == f"self.variables[{var}]" and (unparse(stores[0].value).startswith(("np.array([]", "np.empty(0", "np.zeros(0")) or P(stores[0].value) == f"self.variables[{var}][:0]")
        if emptying and len(loops) > 1:
            rep.add(rule, fi.qual, f"body of the loop over {it_src}: arrays emptied", None, "an emptying fast path: correct only under a guard that no particle is alive (not decided)", fi.loc(loop))
            continue
        rep.check(rule, fi.qual, f"body of the loop over {it_src}: variables[var] = variables[var][mask] with one mask name", ok, what_bad=f"body is {[short(b) for b in loop.body]}: each array must be filtered by boolean indexing with the same mask (order-preserving)", what_ok=f"mask `{mask_name}`", loc=fi.loc(loop))
        if mask_name:
            defs = [n for n in walk_no_nested(fi.node) if isinstance(n, ast.Assign) and unparse(n.targets[0]) == mask_name]
            before = [d for d in defs if d.lineno < loop.lineno]
            inside = [d for d in defs if d.lineno >= loop.lineno]
            src = P(before[-1].value) if before else ""
            derived = src in ("self.alive.copy()", "self.alive", "self.variables['alive'].copy()", "self.variables['alive']", "self['alive'].copy()", "self['alive']", "np.array(self.alive)", "self.alive.astype(bool)")
            rep.check(rule, fi.qual, f"mask `{mask_name}` = alive, bound before the loop, not rebound inside", bool(before) and derived and not inside, what_bad=f"mask defined as `{src}` (rebinding inside the loop: {len(inside)}): all arrays must be filtered with the *same* alive mask taken before any array is shortened", what_ok=src, loc=fi.loc())
    stores = all_stores
    # the filter runs whenever some particle is dead: path conditions of the skipping paths, evaluated over
    # the four orderings of (number of particles n, number alive a): (0,0), (n>0,a=0), (0<a<n), (a=n)
    dead_removed(prog, rep, rule)
    # nothing else is stored
    others = [w for w in statefx.state_writes(prog) if w.fi.qual == fi.qual and w.node not in stores]
    rep.check(rule, fi.qual, "no other store to the state", not others, what_bad=f"also writes {[short(w.node) for w in others]}", what_ok="none", loc=fi.loc())


def provenance(prog: Program, rep: Report) -> None:
    """R05.4: values assigned to state variables elsewhere are element-wise functions of current
    state arrays (so the length is preserved)."""
    rule = "R05.4"
    from .c01 import update_normal_form
    from .. import roms

    fi = prog.func("tracker.Tracker.update")
    for flags in (dict(advection=True, diffusion=True, vertdiff=True, vertical_advection=True), dict(advection=False, diffusion=False, vertdiff=False, vertical_advection=False)):
        it, fr, draws = update_normal_form(prog, flags)
        for k in ("X", "Y", "Z"):
            v = it.objenv.get(f"state.{k}")
            if v is None:
                continue
            if isinstance(v, NF) and v == NF.atom(k):
                continue
            leaves = roms.flatten_phi(v)
            bad = [leaf for conds, leaf in leaves if not (isinstance(leaf, NF) and k in leaf.atoms())]
            rep.check(rule, fi.qual, f"state[{k!r}] (flags {''.join('1' if x else '0' for x in flags.values())})", not bad, what_bad=f"some arm of the stored value does not derive from the current {k} array: {[vtext(b)[:60] for b in bad]} - the array may change length or order", what_ok=f"element-wise function of {k}", loc=fi.loc())
    ff = prog.role_func("forcing", "force_particles")
    from . import c02

    for node, key, fields in c02.forcing_state_stores(prog):
        rep.check(rule, ff.qual, f"state[{key}] = sample taken in this call", fields == {key}, what_bad=f"a forcing value stored in the state must be the sample just taken at the current particle positions (field {key}); it derives from {sorted(fields) or 'no field sample'}", what_ok="fresh sample of the same name", loc=ff.loc(node))
    st = prog.role_func("state", "__setitem__")
    from ..program import xunparse

    params = [p_ for p_ in st.params if p_ != "self"]
    stores = [n for n in walk_no_nested(st.node) if isinstance(n, ast.Assign) and isinstance(n.targets[0], ast.Subscript) and xunparse(n.targets[0].value, st.node) == "self.variables"]
    ok = False
    got = [xunparse(n.value, st.node) for n in stores]
    if len(stores) == 1 and len(params) == 2:
        key, item = params
        v = ast.parse(got[0], mode="eval").body
        if isinstance(v, ast.Call) and unparse(v.func) in ("np.array", "numpy.array") and len(v.args) >= 1 and unparse(v.args[0]) == item and unparse(stores[0].targets[0].slice) == key:
            kws = {k.arg: unparse(k.value) for k in v.keywords}
            dt = kws.get("dtype") or (unparse(v.args[1]) if len(v.args) > 1 else None)
            ok = dt == f"self.dtypes[{key}]" and kws.get("copy", "True") == "True" and set(kws) <= {"dtype", "copy"}
    rep.check(rule, st.qual, "item assignment stores np.array(item, dtype) unchanged in order", ok, what_bad=f"__setitem__ stores {got}: it must store a fresh copy np.array(item, dtype=self.dtypes[var]) of exactly the value given (no alias of the caller's array, no reordering)", what_ok="dtype conversion only", loc=st.loc())
    for meth in ("__getitem__", "__getattr__"):
        g = prog.role_func("state", meth)
        rets = [n for n in walk_no_nested(g.node) if isinstance(n, ast.Return)]
        rep.check(rule, g.qual, "read access returns the stored array", len(rets) == 1 and unparse(rets[0].value) == "self.variables[var]", what_bad=f"returns {[unparse(r.value) for r in rets]}", what_ok="self.variables[var]", loc=g.loc())
    ln = prog.role_func("state", "__len__")
    rets = [n for n in walk_no_nested(ln.node) if isinstance(n, ast.Return)]
    rep.check(rule, ln.qual, "len(state) = number of identifiers held", len(rets) == 1 and unparse(rets[0].value) in ("len(self.pid)", "len(self.variables['pid'])"), what_bad=f"returns {[unparse(r.value) for r in rets]}", what_ok="len(pid)", loc=ln.loc())


def no_reorder_on_output(prog: Program, rep: Report) -> None:
    rule = "R05.5"
    for meth in ("write", "write_particle_variables"):
        fi = prog.role_func("output", meth)
        bad = []
        for node in walk_no_nested(fi.node):
            if isinstance(node, ast.Call):
                fn = unparse(node.func)
                if fn.split(".")[-1] in ("sort", "argsort", "sorted", "permutation", "shuffle", "flip", "roll", "lexsort", "unique"):
                    bad.append(node)
            if isinstance(node, ast.Subscript) and isinstance(node.slice, ast.Slice) and node.slice.step is not None:
                bad.append(node)
        rep.check(rule, fi.qual, "no sort / permutation / strided slice of state arrays", not bad, what_bad=f"reordering constructs: {[short(b) for b in bad]}", what_ok="none", loc=fi.loc())
    wr = prog.role_func("output", "write")
    # values written are the state arrays themselves (sparse) or masked by alive (dense): from the abstract evaluation
    from .c06 import write_eval, stores_of

    for layout in ("sparse", "dense"):
        it, fr, log, _ = write_eval(prog, layout, finished=False)
        st = stores_of(it)
        dv = st.get("<var>", []) or st.get("var", [])
        vals = [v for _, v in dv]
        ok = bool(vals) and all(v.startswith("state.<") and (v.endswith(">") or v.endswith(">[state.alive]")) for v in vals)
        rep.check(rule, wr.qual, f"{layout}: instance data written: {vals}", ok, what_bad="record data must be the state arrays in state order (optionally filtered by the alive mask)", what_ok="state order", loc=wr.loc())


def run(prog: Program, rep: Report, tier: str) -> None:
    rep.level = "proof"
    rep.explanation = (
        "Induction step of the State invariant for every operation in ladim/ that can touch the state: writers of pid/npid are "
        "enumerated over all modules; State.append is evaluated abstractly (concatenate/arange/broadcast as structured atoms) and "
        "its post-state compared with pid' = pid ++ [npid, npid+n), npid' = npid + n, var' = var ++ n values; compactify filters "
        "exactly the instance variables with one pre-bound alive mask; every other store is an element-wise function of the "
        "current array of the same variable; the output applies no permutation."
    )
    rep.assumptions = [
        "numpy: concatenate keeps both orders, boolean indexing is order-preserving, broadcast_to yields the requested length",
        "plug-in IBMs modify the state only through state[name] = element-wise value and the alive mask",
    ]
    rep.trusted_base = ["CPython ast", "numpy semantics of concatenate / boolean indexing / broadcast_to (appendix A.1)", "sa/interp.py, sa/statefx.py, this rule module"]
    rep.rule("R05.1", "who may write pid / npid: State.__init__, append, compactify, warm_start only", 5)
    rep.rule("R05.2", "append: pid' = pid ++ arange(npid, npid+n); npid' = npid+n; every other variable extended by n values; validation before stores", 8)
    rep.rule("R05.3", "compactify: one alive mask bound before the loop, boolean indexing of every instance variable and nothing else", 4)
    rep.rule("R05.4", "length provenance: every other store to a state variable is an element-wise function of the current array", 8)
    rep.rule("R05.5", "no reordering on output", 3)
    who_may_write(prog, rep)
    append_step(prog, rep)
    compactify_step(prog, rep)
    provenance(prog, rep)
    no_reorder_on_output(prog, rep)
    from ..share import share

    share(prog, rep, "C08", ("R08.1",), "R05.6", "a restart restores identifiers and rows of the last record only (slices of the warm-start reader)", 3)
    share(prog, rep, "C06", ("R06.6",), "R05.8", "in the dense layout the identifier of a particle is its row: rows are removed (compactification) only under the sparse layout, which writes the identifier with every row", 1, only=lambda o: "compactif" in o.construct or "call site" in o.construct)
    share(prog, rep, "C08", ("R08.2",), "R05.7", "a restart continues the identifiers after every identifier used so far", 0)



from ..selftest import Mut  # noqa: E402

ST = "ladim/state.py"
TR = "ladim/tracker.py"
ON = "ladim/out_netcdf.py"
AUDIT = [
    Mut("defaults-override-arguments", ST, "        value_vars: dict[str, Any] = dict(self.default_values, **args)\n        for name in state_vars:\n            if name not in value_vars:\n                value_vars[name] = np.nan\n", "        value_vars: dict[str, Any] = dict.fromkeys(state_vars, np.nan)\n        value_vars.update(args)\n        value_vars.update(self.default_values)\n", rule="R05.2"),
    Mut("no-nan-fill", ST, "        value_vars: dict[str, Any] = dict(self.default_values, **args)\n        for name in state_vars:\n            if name not in value_vars:\n                value_vars[name] = np.nan\n", "        value_vars: dict[str, Any] = dict(self.default_values, **args)\n", rule="R05.2"),
    Mut("benign-precedence-by-update", ST, "        value_vars: dict[str, Any] = dict(self.default_values, **args)\n        for name in state_vars:\n            if name not in value_vars:\n                value_vars[name] = np.nan\n", "        value_vars: dict[str, Any] = dict.fromkeys(state_vars, np.nan)\n        value_vars.update(self.default_values)\n        value_vars.update(args)\n", expect="silent"),
    Mut("benign-precedence-by-comprehension", ST, "        value_vars: dict[str, Any] = dict(self.default_values, **args)\n        for name in state_vars:\n            if name not in value_vars:\n                value_vars[name] = np.nan\n", "        value_vars: dict[str, Any] = {name: args.get(name, self.default_values.get(name, np.nan)) for name in state_vars}\n", expect="silent"),
    Mut("compactify-skipped-when-all-dead", ST, "        if n_remove > 0:\n", "        if n_alive == 0 or n_remove == 0:\n            return\n        if True:\n", rule="R05.3"),
    Mut("benign-compactify-guard-clause", ST, "        if n_remove > 0:\n", "        if n_particles == 0 or n_alive == n_particles:\n            return\n        if True:\n", expect="silent"),
    Mut("extinction-wipes-particle-variables", ST, "        if n_remove > 0:\n", "        if n_particles > 0 and n_alive == 0:\n            for var, dtype in self.dtypes.items():\n                self.variables[var] = np.array([], dtype)\n        elif n_remove > 0:\n", rule="R05.3"),
    Mut("pid-from-len", ST, "np.arange(self.npid, self.npid + num_new_particles, dtype=int),", "np.arange(len(self), len(self) + num_new_particles, dtype=int),", rule="R05.2"),
    Mut("npid-not-advanced", ST, "        self.npid = self.npid + num_new_particles\n", "", rule="R05.2"),
    Mut("npid-advanced-by-one", ST, "        self.npid = self.npid + num_new_particles\n", "        self.npid = self.npid + 1\n", rule="R05.2"),
    Mut("new-first", ST, "            self.variables[var] = np.concatenate((self.variables[var], values[var]))", "            self.variables[var] = np.concatenate((values[var], self.variables[var]))", rule="R05.2"),
    Mut("append-loop-all", ST, '        state_vars = set(self.variables) - {"pid"}', "        state_vars = set(self.instance_variables) - {'pid'}", rule="R05.2"),
    Mut("compactify-all-variables", ST, "            for var in self.instance_variables:\n                self.variables[var] = self.variables[var][alive]", "            for var in self.variables:\n                self.variables[var] = self.variables[var][alive]", rule="R05.3"),
    Mut("compactify-live-mask", ST, "                self.variables[var] = self.variables[var][alive]", "                self.variables[var] = self.variables[var][self.alive]", rule="R05.3"),
    Mut("compactify-sorted", ST, "                self.variables[var] = self.variables[var][alive]", "                self.variables[var] = np.sort(self.variables[var][alive])", rule="R05.3"),
    Mut("tracker-writes-pid", TR, '        state["Y"] = Y1\n', '        state["Y"] = Y1\n        state["pid"] = state.pid[::-1]\n', rule="R05.1"),
    Mut("tracker-resets-npid", TR, '        state["Y"] = Y1\n', '        state["Y"] = Y1\n        state.npid = len(state)\n', rule="R05.1"),
    Mut("tracker-stores-subset", TR, '        state["X"] = X1\n', '        state["X"] = X1[state.alive]\n', rule="R05.4"),
    Mut("output-sorted", ON, "                self.nc.variables[var][start:end] = getattr(state, var)", "                self.nc.variables[var][start:end] = np.sort(getattr(state, var))", rule="R05.5"),
    Mut("benign-no-copy", ST, "            alive = self.alive.copy()", "            alive = self.alive", expect="silent"),
    Mut("benign-sorted-loop", ST, "            for var in self.instance_variables:", "            for var in sorted(self.instance_variables):", expect="silent"),
    Mut("benign-npid-aug", ST, "        self.npid = self.npid + num_new_particles\n", "        self.npid += num_new_particles\n", expect="silent"),
]
