"""C19 - step protocol: release, forcing, output, move, IBM; once per step in that order.

Decided from the source: the word of resolved role-method calls on *every* path of
Model.update, main, finish, the warm block and load_module (path enumeration is
exhaustive for these small functions -> level proof).  Not decided: what user
plug-ins do inside their update methods.
"""

from __future__ import annotations

import ast

from ..paths import enumerate_paths, path_calls
from ..program import AnalysisError, Program, unparse, short, walk_no_nested, inline_helpers
from ..report import Report
from ..words import Ev, Word, words, int_threshold

STEP_WORD = ["time.update", "release.update", "forcing.update", "output.update", "tracker.update", "ibm.update"]


def _update_words(prog: Program):
    fi = prog.view("model.Model.update")
    ws = words(prog, fi, depth=3)
    return fi, ws


def step_word_analysis(prog: Program, rep: Report, rule: str = "R19.1") -> list[str]:
    """Returns the role-update word of Model.update on the output-taking path."""
    fi, ws = _update_words(prog)
    full: list[str] = []
    for w in ws:
        calls = [e for e in w.events if e.kind == "call" and e.label.endswith(".update")]
        labels = [e.label for e in calls]
        conds = [e for e in w.events if e.kind == "cond"]
        desc = w.path.describe() if w.path else ""
        has_out = "output.update" in labels
        expected = [x for x in STEP_WORD if x != "output.update" or has_out]
        if w.exit == "raise":
            rep.bad(rule, fi.qual, f"path {desc}", "a path of Model.update ends in raise", fi.loc())
            continue
        rep.check(
            rule,
            fi.qual,
            f"call word on path {' '.join(c.label for c in conds) or '(no branch)'}",
            labels == expected,
            what_bad=f"role-update calls are {labels}, protocol requires {expected} ({desc})",
            what_ok=" -> ".join(labels),
            loc=fi.loc(),
        )
        # the gate: output.update is executed iff step >= 0, where step is the
        # timer's step read after the clock update
        gate_conds = []
        if has_out:
            idx = w.events.index(next(e for e in w.events if e.label == "output.update"))
            gate_conds = [e for e in w.events[:idx] if e.kind == "cond"]
            full = labels
        else:
            gate_conds = conds
        gate_ok = False
        for c in gate_conds:
            test = c.node
            taken = c.label.endswith(":T")
            th = int_threshold(test)
            if th is None and isinstance(test, ast.UnaryOp) and isinstance(test.op, ast.Not):
                th2 = int_threshold(test.operand)
                if th2 is not None:
                    th = th2
                    taken = not taken
            if th is None:
                # `step < 0` form: true iff NOT (step >= 0)
                from ..words import cmp_norm

                n = cmp_norm(test)
                if n and n[1] in ("<", "<="):
                    try:
                        cval = int(ast.literal_eval(n[2]))
                        th = (n[0], cval if n[1] == "<" else cval + 1)
                        taken = not taken
                    except Exception:
                        pass
            if th is None:
                continue
            var, cst = th
            if cst == 0 and _is_timer_step(prog, fi, var) and taken == has_out:
                gate_ok = True
        rep.check(
            rule,
            fi.qual,
            f"output gate on path with{'' if has_out else 'out'} output.update",
            gate_ok,
            what_bad="output.update must be executed iff the timer's step >= 0 (no such gate on this path)",
            what_ok="gated by step >= 0",
            loc=fi.loc(),
        )
    if len(ws) < 2:
        rep.bad(rule, fi.qual, "paths of Model.update", f"expected a gated and an ungated path, found {len(ws)}", fi.loc())
    return full


def _is_timer_step(prog: Program, fi, var: str) -> bool:
    """`var` is the timer's step, read *after* the clock update."""
    env = prog.type_env(fi)
    if var.endswith(".step") and env.get(var[: -len(".step")]) == "time":
        return True
    seen_update = False
    for node in fi.node.body:
        for sub in walk_no_nested(node):
            if isinstance(sub, ast.Call):
                from ..words import role_label

                if role_label(prog, fi, sub, env) == "time.update":
                    seen_update = True
        if isinstance(node, ast.Assign) and len(node.targets) == 1 and unparse(node.targets[0]) == var:
            v = node.value
            if isinstance(v, ast.Attribute) and v.attr == "step" and env.get(unparse(v.value)) == "time":
                return seen_update
    return False


def main_loop_analysis(prog: Program, rep: Report, rule: str = "R19.2") -> None:
    fi = inline_helpers(prog, prog.func("main.main"))

    def classify(f, call, env):
        fn = call.func
        if isinstance(fn, ast.Name) and fn.id == "Model":
            return "Model()"
        if isinstance(fn, ast.Attribute) and unparse(fn.value) in prog._model_locals(f):
            return f"model.{fn.attr}"
        if isinstance(fn, ast.Name) and fn.id == "configure":
            return "configure()"
        return None

    ws = words(prog, fi, depth=1, unroll=(0, 1, 2), classify=classify)
    seen = set()
    for w in ws:
        labs = [e.label for e in w.events if e.kind == "call" and (e.label.startswith("model.") or e.label in ("Model()", "configure()"))]
        iters = sum(1 for e in w.events if e.kind == "iter" and _is_time_loop(e.node))
        key = (tuple(labs), iters)
        if key in seen:
            continue
        seen.add(key)
        expected = ["configure()", "Model()"] + ["model.update"] * iters + ["model.finish"]
        rep.check(
            rule,
            fi.qual,
            f"call word with {iters} loop iteration(s)",
            labs == expected,
            what_bad=f"calls are {labs}, expected {expected}",
            what_ok=" ".join(labs),
            loc=fi.loc(),
        )
    # trip count of the time loop = Nsteps
    loops = [n for n in walk_no_nested(fi.node) if isinstance(n, ast.For) and _is_time_loop(n)]
    if len(loops) != 1:
        rep.bad(rule, fi.qual, "time loop", f"expected exactly one loop calling model.update, found {len(loops)}", fi.loc())
        return
    loop = loops[0]
    tc = trip_count(loop.iter, fi.node)
    rep.check(
        rule,
        fi.qual,
        f"trip count of `for ... in {short(loop.iter)}`",
        tc is not None and tc.endswith(".timer.Nsteps") or tc == "Nsteps",
        what_bad=f"time loop must run exactly Nsteps times; iterable is {short(loop.iter)}",
        what_ok=f"trip count = {tc}",
        loc=fi.loc(loop),
    )


def _is_time_loop(node) -> bool:
    if not isinstance(node, (ast.For, ast.While)):
        return False
    for sub in ast.walk(node):
        if isinstance(sub, ast.Call) and isinstance(sub.func, ast.Attribute) and sub.func.attr == "update":
            return True
    return False


def trip_count(it: ast.expr, fn: ast.AST = None):
    """range(a) -> a; range(0, a) -> a; range(a, b)/step -> None (not normalised here).
    With `fn`, single-assignment local temporaries are expanded first (n = timer.Nsteps; range(n))."""
    if fn is not None:
        from ..program import expand_locals

        it = expand_locals(it, fn)
    if isinstance(it, ast.Call) and isinstance(it.func, ast.Name) and it.func.id == "range" and not it.keywords:
        if len(it.args) == 1:
            return unparse(it.args[0])
        if len(it.args) == 2 and isinstance(it.args[0], ast.Constant) and it.args[0].value == 0:
            return unparse(it.args[1])
        if (
            len(it.args) == 3
            and isinstance(it.args[0], ast.Constant)
            and it.args[0].value == 0
            and isinstance(it.args[2], ast.Constant)
            and it.args[2].value == 1
        ):
            return unparse(it.args[1])
    return None


def finish_analysis(prog: Program, rep: Report, rule: str = "R19.3") -> None:
    from ..program import inline_class_constants, inline_helpers

    fi = inline_helpers(prog, inline_class_constants(prog, prog.func("model.Model.finish")))
    # roles whose default class (or a repo base) defines close
    need = []
    for role in prog.role_class:
        try:
            prog.role_func(role, "close")
            need.append(role)
        except AnalysisError:
            pass
    loops = [n for n in fi.node.body if isinstance(n, ast.For)]
    names = None
    for node in walk_no_nested(fi.node):
        if isinstance(node, ast.Assign) and isinstance(node.value, (ast.List, ast.Tuple)):
            vals = [e.value for e in node.value.elts if isinstance(e, ast.Constant)]
            if vals and all(v in prog.role_class for v in vals):
                names = vals
    if len(loops) == 1 and names is None and isinstance(loops[0].iter, (ast.List, ast.Tuple)):
        names = [e.value for e in loops[0].iter.elts if isinstance(e, ast.Constant)]
    if len(loops) == 1 and names is None and unparse(loops[0].iter) in ("self.modules", "self.modules.keys()", "self.modules.values()"):
        names = list(prog.role_class)
    if names is None or len(loops) != 1:
        raise AnalysisError("Model.finish: cannot find the loop over a literal list of role names")
    rep.check(rule, fi.qual, f"role list {names}", len(names) == len(set(names)), what_bad="a role is listed twice: its close would be called twice", what_ok="no duplicates", loc=fi.loc())
    for role in need:
        rep.check(
            rule,
            fi.qual,
            f"role {role} (its class defines close)",
            role in names,
            what_bad=f"role {role!r} defines close() but Model.finish never closes it",
            what_ok="closed",
            loc=fi.loc(),
        )
    # body: on each path the number of close() calls is 0 or 1, and 1 on the path
    # where hasattr(...) is true
    loop = loops[0]
    n_close_paths = 0
    # close = getattr(module, "close", None): the bound method under a local name
    bound = {n.targets[0].id for n in ast.walk(loop) if isinstance(n, ast.Assign) and isinstance(n.targets[0], ast.Name) and isinstance(n.value, ast.Call) and unparse(n.value.func) == "getattr" and len(n.value.args) == 3 and isinstance(n.value.args[1], ast.Constant) and n.value.args[1].value == "close"}
    for p in enumerate_paths(loop.body):
        closes = [c for c in path_calls(p) if (isinstance(c.func, ast.Attribute) and c.func.attr == "close") or (isinstance(c.func, ast.Name) and c.func.id in bound)]
        conds_true = all(t for _, t in p.conds())
        if conds_true:
            n_close_paths += 1
            rep.check(
                rule,
                fi.qual,
                f"loop body path {p.describe()}",
                len(closes) == 1,
                what_bad=f"close() is called {len(closes)} times for a module that has it",
                what_ok="close called once",
                loc=fi.loc(loop),
            )
        else:
            rep.check(
                rule,
                fi.qual,
                f"loop body path {p.describe()}",
                len(closes) <= 1,
                what_bad=f"close() is called {len(closes)} times",
                what_ok=f"{len(closes)} close call(s)",
                loc=fi.loc(loop),
            )
    # the loop must not be left early
    for node in ast.walk(loop):
        if isinstance(node, (ast.Break, ast.Return)):
            rep.bad(rule, fi.qual, short(node), "the closing loop is left early; later modules are never closed", fi.loc(node))
    # nothing after a close may raise for a *missing* close: guarded by hasattr
    guards = [n for n in ast.walk(loop) if isinstance(n, ast.Call) and unparse(n.func) == "hasattr"]
    if bound:
        # getattr with a default never raises; the call must then sit under callable(name) / `is not None` / truthiness
        for n in ast.walk(loop):
            if isinstance(n, ast.If):
                t = unparse(n.test)
                if any(t in (f"callable({b})", f"{b} is not None", b, f"{b} is not None and callable({b})") for b in bound):
                    guards.append(n)
    rep.check(rule, fi.qual, "hasattr guard", bool(guards), what_bad="close() is not guarded by hasattr: plug-ins without close crash the run at the end", what_ok="guarded", loc=fi.loc(loop))


def ctor_order_analysis(prog: Program, rep: Report, rule: str = "R19.4") -> None:
    order = prog.role_order
    if not order:
        raise AnalysisError("Model.__init__: literal list module_names not found")
    rep.check(rule, "model.Model.__init__", f"module_names {order}", set(order) == set(prog.role_class) and len(order) == len(set(order)), what_bad=f"roles constructed {order} differ from init_module's table {sorted(prog.role_class)}", what_ok="all roles constructed once", loc="ladim/model.py")
    # the constructor loop passes self.modules and the role's own section
    init = prog.view("model.Model.__init__")
    found = False
    loopvar = {}
    for node in walk_no_nested(init.node):
        if isinstance(node, ast.For) and isinstance(node.target, ast.Name):
            for sub in ast.walk(node):
                loopvar[id(sub)] = node.target.id
    for sub in walk_no_nested(init.node):
        if isinstance(sub, ast.Call) and unparse(sub.func) == "init_module" and sub.args:
            found = True
            # the role: the loop variable, or (loop over the literal table unrolled) the literal itself
            v = loopvar.get(id(sub)) or unparse(sub.args[0])
            args = [unparse(a) for a in sub.args]
            rep.check(
                rule,
                init.qual,
                short(sub),
                args[:3] == [v, f"config[{v}]", "self.modules"],
                what_bad=f"each role must be built from its own section and the shared registry, got {args}",
                what_ok="init_module(name, config[name], self.modules)",
                loc=init.loc(sub),
            )
    if not found:
        raise AnalysisError("Model.__init__: constructor loop over module_names not found")
    for role in order:
        try:
            ctor = prog.role_func(role, "__init__")
        except AnalysisError:
            continue
        for node in walk_no_nested(ctor.node):
            if isinstance(node, ast.Subscript) and unparse(node.value) in ("modules", "self.modules") and isinstance(node.slice, ast.Constant):
                dep = node.slice.value
                if dep in order:
                    rep.check(
                        rule,
                        ctor.qual,
                        f"{unparse(node)} read while constructing {role!r}",
                        order.index(dep) < order.index(role),
                        what_bad=f"role {dep!r} is constructed after {role!r}: the registry has no such entry yet",
                        what_ok=f"{dep} is constructed before {role}",
                        loc=ctor.loc(node),
                    )


def load_module_analysis(prog: Program, rep: Report, rule: str = "R19.5") -> None:
    from ..program import inline_helpers

    fi = inline_helpers(prog, prog.func("model.load_module"))
    n_file = n_imp = 0
    for p in enumerate_paths(fi.node.body):
        calls = [unparse(c.func) for c in path_calls(p)]
        exists = [(t, taken) for t, taken in p.conds() if "exists" in unparse(t) or "is_file" in unparse(t)]
        from_file = any("spec_from_file_location" in c or "exec_module" in c for c in calls)
        from_path = any(c.endswith("import_module") for c in calls)
        if not exists:
            rep.bad(rule, fi.qual, p.describe(), "a path does not test whether the module file exists", fi.loc())
            continue
        t, taken = exists[0]
        if taken:
            n_file += 1
            rep.check(
                rule,
                fi.qual,
                f"file exists: {p.describe()}",
                from_file and not from_path and p.exit == "return",
                what_bad="when the file exists it must be loaded from that path and returned (no search-path import)",
                what_ok="loaded from file, returned",
                loc=fi.loc(),
            )
        else:
            n_imp += 1
            rep.check(
                rule,
                fi.qual,
                f"no such file: {p.describe()}",
                from_path and not from_file and p.exit in ("return", "raise"),
                what_bad="without a file the module must be imported from the search path",
                what_ok="import_module",
                loc=fi.loc(),
            )
    if n_file == 0 or n_imp == 0:
        rep.bad(rule, fi.qual, "branches", "both a load-from-file and an import branch are required", fi.loc())
    # the tested file is module_name (+ .py); same object is loaded
    im = prog.func("model.init_module")
    src = unparse(im.node)
    get_ok = False
    for node in walk_no_nested(im.node):
        if isinstance(node, ast.Call) and isinstance(node.func, ast.Attribute) and node.func.attr == "get" and node.args and isinstance(node.args[0], ast.Constant) and node.args[0].value == "module":
            get_ok = len(node.args) == 2
    rep.check(rule, im.qual, "conf_dict.get('module', default)", get_ok, what_bad="the configured module must be used, else the role default", what_ok="configured module else role default", loc=im.loc())
    # MainClass(modules=all_modules_dict, **conf_dict) with 'module' removed
    ctor_ok = False
    for node in walk_no_nested(im.node):
        if isinstance(node, ast.Return) and isinstance(node.value, ast.Call):
            kws = {k.arg: unparse(k.value) for k in node.value.keywords}
            ctor_ok = kws.get("modules") == "all_modules_dict" and None in kws and kws[None] == "conf_dict"
    rep.check(rule, im.qual, "MainClass(modules=..., **conf_dict)", ctor_ok, what_bad="the role class must receive the registry and its section", what_ok="registry and section passed", loc=im.loc())
    rep.check(rule, im.qual, "role tables", set(prog.role_module) == set(prog.role_class) and len(prog.role_class) >= 8, what_bad=f"default-module table {sorted(prog.role_module)} and class table {sorted(prog.role_class)} differ", what_ok=f"{len(prog.role_class)} roles in both tables", loc=im.loc())
    for role, mod in prog.role_module.items():
        cls = prog.role_class.get(role)
        ok = mod in prog.modules and cls in prog.modules[mod].classes
        rep.check(rule, im.qual, f"default {role} -> ladim.{mod}.{cls}", ok, what_bad=f"class {cls} does not exist in ladim/{mod}.py", what_ok="exists", loc=im.loc())


def warm_block_analysis(prog: Program, rep: Report, step_word: list[str], rule: str = "R19.6") -> None:
    init = prog.view("model.Model.__init__")
    block = None
    for node in init.node.body:
        if isinstance(node, ast.If) and "warm_start" in unparse(node.test):
            block = node
    if block is None:
        raise AnalysisError("Model.__init__: no `if config['warm_start']` block")

    def classify(f, call, env):
        if isinstance(call.func, ast.Name) and call.func.id == "warm_start":
            return "warm_start()"
        return None

    ws = words(prog, init, body=block.body, depth=2, classify=classify, keep_assigns=True)
    expected = ["warm_start()"] + [x for x in step_word if x not in ("time.update", "output.update")]
    for w in ws:
        labs = [e.label for e in w.events if e.kind == "call" and (e.label.endswith(".update") or e.label == "warm_start()")]
        rep.check(
            rule,
            init.qual,
            "warm block call word",
            labs == expected,
            what_bad=f"catch-up step calls {labs}; must equal the step protocol without clock and output: {expected}",
            what_ok=" -> ".join(labs),
            loc=init.loc(block),
        )
        # step = 0 and time = step2time(step) before the first update
        evs = w.events
        first_upd = next((i for i, e in enumerate(evs) if e.kind == "call" and e.label.endswith(".update")), len(evs))
        pre = [e for e in evs[:first_upd] if e.kind == "assign"]
        step0 = any(
            isinstance(e.node, ast.Assign) and unparse(e.node.targets[0]).endswith(".step") and unparse(e.node.value) == "0"
            for e in pre
        )
        time0 = any(
            isinstance(e.node, ast.Assign)
            and unparse(e.node.targets[0]).endswith(".time")
            and isinstance(e.node.value, ast.Call)
            and unparse(e.node.value.func).endswith("step2time")
            for e in pre
        )
        # ... and the clock must be the time OF step 0: the argument of step2time is the step counter after it
        # was reset (or a literal 0), not the value left by the constructor (-1)
        cur = None  # value of timer.step as far as the block has set it
        time_of = None
        for e in pre:
            if not isinstance(e.node, ast.Assign):
                continue
            t = unparse(e.node.targets[0])
            if t.endswith(".step"):
                try:
                    cur = ast.literal_eval(e.node.value)
                except Exception:  # noqa: BLE001
                    cur = "?"
            elif t.endswith(".time") and isinstance(e.node.value, ast.Call) and unparse(e.node.value.func).endswith("step2time") and e.node.value.args:
                a = e.node.value.args[0]
                if unparse(a).endswith(".step"):
                    time_of = cur if cur is not None else "the constructor's step (-1)"
                else:
                    try:
                        time_of = ast.literal_eval(a)
                    except Exception:  # noqa: BLE001
                        time_of = "?"
        rep.check(rule, init.qual, "the clock of the catch-up step is the time of step 0", time_of == 0 and cur == 0, what_bad=f"timer.time is set from step2time({time_of}) and timer.step ends as {cur}: every time written by the restarted run is off by one step", what_ok="time = step2time(0), step = 0", loc=init.loc(block))
        rep.check(rule, init.qual, "clock set to step 0 before the catch-up step", step0 and time0, what_bad="the warm block must set timer.step = 0 and timer.time = step2time(step) before releasing/forcing", what_ok="step = 0, time = step2time(step)", loc=init.loc(block))
        post_assign_step = [
            e for e in evs[first_upd:] if e.kind == "assign" and isinstance(e.node, ast.Assign) and unparse(e.node.targets[0]).endswith((".step", ".time"))
        ]
        rep.check(rule, init.qual, "clock untouched after the catch-up calls began", not post_assign_step, what_bad="clock modified in the middle of the catch-up step", what_ok="ok", loc=init.loc(block))


def run(prog: Program, rep: Report, tier: str) -> None:
    rep.level = "proof"
    rep.explanation = (
        "Exhaustive path enumeration of Model.update, main, Model.finish, the warm-start block and "
        "load_module; on every path the word of resolved role-method calls is compared with the "
        "step protocol.  Static: nothing is executed."
    )
    rep.trusted_base = [
        "CPython ast (parsing)",
        "role typing read from init_module's two literal tables and Model.__init__'s annotated attributes",
        "this checker (sa/words.py, sa/paths.py, sa/rules/c19.py)",
    ]
    rep.assumptions = [
        "user plug-ins (IBM, forcing, grid, output given by path) do what their update/close methods say; their bodies are not analysed",
        "exceptions raised inside role methods abort the run (not modelled as paths)",
    ]
    rep.rule("R19.1", "Model.update: on every path time, release, forcing, [output iff step>=0], tracker, ibm - each once, in this order", 4)
    rep.rule("R19.2", "main: configure, Model(config), model.update exactly once per iteration of a loop with trip count Nsteps, finish once after it", 3)
    rep.rule("R19.3", "Model.finish closes every role that has close(), once, guarded by hasattr", 5)
    rep.rule("R19.4", "constructor dependency order: registry reads during construction refer to earlier roles", 6)
    rep.rule("R19.5", "load_module: existing file wins and returns before import_module; init_module honours the configured module", 5)
    rep.rule("R19.6", "warm block = step protocol minus clock and output, after step=0 / time=step2time(0)", 3)
    word = step_word_analysis(prog, rep)
    main_loop_analysis(prog, rep)
    finish_analysis(prog, rep)
    ctor_order_analysis(prog, rep)
    load_module_analysis(prog, rep)
    warm_block_analysis(prog, rep, word or [x for x in STEP_WORD])
    from ..share import share

    share(prog, rep, "C06", ("R06.3", "R06.6"), "R19.7", "the record written in a step carries the clock of that step and only the particles alive in it", 4)
    share(prog, rep, "C18", ("R18.5",), "R19.8", "the modules named in the configuration are the ones that run: grid / forcing module defaults of configure_v2", 2, only=lambda o: "module" in o.construct.lower())



from ..selftest import Mut  # noqa: E402

M = "ladim/model.py"
MAIN = "ladim/main.py"
AUDIT = [
    Mut("swap-tracker-output", M, "        if step >= 0:\n            self.output.update()\n\n        # --- Update state to next time step\n        # Improve: no need to update after last write\n        self.tracker.update()\n", "        self.tracker.update()\n        if step >= 0:\n            self.output.update()\n", rule="R19.1"),
    Mut("force-before-release", M, "        self.release.update()\n        self.force.update()\n\n        # self.state.compactify()", "        self.force.update()\n        self.release.update()\n\n        # self.state.compactify()", rule="R19.1"),
    Mut("ibm-twice", M, "        self.tracker.update()\n        self.ibm.update()\n\n    def finish", "        self.tracker.update()\n        self.ibm.update()\n        self.ibm.update()\n\n    def finish", rule="R19.1"),
    Mut("gate-gt0", M, "        if step >= 0:\n            self.output.update()", "        if step > 0:\n            self.output.update()", rule="R19.1"),
    Mut("ungated-output", M, "        if step >= 0:\n            self.output.update()", "        self.output.update()", rule="R19.1"),
    Mut("ibm-conditional", M, "        self.tracker.update()\n        self.ibm.update()\n\n    def finish", "        self.tracker.update()\n        if step >= 0:\n            self.ibm.update()\n\n    def finish", rule="R19.1"),
    Mut("warm-no-tracker", M, "            self.force.update()\n            self.tracker.update()\n            self.ibm.update()", "            self.force.update()\n            self.ibm.update()", rule="R19.6"),
    Mut("warm-step-late", M, "            self.timer.step = 0\n            self.timer.time = self.timer.step2time(self.timer.step)\n            self.release.update()", "            self.release.update()\n            self.timer.step = 0\n            self.timer.time = self.timer.step2time(self.timer.step)", rule="R19.6"),
    Mut("finish-drop-forcing", M, 'module_names = ["grid", "forcing", "release", "tracker", "ibm", "output"]', 'module_names = ["grid", "release", "tracker", "ibm", "output"]', rule="R19.3"),
    Mut("finish-dup", M, 'module_names = ["grid", "forcing", "release", "tracker", "ibm", "output"]', 'module_names = ["grid", "forcing", "release", "tracker", "ibm", "output", "ibm"]', rule="R19.3"),
    Mut("finish-break", M, "                module.close()\n", "                module.close()\n                break\n", rule="R19.3"),
    Mut("main-loop-plus1", MAIN, "for _step in range(model.timer.Nsteps):", "for _step in range(model.timer.Nsteps + 1):", rule="R19.2"),
    Mut("main-finish-in-loop", MAIN, "        model.update()\n", "        model.update()\n        model.finish()\n", rule="R19.2"),
    Mut("main-update-twice", MAIN, "        model.update()\n", "        model.update()\n        model.update()\n", rule="R19.2"),
    Mut("benign-release-last", M, '            "release",\n            "tracker",\n            "ibm",\n            "output",', '            "tracker",\n            "ibm",\n            "output",\n            "release",', expect="silent"),
    Mut("tracker-before-time", M, '            "state",\n            "time",\n            "grid",\n            "forcing",\n            "release",\n            "tracker",', '            "state",\n            "tracker",\n            "time",\n            "grid",\n            "forcing",\n            "release",', rule="R19.4"),
    Mut("grid-after-forcing", M, '            "grid",\n            "forcing",', '            "forcing",\n            "grid",', rule="R19.4"),
    Mut("import-first", M, "    # First try to load the module from a file\n    if file_name.exists():", "    try:\n        return importlib.import_module(module_name)\n    except ModuleNotFoundError:\n        pass\n    if file_name.exists():", rule="R19.5"),
    Mut("ignore-config-module", M, 'module_name = conf_dict.get("module", default_module_name)', "module_name = default_module_name", rule="R19.5"),
    Mut("benign-logging", M, "        self.release.update()\n        self.force.update()\n\n        # self.state.compactify()", "        self.release.update()\n        logger.debug('released')\n        self.force.update()\n\n        # self.state.compactify()", expect="silent"),
    Mut("benign-gate-spelling", M, "        if step >= 0:\n            self.output.update()", "        if not step < 0:\n            self.output.update()", expect="silent"),
    Mut("benign-helper", M, "        self.tracker.update()\n        self.ibm.update()\n\n    def finish", "        self._advance()\n\n    def _advance(self) -> None:\n        self.tracker.update()\n        self.ibm.update()\n\n    def finish", expect="silent"),
    Mut("benign-range0", MAIN, "for _step in range(model.timer.Nsteps):", "for _step in range(0, model.timer.Nsteps):", expect="silent"),
]
