"""Shared rule: per-particle arrays that are paired element by element are indexed by the same particle list.

Decided by abstract interpretation in the index-space domain (sa/spacedomain.py) of one model step:
Forcing.update (level lookup, sampling of the forcing into the state), then Tracker.update with every advection
scheme, through Forcing.velocity and the sampling functions down to the compiled kernels. The attributes the
modules keep between the two calls (forcing.K / A, forcing.variables[...], tracker.dx / dy) carry their tag
from the place they are assigned to the place they are used.

Used as R14.7 (a particle's result does not depend on the other particles), R02.7 (a particle is sampled at its
own position with its own level), R01.6 (the stages of a scheme use the particle's own metric) and R15.3 (the
bottom under the particle itself).
"""

from __future__ import annotations

import ast

from ..interp import Interp, Phi, Ref, Tup, Unsupported, make_flag_decide
from ..program import AnalysisError, AnchorMissing, Program, short, unparse
from ..report import Report
from ..spacedomain import FULL, M, P, S, Sp, SpaceDomain

STATE_MASKS = ("alive", "active")


def _ret_arity(fi) -> int:
    from ..program import single_defs

    for n in ast.walk(fi.node):
        if isinstance(n, ast.Return) and n.value is not None:
            v = n.value
            if isinstance(v, ast.Name):
                v = single_defs(fi.node).get(v.id, v)  # `result = (K, A); return result`
            if isinstance(v, ast.Tuple):
                return len(v.elts)
            return 1
    return 0


def analyse(prog: Program):
    cache = prog.__dict__.setdefault("_align_cache", {})
    if "res" in cache:
        return cache["res"]
    dom = SpaceDomain()
    state_vars = set()
    st = prog.role_func("state", "__init__")
    for n in ast.walk(st.node):
        if isinstance(n, ast.Constant) and isinstance(n.value, str) and n.value.isidentifier():
            state_vars.add(n.value)
    state_vars |= {"X", "Y", "Z", "pid", "alive", "active"}

    def tag_of_state(name: str) -> Sp:
        return M(FULL, f"state.{name}") if name in STATE_MASKS else P(FULL, f"state.{name}")

    def attr_hook(node, fr, it):
        dom.context = fr.fi.qual
        try:
            path = it.path_of(node, fr)
        except Exception:  # noqa: BLE001
            path = None
        if path and path.startswith("state.") and "." not in path[6:] and "[" not in path[6:]:
            name = path[6:]
            if path in it.objenv:
                return it.objenv[path]
            if name in ("variables", "default_values", "dtypes", "instance_variables", "particle_variables", "npid", "modules"):
                return NotImplemented
            return tag_of_state(name)
        return NotImplemented

    def hook(node, fr, it):
        dom.context = fr.fi.qual
        fn = unparse(node.func)
        if fn == "len" and node.args:
            v = it.eval(node.args[0], fr)
            if isinstance(v, Ref) and v.path == "state":
                return Sp("N", FULL, "")
            return NotImplemented
        # reading the forcing files does not involve the particle list
        if fn in ("self._read_velocity",):
            return Tup([S, S])
        if fn in ("self._read_field",):
            return S
        if fn in ("self.open_forcing_file", "self._select_file"):
            return None
        targets = []
        try:
            targets = prog.resolve_call(fr.fi, node, it._tenv(fr.fi))
        except AnalysisError:
            targets = []
        if fn == "self.advect" and not targets:
            names = prog.dynamic_attr_names(fr.fi, "advect") if hasattr(prog, "dynamic_attr_names") else []
            targets = [prog.func(f"{fr.fi.module.name}.{fr.fi.cls}.{n}") for n in names]
        if len(targets) > 1:
            res = None
            for t in targets:
                r = it.inline(t, node, fr, it.path_of(node.func.value, fr) if isinstance(node.func, ast.Attribute) else None)
                res = r if res is None else it._join("scheme", res, r)
            return res
        if len(targets) == 1 and targets[0].is_kernel:
            k = targets[0]
            vals = [it.eval(a, fr) for a in node.args if not isinstance(a, ast.Starred)] + [it.eval(kw.value, fr) for kw in node.keywords if kw.arg]
            flat = []
            for v in vals:
                flat += list(v.items) if isinstance(v, Tup) else [v]
            r = dom.merge(flat, node, f"compiled kernel {k.name}")
            n = _ret_arity(k)
            out = r if r.kind != "S" else S
            if n > 1:
                return Tup([out] * n)
            return out if n == 1 else None
        return NotImplemented

    it = Interp(prog, dom, depth=6, call_hook=hook, attr_hook=attr_hook)
    it.decide_hook = None
    entries = []
    try:
        fu = prog.role_func("forcing", "update")
        dom.context = fu.qual
        it.run(fu, {}, "forcing")
        entries.append(fu.qual)
        tu = prog.role_func("tracker", "update")
        it.decide_hook = make_flag_decide(dict(advection=True, diffusion=True, vertdiff=True, vertical_advection=True))
        dom.context = tu.qual
        it.run(tu, {}, "tracker")
        it.decide_hook = None
        entries.append(tu.qual)
    except Unsupported as e:
        raise AnalysisError(f"index-space analysis: {e}") from e
    # what the step leaves in the state must be indexed by the state's own list
    for k, v in sorted(it.objenv.items()):
        if k.startswith("state.") and isinstance(v, Sp) and v.kind in ("P", "M", "I") and v.space != FULL:
            dom.findings.append((entries[-1], None, f"the step stores into {k} an array indexed by {v.space}, not by the rows of the state"))
    res = (dom, it, entries)
    cache["res"] = res
    return res


def report(prog: Program, rep: Report, rule: str, what: str) -> None:
    dom, it, entries = analyse(prog)
    visited = sorted(it.visited_functions)
    for fn, node, msg in dom.findings:
        try:
            fi = prog.func(fn)
            loc = fi.loc(node) if node is not None else fi.loc()
        except (AnchorMissing, AnalysisError):
            loc = fn
        rep.bad(rule, fn, short(node, 80) if node is not None else "state after the step", msg, loc)
    if dom.pairings < 20:
        raise AnalysisError(f"index-space analysis saw only {dom.pairings} element-wise pairings (about 60 expected): entry points not reached")
    rep.ok(rule, " + ".join(entries), f"{dom.pairings} element-wise pairings in {len(visited)} functions share one particle list ({what})", "", "ladim/tracker.py")


def argument_order(prog: Program, rep: Report, rule: str) -> None:
    """Same-named arguments bind to same-named parameters: where a call inside the package passes plain
    variables whose names are also parameter names of the function it reaches (X, Y, Z, force, grid, timer, ...),
    each must stand at the position of the parameter of that name. `advect(Y, X, Z, force)` type-checks, runs, and
    samples the current of the transposed position."""
    from .. import statefx

    n = 0
    for fi in prog.all_functions():
        if fi.module.name in statefx.SKIP_MODULES or fi.module.name.startswith("ibms"):
            continue
        try:
            env = prog.type_env(fi)
        except AnalysisError:
            env = {}
        for c in ast.walk(fi.node):
            if not isinstance(c, ast.Call) or len(c.args) < 2 or any(isinstance(a, ast.Starred) for a in c.args):
                continue
            try:
                targets = prog.resolve_call(fi, c, env)
            except AnalysisError:
                targets = []
            if not targets and isinstance(c.func, ast.Attribute) and unparse(c.func) == "self.advect":
                targets = [prog.func(f"{fi.module.name}.{fi.cls}.{nm}") for nm in prog.dynamic_attr_names(fi, "advect")]
            for g in targets:
                params = [p_ for p_ in g.params if p_ not in ("self", "cls")]
                if g.name == "__init__":
                    continue
                given = [(i, a.id) for i, a in enumerate(c.args) if isinstance(a, ast.Name)]
                common = [(i, nm) for i, nm in given if nm in params]
                if len(common) < 2:
                    continue
                n += 1
                wrong = [(nm, i, params.index(nm)) for i, nm in common if params.index(nm) != i]
                rep.check(rule, fi.qual, f"{short(c, 70)} -> {g.qual}({', '.join(params[:5])}{', ...' if len(params) > 5 else ''})", not wrong, what_bad="; ".join(f"`{nm}` is passed at position {i + 1} but is parameter {j + 1} of the callee" for nm, i, j in wrong) + ": the callee works on exchanged values", what_ok="by position = by name", loc=fi.loc(c))
    if n < 10:
        raise AnalysisError(f"only {n} calls with same-named arguments found (about 25 expected)")
