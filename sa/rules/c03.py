"""C03 - forcing in time: linear between bracketing frames for any frame/file layout.

Decided: (R03.1) the file is selected by identity for the requested step; (R03.2) the inductive
invariant of (u, u_new, dU) - u = F(t_i) + (s - t_i)*slope, dU = slope, u_new = F(t_i+1) - is
established by __init__ and preserved by every path of update (abstract post-state compared in
the normal-form domain); (R03.3) u/v twins; (R03.4) the step list is sorted before use;
(R03.5) velocity(fractional_step=c) samples u + c*dU for every c the schemes use; (R03.6) scalar
fields are read at the step of the frame held; (R03.7) step -> (file, frame) tables are built
consistently.  Not decided: values on real data, frames off the step lattice.
"""

from __future__ import annotations

import ast
from typing import Any, Optional

from ..interp import Frame, Interp, Phi, Ref, Tup, vtext
from ..nf import NF
from ..nfdomain import NFDomain
from ..paths import enumerate_paths, path_calls
from ..program import AnalysisError, Program, bind_args, unparse, short, walk_no_nested, increment_of, xunparse, single_defs
from ..report import Report
from .. import roms


# ----------------------------------------------------------------------
def _common_hook(prog, notes):
    def hook(node: ast.Call, fr, it: Interp):
        fn = unparse(node.func)
        if fn == "z2s":
            return Tup([NF.atom("K"), NF.atom("A")])
        if fn == "self.force_particles":
            return None
        if fn == "self._read_velocity":
            a = it.num(it.eval(node.args[0], fr)) if node.args else it.num(it.eval(node.keywords[0].value, fr))
            notes.setdefault("reads", []).append(a.canon())
            return Tup([NF.atom(f"Fu({a.canon()})"), NF.atom(f"Fv({a.canon()})")])
        if fn == "self._read_field":
            name = it.eval(node.args[0], fr)
            a = it.num(it.eval(node.args[1], fr))
            notes.setdefault("field_reads", []).append((vtext(name), a.canon()))
            return NF.atom(f"Fs({a.canon()})")
        if isinstance(node.func, ast.Attribute) and node.func.attr == "index" and len(node.args) == 1:
            recv = it.eval(node.func.value, fr)
            if vtext(recv) in ("steps", "forcing.steps"):
                a = it.num(it.eval(node.args[0], fr))
                return NF.atom(f"idx({a.canon()})")
        if fn == "forcing_steps":
            return Tup([NF.atom("steps"), Ref("file_idx"), Ref("frame_idx")])
        if fn == "find_files":
            return Ref("files")
        if isinstance(node.func, ast.Attribute) and node.func.attr == "copy" and not node.args:
            return it.eval(node.func.value, fr)
        return NotImplemented

    return hook


def update_post(prog: Program, at_frame: bool, has_next: bool):
    """Abstract post-state of Forcing.update for one case of the two structural tests."""
    fi = prog.lview(prog.role_func("forcing", "update"), keep=("_read_velocity", "_read_field", "_select_file"))
    dom = NFDomain(scalars={"step"})
    notes: dict = {"undecided": []}
    hook = _common_hook(prog, notes)

    def decide(test: ast.expr, fr, it: Interp):
        if isinstance(test, ast.Compare) and len(test.ops) == 1 and isinstance(test.ops[0], (ast.In, ast.NotIn)):
            left = it.eval(test.left, fr)
            right = it.eval(test.comparators[0], fr)
            if vtext(right) in ("steps", "forcing.steps") and isinstance(it.num(left), NF) and it.num(left) == NF.atom("step"):
                return at_frame if isinstance(test.ops[0], ast.In) else not at_frame
            notes["undecided"].append(unparse(test))
            return None
        try:
            v = it.eval(test, fr)
        except Exception:
            return None
        if isinstance(v, NF) and not v.is_const():
            t = v.canon()
            if "idx(step)" in t and "len(steps)" in t and t.split("(")[0] in ("lt", "le", "gt", "ge", "ne", "eq"):
                # i + 1 < len(steps) and equivalent spellings: decided by the case flag
                op = t.split("(")[0]
                a, b = test.left, test.comparators[0]
                lhs, rhs = it.num(it.eval(a, fr)), it.num(it.eval(b, fr))
                d = lhs - rhs  # idx + c - len
                if d.coeff("idx(step)") == NF.const(-1):
                    # written the other way round (len(steps) > i + 1): the same test with the sides exchanged
                    d = -d
                    op = {"lt": "gt", "gt": "lt", "le": "ge", "ge": "le"}.get(op, op)
                c = d - NF.atom("idx(step)") + NF.atom("len(steps)")
                if c.is_const():
                    cv = c.const_value()
                    # has_next <=> idx + 1 < len <=> idx + 1 - len < 0  <=> idx - len <= -2
                    # test: idx - len + cv  op 0
                    # evaluate for the two cases: last frame: idx - len = -1 ; has next: idx - len <= -2 (use -2 and -3)
                    def ev(x):
                        val = x + cv
                        return {"lt": val < 0, "le": val <= 0, "gt": val > 0, "ge": val >= 0, "eq": val == 0, "ne": val != 0}[op]
                    if has_next:
                        r1, r2 = ev(-2), ev(-3)
                        if r1 == r2:
                            return r1
                        notes["undecided"].append(unparse(test))
                        return None
                    return ev(-1)
            notes["undecided"].append(unparse(test))
        return None

    it = Interp(prog, dom, depth=2, call_hook=hook, decide_hook=decide)
    pre = {
        "forcing.fields['u']": NF.atom("u"),
        "forcing.fields['v']": NF.atom("v"),
        "forcing.fields['u_new']": NF.atom("un"),
        "forcing.fields['v_new']": NF.atom("vn"),
        "forcing.fields['dU']": NF.atom("dU"),
        "forcing.fields['dV']": NF.atom("dV"),
        "forcing.steps": NF.atom("steps"),
        "forcing.stepdiff": NF.atom("diff(steps)"),
        "time.step": NF.atom("step"),
        "state.X": NF.atom("X"),
        "state.Y": NF.atom("Y"),
        "state.Z": NF.atom("Z"),
    }
    it.objenv.update(pre)
    _, fr = it.run(fi, {}, "forcing")
    # every `return` inside update is an exit too: its state must satisfy the same obligations
    notes["early_exits"] = [(st, env) for st, env in fr.return_states]
    return it.objenv, notes, fi


def init_post(prog: Program, has_pre: bool):
    fi = prog.role_func("forcing", "__init__")
    dom = NFDomain(scalars={"p"})
    notes: dict = {"undecided": []}
    base_hook = _common_hook(prog, notes)

    def hook(node, fr, it):
        fn = unparse(node.func)
        if fn == "max" and len(node.args) == 1:
            dflt = [k.value for k in node.keywords if k.arg == "default"]
            if dflt and not has_pre:
                return it.eval(dflt[0], fr)  # max(<no frame before the start>, default=d) = d
            return NF.atom("p")
        if fn == "super().__init__":
            return None
        return base_hook(node, fr, it)

    def decide(test, fr, it):
        t = unparse(test)
        if isinstance(test, ast.Name):
            v = fr.env.get(test.id)
            if isinstance(v, Ref) and v.path.startswith("obj:["):
                return has_pre  # `if V` on the list of frame steps before the start
        if isinstance(test, ast.Compare) and len(test.ops) == 1 and isinstance(test.ops[0], (ast.Eq, ast.NotEq)):
            l = it.eval(test.left, fr)
            r = it.eval(test.comparators[0], fr)
            if isinstance(l, NF) and isinstance(r, NF) and l == NF.atom("p") and r.is_zero():
                return isinstance(test.ops[0], ast.NotEq)  # p < 0 by construction
        return None

    it = Interp(prog, dom, depth=2, call_hook=hook, decide_hook=decide)
    it.run(fi, dict(modules=Ref("modules"), filename=Ref("filename")), "forcing")
    return it.objenv, notes, fi


def field(env, key):
    return env.get(f"forcing.fields['{key}']")


def same(a, b) -> bool:
    return isinstance(a, NF) and isinstance(b, NF) and a == b


def handover_invariant(prog: Program, rep: Report) -> None:
    rule = "R03.2"
    nxt = NF.atom("steps[1 + idx(step)]")
    sd = NF.atom("diff(steps)[idx(step)]")
    for comp, (u, un, dU, F) in {"u": ("u", "u_new", "dU", "Fu"), "v": ("v", "v_new", "dV", "Fv")}.items():
        r = "R03.2" if comp == "u" else "R03.3"
        a_un, a_u, a_d = NF.atom("un" if comp == "u" else "vn"), NF.atom(comp), NF.atom("dU" if comp == "u" else "dV")
        # case A: frame step with a following frame
        env, notes, fi = update_post(prog, True, True)
        Fn = NF.atom(f"{F}({nxt.canon()})")
        rep.check(r, fi.qual, f"frame step: {u} <- {un} (hand-over)", same(field(env, u), a_un), what_bad=f"at a frame step the field in force must be the frame itself; got {vtext(field(env, u))}", what_ok="u = u_new", loc=fi.loc())
        rep.check(r, fi.qual, f"frame step: {un} <- frame at steps[i+1] (load)", same(field(env, un), Fn), what_bad=f"after the hand-over the next frame (steps[index(step)+1]) must be loaded; {un} is {vtext(field(env, un))} (undecided tests: {notes['undecided']})", what_ok=f"{un} = read(steps[i+1])", loc=fi.loc())
        rep.check(r, fi.qual, f"frame step: {dU} <- ({un} - {u}) / stepdiff[i] (slope)", same(field(env, dU), (Fn - a_un) / sd), what_bad=f"the increment must be the slope of the interval that begins at this frame, (next - this)/stepdiff[index(step)]; got {vtext(field(env, dU))}", what_ok="slope of the new interval", loc=fi.loc())
        # case A': last frame
        env, notes, fi = update_post(prog, True, False)
        rep.check(r, fi.qual, f"last frame: {u} <- {un}, nothing read past the end", same(field(env, u), a_un) and not notes.get("reads"), what_bad=f"{u} = {vtext(field(env, u))}, reads {notes.get('reads')}", what_ok="hand-over only", loc=fi.loc())
        # case B: between frames
        env, notes, fi = update_post(prog, False, True)
        rep.check(r, fi.qual, f"between frames: {u} += {dU}", same(field(env, u), a_u + a_d), what_bad=f"must advance by exactly one increment; got {vtext(field(env, u))} (undecided tests: {notes['undecided']})", what_ok="u + dU", loc=fi.loc())
        rep.check(r, fi.qual, f"between frames: {un}, {dU} unchanged, nothing read", same(field(env, un), a_un) and same(field(env, dU), a_d) and not notes.get("reads"), what_bad=f"{un} = {vtext(field(env, un))}, {dU} = {vtext(field(env, dU))}, reads {notes.get('reads')}", what_ok="unchanged", loc=fi.loc())
    # early exits: a `return` before the end must leave the fields in the same state as the normal exit
    for at_frame, has_next, label in ((True, True, "frame step"), (False, True, "between frames")):
        env, notes, fi = update_post(prog, at_frame, has_next)
        for st, e2 in notes.get("early_exits", []):
            same_state = all(vtext(e2.get(f"forcing.fields['{k}']")) == vtext(env.get(f"forcing.fields['{k}']")) for k in ("u", "v", "u_new", "v_new", "dU", "dV"))
            rep.check("R03.2", fi.qual, f"early exit `{short(st)}` at line {st.lineno} ({label})", same_state, what_bad=f"update returns before the fields are advanced ({ {k: vtext(e2.get(chr(102)+'orcing.fields['+repr(k)+']')) for k in ('u', 'dU')} }): the forcing lags behind the clock from this step on", what_ok="same field state as the normal exit", loc=fi.loc(st))
    # scalars (R03.6)
    env, notes, fi = update_post(prog, True, True)
    fr_reads = notes.get("field_reads", [])
    rep.check("R03.6", fi.qual, "frame step: scalar fields read at the current step", bool(fr_reads) and all(a == "step" for _, a in fr_reads), what_bad=f"scalar forcing must be the frame at the current step (latest at or before); reads: {fr_reads}", what_ok="_read_field(name, step)", loc=fi.loc())
    env, notes, fi = update_post(prog, False, True)
    rep.check("R03.6", fi.qual, "between frames: scalar fields kept", not notes.get("field_reads"), what_bad=f"scalar read between frames: {notes.get('field_reads')}", what_ok="no read", loc=fi.loc())
    # __init__ establishes the invariant at step -1
    for has_pre in (True, False):
        env, notes, fi = init_post(prog, has_pre)
        p = NF.atom("p") if has_pre else NF.const(0)
        idx = NF.atom(f"idx({p.canon()})")
        nxt0 = NF.atom(f"steps[{(1 + idx).canon()}]")
        sd0 = NF.atom(f"diff(steps)[{idx.canon()}]")
        case = "a frame before the start (prestep < 0)" if has_pre else "first frame at the start (prestep = 0)"
        for comp, (u, un, dU, F) in {"u": ("u", "u_new", "dU", "Fu"), "v": ("v", "v_new", "dV", "Fv")}.items():
            r = "R03.2" if comp == "u" else "R03.3"
            Fp = NF.atom(f"{F}({p.canon()})")
            Fn = NF.atom(f"{F}({nxt0.canon()})")
            slope = (Fn - Fp) / sd0
            rep.check(r, fi.qual, f"init, {case}: {dU} = slope of the first interval", same(field(env, dU), slope), what_bad=f"got {vtext(field(env, dU))}", what_ok="(next - pre)/stepdiff[i]", loc=fi.loc())
            rep.check(r, fi.qual, f"init, {case}: {u} = field at step -1", same(field(env, u), Fp - (p + 1) * slope), what_bad=f"must be frame(prestep) - (prestep + 1)*slope; got {vtext(field(env, u))}", what_ok="interpolated to step -1", loc=fi.loc())
            want_new = Fn if has_pre else Fp
            rep.check(r, fi.qual, f"init, {case}: {un} = {'next frame' if has_pre else 'the frame at step 0'}", same(field(env, un), want_new), what_bad=f"got {vtext(field(env, un))}", what_ok="ok", loc=fi.loc())
        fr_reads = notes.get("field_reads", [])
        rep.check("R03.6", fi.qual, f"init, {case}: scalar fields read at prestep", bool(fr_reads) and all(a == p.canon() for _, a in fr_reads), what_bad=f"reads {fr_reads}", what_ok="_read_field(name, prestep)", loc=fi.loc())
        rep.check("R03.4", fi.qual, f"init, {case}: self.steps is the list the tables were built from", vtext(env.get("forcing.steps")) == "steps" and vtext(env.get("forcing.stepdiff")) == "diff(steps)", what_bad=f"steps={vtext(env.get('forcing.steps'))} stepdiff={vtext(env.get('forcing.stepdiff'))}", what_ok="same list", loc=fi.loc())


def storage_not_shared(prog: Program, rep: Report, rule: str = "R03.10") -> None:
    """The fields of the hand-over (u, u_new, dU, ... in `self.fields`) are separate arrays wherever one of them is
    written in place: `u += dU` (and any `-=`, `[...] =`, `out=`) must not reach storage that another field entry may
    hold on the same path - otherwise advancing the field in force also rewrites the frame that is handed over later."""
    from ..alias import shared_writes

    mod = prog.module(prog.role_module["forcing"])
    cls = prog.role_class["forcing"]
    n = 0
    for fi in mod.functions.values():
        if fi.cls != cls:
            continue
        n += 1
        reps = shared_writes(fi.node, lambda s: s.startswith("self.fields["))
        rep.check(rule, fi.qual, "in-place writes reach one field entry only", not reps, what_bad="; ".join(f"line {getattr(at, 'lineno', '?')}: in-place write through `{t}` reaches storage that {' and '.join(h)} may both hold (bound without a copy earlier on this path)" for at, t, h in reps), what_ok="no in-place write to storage shared by two field entries", loc=fi.loc(reps[0][0]) if reps else fi.loc())
    if n == 0:
        rep.add(rule, f"{mod.name}.{cls}", "methods of the forcing class", None, "no methods found", "")


def memo_invalidation(prog: Program, rep: Report, rule: str = "R03.11") -> None:
    """A value the forcing keeps for later calls (an attribute that a method looks up before computing and fills
    afterwards) is dropped on every path of every method that writes something it was computed from: the fields
    advance in every model step, so an interpolated field kept since the last frame belongs to an earlier time."""
    from ..alias import memo_attrs, stale_memo_paths

    mod = prog.module(prog.role_module["forcing"])
    cls = prog.role_class["forcing"]
    methods = [fi for fi in mod.functions.values() if fi.cls == cls]
    memos = {}
    for fi in methods:
        for m, deps in memo_attrs(fi.node).items():
            memos.setdefault(m, (fi, set()))[1].update(deps)
    if not memos:
        rep.ok(rule, f"{mod.name}.{cls}", "no value is memoised between calls", "none", methods[0].loc() if methods else "", nontrivial=False)
        return
    for m, (owner, deps) in sorted(memos.items()):
        for fi in methods:
            if fi.name == owner.name:
                continue
            try:
                bad = stale_memo_paths(fi.node, m, deps)
            except OverflowError:
                rep.add(rule, fi.qual, f"memo self.{m} (filled in {owner.name})", None, "too many paths to enumerate", fi.loc())
                continue
            rep.check(rule, fi.qual, f"memo self.{m} (filled in {owner.name}, computed from {sorted(deps)[:6]}) is dropped on every path that writes its inputs", not bad, what_bad="; ".join(f"line {n.lineno}: `{short(n, 70)}` writes {s_} and the path leaves self.{m} as it was" for n, s_ in bad[:3]) + f": {owner.name} then answers with a value computed from the earlier contents", what_ok="invalidated or not written", loc=fi.loc(bad[0][0]) if bad else fi.loc())


def prestart_frame(prog: Program, rep: Report, rule: str = "R03.2") -> None:
    """The frame the constructor primes from is the last one strictly before the start: a frame exactly on the
    start (step 0) must be the *next* frame, which the first update hands over to - were it taken as the pre-start
    frame, the first update would jump to the frame after it."""
    fi = prog.lview(prog.role_func("forcing", "__init__"), keep=("_read_velocity", "_read_field", "_select_file"))
    sel = []
    for n in walk_no_nested(fi.node):
        if isinstance(n, (ast.ListComp, ast.GeneratorExp, ast.SetComp)) and len(n.generators) == 1 and n.generators[0].ifs:
            g = n.generators[0]
            if isinstance(g.target, ast.Name) and unparse(g.iter) in ("steps", "self.steps") and unparse(n.elt) == g.target.id:
                sel.append((n, g))
    if not sel:
        rep.add(rule, fi.qual, "pre-start frame: last frame strictly before the start", None, "the selection of the frames before the start was not found as a filter over `steps`", fi.loc())
        return
    for n, g in sel:
        ok = False
        for t in g.ifs:
            if isinstance(t, ast.Compare) and len(t.ops) == 1 and unparse(t.left) == g.target.id and isinstance(t.comparators[0], (ast.Constant, ast.UnaryOp)):
                try:
                    c = ast.literal_eval(t.comparators[0])
                except Exception:  # noqa: BLE001
                    continue
                ok = ok or (isinstance(t.ops[0], ast.Lt) and c == 0) or (isinstance(t.ops[0], ast.LtE) and c == -1)
        rep.check(rule, fi.qual, f"pre-start frame: `{short(n, 60)}` keeps frames strictly before step 0", ok, what_bad="a frame exactly on the start would be taken as the pre-start frame: the first update then hands over to the frame after it and the velocity of the first interval is that of the next one", what_ok="step < 0", loc=fi.loc(n))


def sorted_steps(prog: Program, rep: Report) -> None:
    """steps.sort() after forcing_steps() and before np.diff / index / subscripts."""
    fi = prog.role_func("forcing", "__init__")
    state = "none"
    uses_before = []
    name = None
    for st in fi.node.body:
        src = unparse(st)
        if isinstance(st, ast.Assign) and isinstance(st.value, ast.Call) and unparse(st.value.func) == "forcing_steps":
            t = st.targets[0]
            name = unparse(t.elts[0]) if isinstance(t, ast.Tuple) else None
            state = "raw"
            continue
        if name is None:
            continue
        if isinstance(st, ast.Expr) and isinstance(st.value, ast.Call) and unparse(st.value.func) == f"{name}.sort" and not st.value.keywords:
            state = "sorted"
            continue
        if isinstance(st, ast.Assign) and unparse(st.value) == f"sorted({name})" and unparse(st.targets[0]) == name:
            state = "sorted"
            continue
        if state == "raw":
            for n in ast.walk(st):
                if isinstance(n, ast.Name) and n.id == name:
                    uses_before.append(short(st))
                    break
    if name is None:
        raise AnalysisError("Forcing.__init__: call to forcing_steps not found")
    rep.check("R03.4", fi.qual, f"`{name}` sorted before np.diff / index / {name}[i+1]", state == "sorted" and not uses_before, what_bad=f"the step list is used unsorted (needed when time is reversed: frames come in decreasing step order); uses before sort: {uses_before or 'never sorted'}", what_ok="steps.sort() precedes every use", loc=fi.loc())


def file_selection(prog: Program, rep: Report) -> None:
    rule = "R03.1"
    op = prog.role_func("forcing", "open_forcing_file")
    ts = [p for p in op.params if p != "self"][0]
    ident = None
    odefs = single_defs(op.node)
    for node in walk_no_nested(op.node):
        if isinstance(node, ast.Assign) and len(node.targets) == 1 and isinstance(node.targets[0], ast.Attribute):
            tgt = unparse(node.targets[0])
            if xunparse(node.value, op.node, odefs) == f"self.file_idx[{ts}]" and tgt != "self._nc":
                ident = tgt
    opened = [n for n in walk_no_nested(op.node) if isinstance(n, ast.Call) and unparse(n.func) == "Dataset"]
    rep.check(rule, op.qual, "opens Dataset(self.file_idx[step])", len(opened) == 1 and xunparse(opened[0].args[0], op.node, odefs) == f"self.file_idx[{ts}]", what_bad=f"the file opened must be the one holding the requested step: {[short(n) for n in opened]}", what_ok="file of the requested step", loc=op.loc())
    rep.check(rule, op.qual, "records which file is open", ident is not None, what_bad="no attribute records the identity of the open file (self.file_idx[step]); a later request cannot tell whether the right file is open", what_ok=f"{ident} = self.file_idx[{ts}]", loc=op.loc())

    def selects(fi, step_param: str, upto: Optional[ast.AST] = None, depth: int = 2) -> list[tuple[bool, str]]:
        """For every path of fi (up to the first `_nc.variables` read): is the right file open?"""
        res = []
        for p in enumerate_paths(fi.node.body):
            ok = False
            reason = "no selection on this path"
            reached_read = False
            conds_true = []
            for s in p.steps:
                node = s[1]
                if s[0] == "cond":
                    conds_true.append((unparse(node), s[2]))
                    # identity comparison
                    if ident and isinstance(node, ast.Compare) and len(node.ops) == 1:
                        l, r = xunparse(node.left, fi.node), xunparse(node.comparators[0], fi.node)
                        pair = {l, r}
                        if pair == {f"self.file_idx[{step_param}]", ident}:
                            eq = isinstance(node.ops[0], ast.Eq)
                            ne = isinstance(node.ops[0], ast.NotEq)
                            if (eq and s[2]) or (ne and not s[2]):
                                ok, reason = True, "identity of the open file equals file_idx[step]"
                if s[0] in ("stmt", "cond"):
                    for c in ast.walk(node):
                        if isinstance(c, ast.Call):
                            fn = unparse(c.func)
                            if fn == "self.open_forcing_file" and c.args and unparse(c.args[0]) == step_param:
                                ok, reason = True, "open_forcing_file(step)"
                            elif fn.startswith("self.") and depth > 0:
                                try:
                                    g = prog.func(f"ROMS.{fi.cls}.{fn[5:]}")
                                except AnalysisError:
                                    g = None
                                if g is not None and g.name not in ("open_forcing_file",) and c.args and unparse(c.args[0]) == step_param and len([q for q in g.params if q != "self"]) >= 1:
                                    gp = [q for q in g.params if q != "self"][0]
                                    sub = selects(g, gp, None, depth - 1)
                                    if sub and all(x for x, _ in sub):
                                        ok, reason = True, f"{g.name}(step) selects on all its paths"
                                    elif sub and any("_nc" in unparse(n) for n in ast.walk(g.node) if isinstance(n, ast.Attribute)):
                                        bad = [r for x, r in sub if not x]
                                        if "open_forcing_file" in unparse(g.node):
                                            ok, reason = False, f"{g.name}: {bad[0] if bad else ''}"
                if s[0] == "stmt":
                    if any(isinstance(n, ast.Attribute) and unparse(n) == "self._nc.variables" for n in ast.walk(node)):
                        reached_read = True
                        break
            if fi.name.startswith("_read"):
                if reached_read:
                    res.append((ok, reason + " [" + " ".join(f"{t}={'T' if k else 'F'}" for t, k in conds_true) + "]"))
            else:
                if p.exit in ("fall", "return"):
                    res.append((ok, reason + " [" + " ".join(f"{t}={'T' if k else 'F'}" for t, k in conds_true) + "]"))
        return res

    for meth in ("_read_velocity", "_read_field"):
        fi = prog.role_func("forcing", meth)
        params = [p for p in fi.params if p != "self"]
        # the step parameter is the one used as key of frame_idx
        step_param = None
        for node in walk_no_nested(fi.node):
            if isinstance(node, ast.Subscript) and unparse(node.value) == "self.frame_idx":
                step_param = unparse(node.slice)
        if step_param not in params:
            rep.bad(rule, fi.qual, "frame index", f"the record read must be self.frame_idx[<step parameter>], found key {step_param}", fi.loc())
            continue
        results = selects(fi, step_param)
        if not results:
            raise AnalysisError(f"{fi.qual}: no path reaches a read of self._nc.variables")
        for ok, why in results:
            rep.check(rule, fi.qual, f"file holding `{step_param}` is open before the read: path {why.split('[')[-1].rstrip(']') or '(no branch)'}", ok, what_bad=f"on this path the read uses whatever file happens to be open ({why}); a request for a step in another file (reversed runs, first read straddling files) reads the wrong frame", what_ok=why.split(" [")[0], loc=fi.loc())
        # frame = frame_idx[step] feeds the subscript
        reads = [n for n in walk_no_nested(fi.node) if isinstance(n, ast.Subscript) and isinstance(n.value, ast.Subscript) and unparse(n.value.value) == "self._nc.variables"]
        for r in reads:
            first = r.slice.elts[0] if isinstance(r.slice, ast.Tuple) else r.slice
            src = unparse(first)
            ok = src == f"self.frame_idx[{step_param}]"
            if not ok and isinstance(first, ast.Name):
                for node in walk_no_nested(fi.node):
                    if isinstance(node, ast.Assign) and unparse(node.targets[0]) == first.id:
                        ok = unparse(node.value) == f"self.frame_idx[{step_param}]"
            rep.check(rule, fi.qual, f"record index of `{short(r, 60)}`", ok, what_bad=f"the record must be frame_idx[{step_param}], got {src}", what_ok=f"frame_idx[{step_param}]", loc=fi.loc(r))


def fractional(prog: Program, rep: Report) -> None:
    rule = "R03.5"
    # fractions used by the schemes
    fracs = set()
    tr = prog.module("tracker")
    from ..program import unroll_literal_loops

    for fi in tr.functions.values():
        for node in walk_no_nested(unroll_literal_loops(fi.node)):  # `for frac in (0.5, 0.5, 1.0): ...velocity(fractional_step=frac)`
            if isinstance(node, ast.Call) and isinstance(node.func, ast.Attribute) and node.func.attr == "velocity":
                for kw in node.keywords:
                    if kw.arg == "fractional_step":
                        try:
                            fracs.add(float(ast.literal_eval(kw.value)))
                        except Exception:
                            pass
    fracs |= {0.0}
    vel = prog.role_func("forcing", "velocity")
    for c in sorted(fracs):
        for rev in (False, True):
            res, samples, it, dom = roms.velocity_samples(prog, reversal=rev, frac=NF.const(c))
            sign = -1 if rev else 1
            got = {}
            for fn in roms.effective_fields(res, samples, it):
                if fn is None:
                    continue
                comp = "u" if any("'u'" in a or "'dU'" in a for a in fn.atoms()) else "v"
                got[comp] = fn
            for s in samples:
                if not isinstance(s.field_nf, (NF, Ref)):
                    rep.bad(rule, vel.qual, f"fractional_step={c}, reversal={rev}", f"sampled field depends on a run-time branch: {vtext(s.field_nf)}", vel.loc())
            for comp, d in (("u", "dU"), ("v", "dV")):
                want = sign * (NF.atom(f"forcing.fields['{comp}']") + NF.const(c) * NF.atom(f"forcing.fields['{d}']"))
                g = got.get(comp)
                rep.check(rule if comp == "u" else "R03.3", vel.qual, f"field sampled for {comp} at fractional_step={c:g}, time_reversal={rev}", g is not None and g == want, what_bad=f"must be {'-' if rev else ''}({comp} + {c:g}*{d}): the same interpolation evaluated {c:g} step ahead; got {g}", what_ok=str(want), loc=vel.loc())
    # symbolic: beyond the threshold the coefficient is exactly the parameter
    res, samples, it, dom = roms.velocity_samples(prog, reversal=False, frac=NF.atom("fractional_step"))
    for s in samples:
        arms = roms.flatten_phi(s.field_nf)
        ok = any(isinstance(it.num(leaf), NF) and ("fractional_step" in it.num(leaf).atoms()) and it.num(leaf).coeff("fractional_step").atoms() <= {"forcing.fields['dU']", "forcing.fields['dV']"} and len(it.num(leaf).coeff("fractional_step").atoms()) == 1 for conds, leaf in arms)
        rep.check(rule, vel.qual, f"symbolic fraction: {vtext(s.field_nf)[:70]}", ok, what_bad="no arm of velocity() uses fractional_step * dU", what_ok="u + fractional_step*dU", loc=vel.loc())


def step_tables(prog: Program, rep: Report) -> None:
    rule = "R03.7"
    from ..program import lower_comprehension_loops, record_ctor_as_tuple

    fi = lower_comprehension_loops(prog.lview("ROMS.forcing_steps"))
    outer = [n for n in fi.node.body if isinstance(n, ast.For)]
    nest = None
    for o in outer:
        for sub in o.body:
            if isinstance(sub, ast.For):
                nest = (o, sub)
    if nest is None:
        raise AnalysisError("forcing_steps: nested loop over files and frames not found")
    o, inner = nest
    fvar, ivar = unparse(o.target), unparse(inner.target)
    from ..program import expand_locals
    from fractions import Fraction

    # trip count of the inner loop = number of frames of the file, whatever temporaries are used
    odefs = {}
    for st in o.body:
        if isinstance(st, ast.Assign) and isinstance(st.targets[0], ast.Name):
            odefs[st.targets[0].id] = st.value
    from ..program import _Subst
    import copy

    def ox(e):  # expand names bound in the outer loop body (nrecords = num_frames[fname])
        return unparse(_Subst(odefs).visit(copy.deepcopy(e)))

    rargs = list(inner.iter.args) if isinstance(inner.iter, ast.Call) and unparse(inner.iter.func) == "range" and not inner.iter.keywords else []
    if len(rargs) == 3 and unparse(rargs[2]) == "1":
        rargs = rargs[:2]  # range(a, b, 1)
    if len(rargs) == 2 and unparse(rargs[0]) == "0":
        rargs = rargs[1:]  # range(0, n)
    trip_ok = len(rargs) == 1 and ox(rargs[0]) == f"num_frames[{fvar}]"
    rep.check(rule, fi.qual, f"loops: {short(o, 40)} / {short(inner, 50)}", unparse(o.iter) == "files" and trip_ok, what_bad="frames must be enumerated file by file, 0..num_frames[file]-1", what_ok="file-major, frame-minor", loc=fi.loc(o))
    # loop summary: every integer variable v is  init + a*F (+ b*i at the point of use), F = frames in the
    # preceding files, i = frame number within the file; the index into `steps` must come out as F + i
    inits = {}
    for st in fi.node.body:
        if st is o:
            break
        if isinstance(st, ast.Assign) and isinstance(st.targets[0], ast.Name) and isinstance(st.value, (ast.Constant, ast.UnaryOp)):
            try:
                v = ast.literal_eval(st.value)
                if isinstance(v, int) and not isinstance(v, bool):
                    inits[st.targets[0].id] = v
            except Exception:
                pass
    # the list of steps is what the function returns first (whatever the local is called)
    rets0 = [n for n in walk_no_nested(fi.node) if isinstance(n, ast.Return) and n.value is not None]
    rv0 = record_ctor_as_tuple(prog, fi, rets0[0].value) if rets0 else None
    steps_name = rv0.elts[0].id if isinstance(rv0, ast.Tuple) and rv0.elts and isinstance(rv0.elts[0], ast.Name) else "steps"
    stepdef = [n for n in inner.body if isinstance(n, ast.Assign) and isinstance(n.value, ast.Subscript) and unparse(n.value.value) == steps_name]
    problems = []
    summary = {}
    for name, init in inits.items():
        k_in = 0
        before_use = 0
        conditional = False
        for pos, st in enumerate(inner.body):
            inc = increment_of(st)
            if inc and inc[0] == name:
                k_in += inc[1]
                if stepdef and pos < inner.body.index(stepdef[0]):
                    before_use += inc[1]
            elif any(isinstance(x, (ast.Assign, ast.AugAssign)) and name in {unparse(t) for t in (x.targets if isinstance(x, ast.Assign) else [x.target])} for x in ast.walk(st)):
                conditional = True
        k_out_n = 0
        k_out_c = 0
        for st in o.body:
            if st is inner:
                continue
            if isinstance(st, ast.AugAssign) and isinstance(st.op, ast.Add) and unparse(st.target) == name:
                if ox(st.value) == f"num_frames[{fvar}]":
                    k_out_n += 1
                elif isinstance(st.value, ast.Constant) and isinstance(st.value.value, int):
                    k_out_c += st.value.value
                else:
                    conditional = True
            elif isinstance(st, ast.Assign) and unparse(st.targets[0]) == name:
                inc = increment_of(st)
                if inc and inc[0] == name:
                    k_out_c += inc[1]
                else:
                    conditional = True
            elif any(isinstance(x, (ast.Assign, ast.AugAssign)) and name in {unparse(t) for t in (x.targets if isinstance(x, ast.Assign) else [x.target])} for x in ast.walk(st)):
                conditional = True
        if conditional or k_out_c:
            summary[name] = None
        else:
            summary[name] = (Fraction(k_in + k_out_n), Fraction(k_in and 1 or 0) * k_in, Fraction(init + before_use))  # (coef of F, coef of i, constant)

    def affine(e):
        """-> (a, b, c) meaning a*F + b*i + c, or None."""
        if isinstance(e, ast.Constant) and isinstance(e.value, int):
            return (Fraction(0), Fraction(0), Fraction(e.value))
        if isinstance(e, ast.Name):
            if e.id == ivar:
                return (Fraction(0), Fraction(1), Fraction(0))
            if e.id in summary:
                return summary[e.id]
            if e.id in odefs:
                return None
            return None
        if isinstance(e, ast.BinOp) and isinstance(e.op, (ast.Add, ast.Sub)):
            l, r = affine(e.left), affine(e.right)
            if l is None or r is None:
                return None
            sg = 1 if isinstance(e.op, ast.Add) else -1
            return tuple(x + sg * y for x, y in zip(l, r))
        return None

    idx = affine(stepdef[0].value.slice) if len(stepdef) == 1 else None
    ok = idx == (Fraction(1), Fraction(1), Fraction(0))
    rep.check(rule, fi.qual, "running frame counter", ok, what_bad=f"each frame must take the next entry of `steps`: the index used is {unparse(stepdef[0].value.slice) if stepdef else None} = {idx[0]}*F + {idx[1]}*i + {idx[2]}" if idx else "each frame must take the next entry of `steps` (index = frames in the preceding files + frame number); the index expression is outside the loop summary", what_ok="index = (frames in preceding files) + (frame number in file)", loc=fi.loc(inner))
    svar = unparse(stepdef[0].targets[0]) if stepdef else "step"
    stores = {unparse(n.targets[0]): unparse(n.value) for n in inner.body if isinstance(n, ast.Assign) and isinstance(n.targets[0], ast.Subscript)}
    # the two tables, whatever they are called: the one that receives the file (outer loop variable) and the one
    # that receives the frame number (inner loop variable), both under the key taken from `steps`
    key_sfx = f"[{svar}]"
    file_tab = [t[: -len(key_sfx)] for t, v in stores.items() if t.endswith(key_sfx) and v == fvar]
    frame_tab = [t[: -len(key_sfx)] for t, v in stores.items() if t.endswith(key_sfx) and v == ivar]
    rep.check(rule, fi.qual, "file_idx[step] = file, frame_idx[step] = frame number", len(file_tab) == 1 and len(frame_tab) == 1 and file_tab != frame_tab, what_bad=f"stores are {stores}", what_ok="same key, same iteration", loc=fi.loc(inner))
    # steps built frame by frame with time2step
    apps = [n for n in walk_no_nested(fi.node) if isinstance(n, ast.Call) and unparse(n.func) == f"{steps_name}.append"]
    ok = len(apps) == 1 and isinstance(apps[0].args[0], ast.Call) and unparse(apps[0].args[0].func).endswith(".time2step")
    comp = [n for n in walk_no_nested(fi.node) if isinstance(n, ast.ListComp) and "time2step" in unparse(n)]
    rep.check(rule, fi.qual, "steps = [time2step(t) for t in all_frames]", ok or bool(comp), what_bad="the step of a frame must be timer.time2step(frame time), in frame order", what_ok="time2step per frame", loc=fi.loc())
    ret = [n for n in walk_no_nested(fi.node) if isinstance(n, ast.Return)]
    want_ret = f"({steps_name}, {file_tab[0] if file_tab else 'file_idx'}, {frame_tab[0] if frame_tab else 'frame_idx'})"
    rep.check(rule, fi.qual, "returns (steps, file_idx, frame_idx)", len(ret) == 1 and unparse(record_ctor_as_tuple(prog, fi, ret[0].value)) in (want_ret, want_ret[1:-1]), what_bad=f"returns {unparse(ret[0].value) if ret else None}", what_ok="ok", loc=fi.loc())


def run(prog: Program, rep: Report, tier: str) -> None:
    rep.level = "other"
    rep.explanation = (
        "Forcing.__init__ and every path of Forcing.update are evaluated abstractly (rational normal forms; frame reads are "
        "opaque functions of the requested step) and the post-state of (u, u_new, dU) is compared with the inductive "
        "invariant of linear time interpolation; file selection, sortedness, the step tables and velocity(fractional_step) "
        "are checked structurally. Decides the hand-over algebra for every frame spacing and file layout, not values on real data."
    )
    rep.assumptions = [
        "frames lie on the model step lattice (the property's quantifier); time2step is exact there (C13)",
        "_read_velocity(step) returns the frame stored for `step` once R03.1 and R03.7 hold",
        "not decided: contents of NetCDF files, frames off the lattice",
    ]
    rep.trusted_base = ["CPython ast", "Fraction arithmetic", "sa/nf.py, sa/interp.py, sa/paths.py"]
    rep.rule("R03.1", "file selection by identity: the file holding the requested step is open before every read; record = frame_idx[step]", 5)
    rep.rule("R03.2", "hand-over invariant of (u, u_new, dU): established by __init__, preserved on every path of update", 10)
    rep.rule("R03.3", "v-twins of every u obligation", 10)
    rep.rule("R03.4", "step list sorted before np.diff / index / steps[i+1]; self.steps is that list", 3)
    rep.rule("R03.5", "velocity(fractional_step=c) samples u + c*dU for every c the schemes use; sign flipped when reversed", 7)
    rep.rule("R03.6", "scalar fields are read at the step of the frame held (hand-over step / prestep)", 4)
    rep.rule("R03.7", "forcing_steps: step -> (file, frame) tables built in the same iteration from consecutive entries of steps", 5)
    rep.rule("R03.8", "the forcing is advanced exactly once in every model step, on every path of Model.update (shared with C19 R19.1)", 2)
    from . import c19

    sub = Report(pid="C03")
    c19.step_word_analysis(prog, sub)
    for o in sub.obligations:
        rep.add("R03.8", o.func, f"[{o.rule}] {o.construct}", o.verdict == "ok" if o.verdict != "undecided" else None, o.what, o.loc)
    rep.rule("R03.10", "an in-place write to a field array reaches one entry of self.fields only (no storage shared between the field in force and the frame handed over later), in every method of the forcing class", 8)
    rep.rule("R03.11", "a value memoised between calls of the forcing is dropped on every path that writes what it was computed from", 1)
    storage_not_shared(prog, rep)
    memo_invalidation(prog, rep)
    file_selection(prog, rep)
    handover_invariant(prog, rep)
    prestart_frame(prog, rep)
    sorted_steps(prog, rep)
    fractional(prog, rep)
    step_tables(prog, rep)
    from ..share import share

    share(prog, rep, "C13", ("R13.2", "R13.7"), "R03.9", "forcing frames are mapped to step numbers with the clock's own arithmetic, relative to the start, at full resolution", 6)



from ..selftest import Mut  # noqa: E402

R = "ladim/ROMS.py"
AUDIT = [
    Mut("reopen-on-frame0", R, "        elif self.file_idx[time_step] != self._nc_file:  # Open another file", "        elif self.frame_idx[time_step] == 0:  # Open another file", rule="R03.1"),
    Mut("field-no-select", R, "        self._select_file(n)\n        frame = self.frame_idx[n]", "        frame = self.frame_idx[n]", rule="R03.1"),
    Mut("no-identity-record", R, "        self._nc_file = self.file_idx[time_step]\n", "", rule="R03.1"),
    Mut("frame-of-other-step", R, "        self._select_file(time_step)\n\n        frame = self.frame_idx[time_step]", "        self._select_file(time_step)\n\n        frame = self.frame_idx[time_step - 1]", rule="R03.1"),
    Mut("no-load-at-frame", R, "            i = self.steps.index(step)\n            if i + 1 < len(self.steps):  # Need new fields", "            i = self.steps.index(step)\n            if False:  # Need new fields", rule="R03.2"),
    Mut("stepdiff-index", R, "                nextstep = self.steps[i + 1]\n                stepdiff = self.stepdiff[i]\n                self.fields[\"u_new\"], self.fields[\"v_new\"] = self._read_velocity(\n                    nextstep\n                )\n                # for name", "                nextstep = self.steps[i + 1]\n                stepdiff = self.stepdiff[i + 1]\n                self.fields[\"u_new\"], self.fields[\"v_new\"] = self._read_velocity(\n                    nextstep\n                )\n                # for name", rule="R03.2"),
    Mut("load-same-frame", R, "                nextstep = self.steps[i + 1]\n                stepdiff = self.stepdiff[i]\n                self.fields[\"u_new\"]", "                nextstep = self.steps[i]\n                stepdiff = self.stepdiff[i]\n                self.fields[\"u_new\"]", rule="R03.2"),
    Mut("v-incr-with-dU", R, '                self.fields["v"] += self.fields["dV"]', '                self.fields["v"] += self.fields["dU"]', rule="R03.3"),
    Mut("v-handover-missing", R, '            self.fields["u"] = self.fields["u_new"]\n            self.fields["v"] = self.fields["v_new"]', '            self.fields["u"] = self.fields["u_new"]', rule="R03.3"),
    Mut("dV-from-u", R, '                    self.fields["dV"] = (\n                        self.fields["v_new"] - self.fields["v"]\n                    ) / stepdiff', '                    self.fields["dV"] = (\n                        self.fields["v_new"] - self.fields["u"]\n                    ) / stepdiff', rule="R03.3"),
    Mut("incr-at-frame-too", R, "        else:\n            # \"Ordinary\" time step (including self.steps+1)\n            if interpolate_velocity_in_time:", "        if True:\n            # \"Ordinary\" time step (including self.steps+1)\n            if interpolate_velocity_in_time:", rule="R03.2"),
    Mut("scalar-next-step", R, "                self.fields[name] = self._read_field(name, step)", "                self.fields[name] = self._read_field(name, step + 1)", rule="R03.6"),
    Mut("no-sort", R, "        steps.sort()\n", "", rule="R03.4"),
    Mut("init-prestep-le", R, "        self.fields[\"u\"] = self.fields[\"u\"] - (prestep + 1) * self.fields[\"dU\"]", "        self.fields[\"u\"] = self.fields[\"u\"] - prestep * self.fields[\"dU\"]", rule="R03.2"),
    Mut("init-no-copy-at-start", R, "        if prestep == 0:\n            self.fields[\"u_new\"] = self.fields[\"u\"].copy()\n            self.fields[\"v_new\"] = self.fields[\"v\"].copy()\n", "", rule="R03.2"),
    Mut("init-stepdiff", R, "        stepdiff0 = self.stepdiff[i]", "        stepdiff0 = self.stepdiff[0]", rule="R03.2"),
    Mut("init-scalar-next", R, "            self.fields[name] = self._read_field(name, prestep)", "            self.fields[name] = self._read_field(name, nextstep)", rule="R03.6"),
    Mut("frac-dropped", R, '            U = self.fields["u"] + fractional_step * self.fields["dU"]', '            U = self.fields["u"] + self.fields["dU"]', rule="R03.5"),
    Mut("frac-threshold", R, "        if fractional_step < 0.001:", "        if fractional_step < 0.6:", rule="R03.5"),
    Mut("frac-v-uses-dU", R, '            V = self.fields["v"] + fractional_step * self.fields["dV"]', '            V = self.fields["v"] + fractional_step * self.fields["dU"]', rule="R03.3"),
    Mut("reversal-u-only", R, "            return sample3DUV(-U, -V, X - i0, Y - j0, self.K, self.A, method=method)", "            return sample3DUV(-U, V, X - i0, Y - j0, self.K, self.A, method=method)", rule="R03.3"),
    Mut("frame-idx-counter", R, "            frame_idx[step] = i", "            frame_idx[step] = step_counter", rule="R03.7"),
    Mut("counter-start", R, "    step_counter = -1\n", "    step_counter = 0\n", rule="R03.7"),
    Mut("init-alias-then-inplace", R, "            self.fields[\"u_new\"] = self.fields[\"u\"].copy()\n", "            self.fields[\"u_new\"] = self.fields[\"u\"]\n", rule="R03.10",
        more=((R, "        self.fields[\"u\"] = self.fields[\"u\"] - (prestep + 1) * self.fields[\"dU\"]", "        self.fields[\"u\"] -= (prestep + 1) * self.fields[\"dU\"]"),)),
    Mut("benign-inplace-preroll-with-copy", R, "        self.fields[\"u\"] = self.fields[\"u\"] - (prestep + 1) * self.fields[\"dU\"]", "        self.fields[\"u\"] -= (prestep + 1) * self.fields[\"dU\"]", expect="silent"),
    Mut("memo-fractional-fields", R, "            U = self.fields[\"u\"] + fractional_step * self.fields[\"dU\"]\n", "            if fractional_step not in self._ff:\n                self._ff[fractional_step] = self.fields[\"u\"] + fractional_step * self.fields[\"dU\"]\n            U = self._ff[fractional_step]\n", rule="R03.11",
        more=((R, "        self._first_read = True  # True until first file is opened\n", "        self._first_read = True  # True until first file is opened\n        self._ff = {}\n"),)),
    Mut("benign-counter-form", R, "            step_counter += 1\n", "            step_counter = step_counter + 1\n", expect="silent"),
    Mut("benign-local-fields", R, "        if step in self.steps:  # No time interpolation\n            self.fields[\"u\"] = self.fields[\"u_new\"]", "        if step in self.steps:  # No time interpolation\n            logger.debug('frame step')\n            self.fields[\"u\"] = self.fields[\"u_new\"]", expect="silent"),
    Mut("benign-has-next-spelling", R, "            if i + 1 < len(self.steps):  # Need new fields", "            if i < len(self.steps) - 1:  # Need new fields", expect="silent"),
    Mut("benign-slope-form", R, '                    self.fields["dU"] = (\n                        self.fields["u_new"] - self.fields["u"]\n                    ) / stepdiff', '                    self.fields["dU"] = (\n                        self.fields["u_new"] / stepdiff - self.fields["u"] / stepdiff\n                    )', expect="silent"),
    Mut("benign-sorted-builtin", R, "        steps.sort()\n", "        steps = sorted(steps)\n", expect="silent"),
    Mut("benign-eq-select", R, "        elif self.file_idx[time_step] != self._nc_file:  # Open another file\n            self._nc.close()\n            self.open_forcing_file(time_step)", "        elif self.file_idx[time_step] == self._nc_file:\n            pass\n        else:\n            self._nc.close()\n            self.open_forcing_file(time_step)", expect="silent"),
]
