"""C12 - vertical grid: s-levels ordered inside the water column, depth lookup consistent.

Decided: (R12.1) the level lookup returns a pair and weight whose weighted level depth is -Z clamped to
the level range (per k-region, normal-form identity; with the left-bisect postcondition the weight is in
[0, 1]); (R12.2) sdepth and s_stretch use the same unstretched coordinate for each stagger; (R12.3) end
point identities: every stretching curve takes -1 at S = -1 and 0 at S = 0, every transform maps
(S, C) = (-1, -1) to -h and (0, 0) to 0 - so w-levels start at -h and end at 0; (R12.4) Grid wires
rho/w staggers consistently; unknown stagger / transform / stretching raise.
Not decided: monotonicity and interleaving of the stretching curves between the end points (a
real-analysis fact about sinh/tanh/exp over a parameter box).
"""

from __future__ import annotations

import ast

from ..interp import Interp, Phi, Ref, Tup, vtext
from ..nf import NF
from ..nfdomain import NFDomain
from ..paths import enumerate_paths
from ..program import AnalysisError, Program, unparse, short, walk_no_nested
from ..report import Report
from . import c02


def run_with_S(prog: Program, fname: str, args: dict, S_override=None):
    """Evaluate s_stretch / sdepth; optionally replace the unstretched coordinate S after it is defined."""
    fi = prog.func(f"ROMS.{fname}")
    dom = NFDomain(scalars={"N", "theta_s", "theta_b", "Hc", "H"})
    info = {}

    def hook(node, fr, it):
        fn = unparse(node.func)
        if fn == "np.arange" and len(node.args) == 1:
            info["count"] = it.num(it.eval(node.args[0], fr))
        if fn == "np.linspace" and len(node.args) >= 3:
            info["count"] = it.num(it.eval(node.args[2], fr))
        return NotImplemented

    def stmt_hook(st, fr, it):
        # called *before* st: once S is bound, override it
        if S_override is not None and "S" in fr.env and not info.get("overridden"):
            info["S_orig"] = fr.env["S"]
            fr.env["S"] = S_override
            info["overridden"] = True

    it = Interp(prog, dom, depth=2, call_hook=hook, stmt_hook=stmt_hook)
    res, fr = it.run(fi, dict(args))
    if "S" in fr.env and "S_orig" not in info:
        info["S_orig"] = fr.env["S"]
    return res, fr, info, fi


# ROMS stretching functions as documented (myroms.org "Vertical S-coordinate"): Song & Haidvogel 1994 (1),
# Shchepetkin 2005 (2, alpha = beta = 1), Shchepetkin 2010 (4). Trusted reference table of this checker.
ROMS_STRETCHING_REFERENCE = """
def s_stretch_reference(S, theta_s, theta_b, Vstretching):
    if Vstretching == 1:
        return (1.0 - theta_b) * np.sinh(theta_s * S) / np.sinh(theta_s) + theta_b * (np.tanh(theta_s * (S + 0.5)) / (2.0 * np.tanh(0.5 * theta_s)) - 0.5)
    if Vstretching == 2:
        Csur = (1.0 - np.cosh(theta_s * S)) / (np.cosh(theta_s) - 1.0)
        Cbot = np.sinh(theta_b * (S + 1.0)) / np.sinh(theta_b) - 1.0
        mu = (S + 1.0) * (1.0 + (1.0 - (S + 1.0)))
        return mu * Csur + (1.0 - mu) * Cbot
    if Vstretching == 4:
        C = (1.0 - np.cosh(theta_s * S)) / (np.cosh(theta_s) - 1.0)
        return (np.exp(theta_b * C) - 1.0) / (1.0 - np.exp(-theta_b))
"""


def generic_arm(v):
    """The arm of a two-armed value taken for generic parameters theta_s > 0, theta_b > 0 (special
    cases for a vanishing parameter are limits, outside the formula comparison)."""
    from .. import roms
    from ..words import cmp_norm

    if not isinstance(v, Phi):
        return v
    cands = []
    for conds, leaf in roms.flatten_phi(v):
        keep = True
        for test, taken in conds:
            truth = None
            try:
                n = cmp_norm(ast.parse(test, mode="eval").body)
            except SyntaxError:
                n = None
            if n is not None:
                l, op, r = n
                if r in ("theta_s", "theta_b") and l in ("0", "0.0"):
                    l, r = r, l
                    op = {"<": ">", "<=": ">=", ">": "<", ">=": "<=", "==": "==", "!=": "!="}[op]
                if l in ("theta_s", "theta_b") and r in ("0", "0.0"):
                    truth = {"==": False, "!=": True, ">": True, ">=": True, "<": False, "<=": False}[op]
            if truth is None:
                return None
            if truth != taken:
                keep = False
                break
        if keep:
            cands.append(leaf)
    return cands[0] if len(cands) == 1 else None


def read_only_arguments(prog: Program, rep: Report, rule: str, funcs) -> None:
    from ..purity import param_writes

    for fi in funcs:
        params = [q for q in fi.params if q != "self"]
        if not params:
            continue
        w = param_writes(fi.node, params)
        rep.check(rule, fi.qual, f"arguments {', '.join(params)} are read-only", not w, what_bad="; ".join(f"line {st.lineno}: `{short(st, 50)}` writes in place through {b} ({how}) - numpy hands out views for asarray/ravel/reshape/slices, so the caller's array changes and the next call sees other values" for st, b, how in w), what_ok="no in-place write", loc=fi.loc(w[0][0]) if w else fi.loc())


def run(prog: Program, rep: Report, tier: str) -> None:
    rep.level = "other"
    rep.explanation = (
        "s_stretch, sdepth and z2s_kernel are evaluated abstractly (rational normal forms with opaque sinh/cosh/tanh/exp "
        "atoms and the rewrites f(0), f(-x)): end-point identities of every stretching curve and transform, agreement of the "
        "unstretched coordinate between sdepth and s_stretch, and the clamped-interpolation identity of the level lookup per "
        "k-region. Decides these algebraic clauses; monotonicity/interleaving of the curves is not decided."
    )
    rep.assumptions = [
        "np.searchsorted(a, v) on an increasing array returns k with a[k-1] < v <= a[k] (left bisect)",
        "level count >= 2 (see C17 known finding for a single level)",
        "not decided: strict monotonicity of the stretching curves and of the level depths for all parameters",
    ]
    rep.trusted_base = ["CPython ast", "Fraction arithmetic; odd/even/zero rewrites of elementary functions", "sa/nf.py, sa/interp.py"]
    rep.rule("R12.1", "level lookup: (K, A) with A*zr[K-1] + (1-A)*zr[K] = -Z clamped to the level range; lookup keyed on the particle's own column", 6)
    rep.rule("R12.2", "sdepth and s_stretch agree on the unstretched coordinate S for rho and w staggers", 4)
    rep.rule("R12.3", "end points: C(-1) = -1, C(0) = 0 for every Vstretching; z(-1,-1) = -h, z(0,0) = 0 for every Vtransform", 10)
    rep.rule("R12.4", "wiring: Cs_r/z_r use stagger rho, Cs_w/z_w use stagger w; unknown options raise", 8)

    rep.rule("R12.6", "each stretching curve equals the documented ROMS function of its Vstretching option (reference table, compared as normal forms)", 3)
    rep.rule("R12.5", "the vertical-grid functions and Grid's query methods never write through their array arguments (views of the bathymetry / level arrays stay read-only)", 8)
    read_only_arguments(prog, rep, "R12.5", [fi for fi in prog.all_functions() if fi.module.name == prog.role_module["grid"] and ((fi.cls is None and fi.name in ("sdepth", "s_stretch", "z2s", "z2s_kernel", "sample3D", "sample3DUV", "trilinear")) or (fi.cls == prog.role_class["grid"] and fi.name != "__init__"))])

    # R12.1 (shared implementation with C02)
    sub = Report(pid="C12")
    c02.z2s_analysis(prog, sub, "R12.1")
    c02.z2s_call(prog, sub, "R12.1")
    rep.obligations.extend(sub.obligations)

    N = NF.atom("N")
    # R12.2 coordinate agreement
    for stagger in ("rho", "w"):
        r1, f1, i1, fi1 = run_with_S(prog, "s_stretch", dict(N=N, theta_s=NF.atom("theta_s"), theta_b=NF.atom("theta_b"), stagger=stagger, Vstretching=NF.const(1)))
        r2, f2, i2, fi2 = run_with_S(prog, "sdepth", dict(H=NF.atom("H"), Hc=NF.atom("Hc"), C=NF.atom("C"), stagger=stagger, Vtransform=NF.const(1)))
        S1, S2 = i1.get("S_orig"), i2.get("S_orig")
        cnt = i1.get("count")
        if not (isinstance(S1, NF) and isinstance(S2, NF) and isinstance(cnt, NF)):
            rep.bad("R12.2", fi2.qual, f"stagger {stagger}", f"unstretched coordinate not found: s_stretch {vtext(S1)}, sdepth {vtext(S2)}", fi2.loc())
            continue
        # the C array handed to sdepth is s_stretch's output: len(C) = number of points generated there
        S2s = S2.subst({"len(C)": cnt})
        rep.check("R12.2", fi2.qual, f"unstretched coordinate, stagger {stagger}", S1 == S2s, what_bad=f"s_stretch uses S = {S1} ({cnt} points); sdepth uses S = {S2} -> {S2s}: level depths and stretching values refer to different s-coordinates", what_ok=f"S = {S1}", loc=fi2.loc())
        want_cnt = N if stagger == "rho" else N + 1
        rep.check("R12.2", fi1.qual, f"number of {stagger}-points", cnt == want_cnt, what_bad=f"{cnt} points, expected {want_cnt}", what_ok=str(cnt), loc=fi1.loc())
        # end points of the w coordinate: S(0) = -1, S(last) = 0
        if stagger == "w":
            lo = S1.subst({"#n": NF.const(0)})
            hi = S1.subst({"#n": cnt - 1})
            rep.check("R12.2", fi1.qual, "w coordinate runs from -1 to 0", lo == NF.const(-1) and hi == NF.const(0), what_bad=f"S runs from {lo} to {hi}", what_ok="[-1, 0]", loc=fi1.loc())
        else:
            lo = S1.subst({"#n": NF.const(0)})
            hi = S1.subst({"#n": cnt - 1})
            rep.check("R12.2", fi1.qual, "rho coordinate sits half a level inside (-1, 0)", lo == -1 + NF.const("1/2") / N if False else (lo == NF.const(-1) + NF.const(0.5) / N and hi == NF.const(0) - NF.const(0.5) / N), what_bad=f"S runs from {lo} to {hi}; rho-levels are the midpoints -1 + (k + 1/2)/N", what_ok="midpoints", loc=fi1.loc())

    # R12.3 end points of the stretching curves
    fi = prog.func("ROMS.s_stretch")
    vs_values = sorted({int(ast.literal_eval(n.comparators[0])) for n in walk_no_nested(fi.node) if isinstance(n, ast.Compare) and unparse(n.left) == "Vstretching" and isinstance(n.comparators[0], ast.Constant)})
    if not vs_values:
        raise AnalysisError("s_stretch: no `Vstretching == <n>` branches found")
    for vs in vs_values:
        for s_val, want in ((NF.const(-1), NF.const(-1)), (NF.const(0), NF.const(0))):
            res, fr, info, _ = run_with_S(prog, "s_stretch", dict(N=N, theta_s=NF.atom("theta_s"), theta_b=NF.atom("theta_b"), stagger="w", Vstretching=NF.const(vs)), S_override=s_val)
            ok = isinstance(res, NF) and res == want
            rep.check("R12.3", fi.qual, f"Vstretching {vs}: C(S = {s_val}) = {want}", ok, what_bad=f"the stretching curve takes the value {vtext(res)[:200]} at S = {s_val}; the curves must rise from -1 (bottom) to 0 (surface)", what_ok=str(want), loc=fi.loc())
    # R12.6 the curves are the ROMS stretching functions (reference table evaluated by the same engine)
    import ast as _ast
    from ..program import FuncInfo

    refnode = _ast.parse(ROMS_STRETCHING_REFERENCE).body[0]
    rfi = FuncInfo(fi.module, "reference.s_stretch", refnode, None)
    for vs in vs_values:
        if vs not in (1, 2, 4):
            rep.add("R12.6", fi.qual, f"Vstretching {vs}: formula", None, "no reference formula tabulated for this option", fi.loc())
            continue
        args = dict(theta_s=NF.atom("theta_s"), theta_b=NF.atom("theta_b"), Vstretching=NF.const(vs))
        res, fr, info, _ = run_with_S(prog, "s_stretch", dict(N=N, stagger="w", **args), S_override=NF.atom("S"))
        dom2 = NFDomain(scalars={"N", "theta_s", "theta_b", "S"})
        it2 = Interp(prog, dom2, depth=0)
        want, _fr = it2.run(rfi, dict(S=NF.atom("S"), **args))
        res = generic_arm(res)
        if res is None:
            rep.add("R12.6", fi.qual, f"Vstretching {vs}: C(S) is the ROMS stretching function", None, "the branch taken for generic parameters (theta_s > 0, theta_b > 0) could not be singled out", fi.loc())
            continue
        ok = isinstance(res, NF) and isinstance(want, NF) and res == want
        rep.check("R12.6", fi.qual, f"Vstretching {vs}: C(S) is the ROMS stretching function", ok, what_bad=f"C(S) = {vtext(res)[:160]}; the ROMS definition is {vtext(want)[:160]}: same end points possible, but the levels no longer sit where the ocean model put them (and the curve need not be monotone)", what_ok="equal as rational functions of sinh/cosh/tanh/exp atoms", loc=fi.loc())
    fd = prog.func("ROMS.sdepth")
    vt_values = sorted({int(ast.literal_eval(n.comparators[0])) for n in walk_no_nested(fd.node) if isinstance(n, ast.Compare) and unparse(n.left) == "Vtransform" and isinstance(n.comparators[0], ast.Constant)})
    if not vt_values:
        raise AnalysisError("sdepth: no `Vtransform == <n>` branches found")
    for vt in vt_values:
        for sc, want, desc in ((NF.const(-1), -NF.atom("H"), "-h (bottom)"), (NF.const(0), NF.const(0), "0 (surface)")):
            res, fr, info, _ = run_with_S(prog, "sdepth", dict(H=NF.atom("H"), Hc=NF.atom("Hc"), C=sc, stagger="w", Vtransform=NF.const(vt)), S_override=sc)
            ok = isinstance(res, NF) and res == want
            rep.check("R12.3", fd.qual, f"Vtransform {vt}: z(S = C = {sc}) = {desc}", ok, what_bad=f"got {vtext(res)[:200]}: w-levels must start at -h and end at 0", what_ok=desc, loc=fd.loc())
        # linear in C and S with positive weight on H: z is between -h and 0 when S, C are in [-1, 0] needs monotonicity: not decided
        res, fr, info, _ = run_with_S(prog, "sdepth", dict(H=NF.atom("H"), Hc=NF.atom("Hc"), C=NF.atom("C"), stagger="rho", Vtransform=NF.const(vt)), S_override=NF.atom("S"))
        if isinstance(res, NF):
            if vt == 1:
                want = NF.atom("Hc") * (NF.atom("S") - NF.atom("C")) + NF.atom("C") * NF.atom("H")
            else:
                want = (NF.atom("Hc") * NF.atom("S") + NF.atom("C") * NF.atom("H")) / (1 + NF.atom("Hc") / NF.atom("H")) if vt == 2 else None
            if want is not None:
                rep.check("R12.3", fd.qual, f"Vtransform {vt}: level depth formula", res == want, what_bad=f"z = {res}; ROMS transform {vt} is {want}", what_ok=str(want), loc=fd.loc())

    # R12.4 wiring in Grid.__init__ and raising on unknown options
    gi = prog.lview(prog.role_func("grid", "__init__"))
    wires = {}
    for node in walk_no_nested(gi.node):
        if isinstance(node, ast.Assign) and isinstance(node.value, ast.Call) and unparse(node.value.func) in ("s_stretch", "sdepth"):
            kws = {k.arg: unparse(k.value) for k in node.value.keywords}
            wires[unparse(node.targets[0])] = (unparse(node.value.func), [unparse(a) for a in node.value.args], kws)
    expect = {"self.Cs_r": ("s_stretch", "'rho'"), "self.Cs_w": ("s_stretch", "'w'"), "self.z_r": ("sdepth", "'rho'"), "self.z_w": ("sdepth", "'w'")}
    for tgt, (fn, stag) in expect.items():
        w = wires.get(tgt)
        ok = w is not None and w[0] == fn and w[2].get("stagger") == stag
        if ok and fn == "sdepth":
            c = "self.Cs_r" if stag == "'rho'" else "self.Cs_w"
            ok = w[1][:3] == ["self.H", "self.hc", c] and w[2].get("Vtransform") == "self.Vtransform"
        if ok and fn == "s_stretch":
            ok = w[1][:1] == ["self.N"] and w[2].get("Vstretching") == "self.Vstretching"
        rep.check("R12.4", gi.qual, f"{tgt} = {fn}(..., stagger={stag})", ok, what_bad=f"got {w}", what_ok="consistent", loc=gi.loc())
    for f, opt in ((fi, "stagger"), (fi, "Vstretching"), (fd, "stagger"), (fd, "Vtransform")):
        paths = enumerate_paths(f.node.body)
        falls = [p for p in paths if p.exit == "fall"]
        raises = [p for p in paths if p.exit == "raise"]
        rep.check("R12.4", f.qual, f"unknown {opt} raises", not falls and len(raises) >= 2, what_bad=f"{len(falls)} path(s) fall off the end (return None), {len(raises)} raise", what_ok=f"{len(raises)} raising paths, none falls through", loc=f.loc())
    from . import c14

    rep.rule("R12.7", "the level index / weight used for a particle are looked up from its current depth in every update (shared with C14 R14.6)", 2)
    c14.step_attribute_freshness(prog, rep, "R12.7", roles=("forcing",))



from ..selftest import Mut  # noqa: E402

R = "ladim/ROMS.py"
AUDIT = [
    Mut("sdepth-w-coordinate", R, "        S = np.linspace(-1.0, 0.0, N)\n", "        S = np.linspace(-1.0, 0.0, N + 1)\n", rule="R12.2"),
    Mut("sstretch-rho-offset", R, "    if stagger == \"rho\":\n        S = -1.0 + (0.5 + np.arange(N)) / N\n    elif stagger == \"w\":\n        S = np.linspace(-1.0, 0.0, N + 1)", "    if stagger == \"rho\":\n        S = -1.0 + (1.0 + np.arange(N)) / N\n    elif stagger == \"w\":\n        S = np.linspace(-1.0, 0.0, N + 1)", rule="R12.2"),
    Mut("sstretch-w-count", R, "        S = np.linspace(-1.0, 0.0, N + 1)", "        S = np.linspace(-1.0, 0.0, N)", rule="R12.2"),
    Mut("vs1-tanh", R, "            cff2 * np.tanh(theta_s * (S + 0.5)) - 0.5", "            cff2 * np.tanh(theta_s * (S + 0.5)) + 0.5", rule="R12.3"),
    Mut("vs1-cff2", R, "        cff2 = 0.5 / np.tanh(0.5 * theta_s)", "        cff2 = 0.5 / np.tanh(theta_s)", rule="R12.3"),
    Mut("vs2-cbot", R, "        Cbot = np.sinh(theta_b * (S + 1)) / np.sinh(theta_b) - 1", "        Cbot = np.sinh(theta_b * S) / np.sinh(theta_b) - 1", rule="R12.3"),
    Mut("vs4-denominator", R, "        C4: np.ndarray = (np.exp(theta_b * C) - 1) / (1 - np.exp(-theta_b))", "        C4: np.ndarray = (np.exp(theta_b * C) - 1) / (1 - np.exp(theta_b))", rule="R12.3"),
    Mut("vt1-sign", R, "        A = Hc * (S - C)[:, None]", "        A = Hc * (S + C)[:, None]", rule="R12.3"),
    Mut("vt2-denominator", R, "        B = 1.0 + Hc / H\n", "        B = 1.0 + H / Hc\n", rule="R12.3"),
    Mut("zw-uses-rho", R, "            self.H, self.hc, self.Cs_w, stagger=\"w\", Vtransform=self.Vtransform", "            self.H, self.hc, self.Cs_w, stagger=\"rho\", Vtransform=self.Vtransform", rule="R12.4"),
    Mut("zr-uses-csw", R, "            self.H, self.hc, self.Cs_r, stagger=\"rho\", Vtransform=self.Vtransform", "            self.H, self.hc, self.Cs_w, stagger=\"rho\", Vtransform=self.Vtransform", rule="R12.4"),
    Mut("unknown-transform-silent", R, "    # else:\n    msg = \"Unknown Vtransform\"\n    raise ValueError(msg)", "    # else:\n    return None", rule="R12.4"),
    Mut("sdepth-inplace-bathymetry", R, "        B = 1.0 + Hc / H\n        R2: Field = (A / B).reshape(outshape)", "        A *= H\n        H += Hc\n        A /= H\n        R2: Field = A.reshape(outshape)", rule="R12.5"),
    Mut("depth-clips-argument", R, "        I: np.ndarray = X.round().astype(int) - self.i0\n        J: np.ndarray = Y.round().astype(int) - self.j0\n        R: ParticleArray = self.H[J, I]", "        np.clip(X, self.xmin, self.xmax, out=X)\n        I: np.ndarray = X.round().astype(int) - self.i0\n        J: np.ndarray = Y.round().astype(int) - self.j0\n        R: ParticleArray = self.H[J, I]", rule="R12.5"),
    Mut("benign-sdepth-local-copy", R, "        B = 1.0 + Hc / H\n", "        B = 1.0 + Hc / H\n        B += 0.0\n", expect="silent"),
    Mut("vs2-blend-swapped", R, "        C2: np.ndarray = mu * Csur + (1 - mu) * Cbot", "        C2: np.ndarray = Csur + mu * (Cbot - Csur)", rule="R12.6"),
    Mut("benign-vs2-blend-rewritten", R, "        C2: np.ndarray = mu * Csur + (1 - mu) * Cbot", "        C2: np.ndarray = Cbot + mu * (Csur - Cbot)", expect="silent"),
    Mut("z2s-weight", R, "A[n] = (zr[k] + Z[n]) / (zr[k] - zr[k - 1])", "A[n] = (zr[k] + Z[n]) / (zr[k] + zr[k - 1])", rule="R12.1"),
    Mut("z2s-bottom", R, "        elif k > 0:\n            K[n] = k", "        elif k > 1:\n            K[n] = k", rule="R12.1"),
    Mut("benign-S-form", R, "        S = -1.0 + (0.5 + np.arange(N)) / N  # Unstretched coordinates", "        S = (np.arange(N) + 0.5 - N) / N  # Unstretched coordinates", expect="silent"),
    Mut("benign-vt1-expanded", R, "        A = Hc * (S - C)[:, None]\n        B = np.outer(C, H)", "        A = (Hc * S - Hc * C)[:, None]\n        B = np.outer(C, H)", expect="silent"),
]
