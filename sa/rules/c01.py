"""C01 - advection integrates the velocity field with the scheme's order of accuracy.

Decided: each scheme *is* a Runge-Kutta method of the claimed order - the Butcher
tableau (A, b, c) is extracted from EF/RK2/RK4 (and the analytic helpers) by abstract
interpretation in the rational-normal-form domain and the order conditions are
evaluated exactly; the position update is X + (sum U)*dt/dx per axis.
Not decided: observed convergence on real fields, effect of clipping and land.
"""

from __future__ import annotations

import ast
from fractions import Fraction

from ..interp import Interp, Phi, Ref, Tup, vtext, make_flag_decide
from ..nf import NF
from ..nfdomain import NFDomain
from ..program import AnalysisError, Program, bind_args, unparse, short, walk_no_nested
from ..report import Report
from ..rk import extract_tableau, order_conditions

REQUIRED_ORDER = {"EF": 1, "RK2": 2, "RK4": 4}
HELPER_ORDER = {"get_velocity1": 1, "get_velocity2": 2, "get_velocity4": 4}


def tracker_tableau(prog: Program, name: str, noop_clip: bool = True):
    fi = prog.func(f"tracker.Tracker.{name}")
    env = prog.type_env(fi)
    vel = prog.role_func("forcing", "velocity")

    def oracle(node, fr, it):
        f = node.func
        if isinstance(f, ast.Attribute) and f.attr == "velocity":
            recv = unparse(f.value)
            if env.get(recv) == "forcing" or it.path_of(f.value, fr) == "forcing":
                b = bind_args(vel, node)
                pn = list(vel.params)
                pn = [p for p in pn if p != "self"]
                cn = b.get("fractional_step")
                if cn is vel.defaults().get("fractional_step"):
                    cn = NF.const(ast.literal_eval(cn))
                return b.get(pn[0]), b.get(pn[1]), b.get(pn[2]), cn
        return None

    dt = NF.atom("tracker.dt")
    return extract_tableau(
        prog,
        fi,
        oracle=oracle,
        base=("X", "Y"),
        scale_x=dt / NF.atom("tracker.dx"),
        scale_y=dt / NF.atom("tracker.dy"),
        args=dict(X=NF.atom("X"), Y=NF.atom("Y"), Z=NF.atom("Z"), force=Ref("forcing")),
        self_path="tracker",
        noop_calls=("clip",) if noop_clip else (),
        z_atom="Z",
    )


def helper_tableau(prog: Program, name: str):
    fi = prog.func(f"analytical.{name}")
    ann = fi.param_annotations()
    oracles = [p for p, a in ann.items() if a.startswith("Callable")] or ["sample_func"]

    def oracle(node, fr, it):
        if isinstance(node.func, ast.Name) and node.func.id in oracles and len(node.args) == 2:
            return node.args[0], node.args[1], None, None
        return None

    ctors = tuple(
        n
        for n, v in fi.module.constants.items()
        if isinstance(v, ast.Call) and unparse(v.func).endswith("namedtuple")
    )
    dt = NF.atom("dt")
    return extract_tableau(
        prog,
        fi,
        oracle=oracle,
        base=("state.X", "state.Y"),
        scale_x=dt,
        scale_y=dt,
        args=dict(state=Ref("state"), dt=NF.atom("dt"), s=NF.atom("s")),
        tuple_ctors=ctors,
    )


def check_tableau(rep: Report, rule: str, tab, order: int, label: str) -> None:
    fi = tab.fi
    for p in tab.problems:
        rep.bad(rule, fi.qual, f"{label}: structure", p, fi.loc())
    if tab.problems:
        return
    s = len(tab.b)
    A = tab.A
    fmt = lambda M: "[" + "; ".join(",".join(str(x) for x in row) for row in M) + "]"
    rep.ok(rule, fi.qual, f"{label}: extracted tableau", f"stages={s} A={fmt(A)} b=[{','.join(map(str, tab.b))}] c=[{','.join(map(str, tab.c))}]", fi.loc())
    # x/y twins
    rep.check(rule, fi.qual, f"{label}: x and y use the same tableau", all(a == b for ra, rb in zip(tab.A, tab.Ay) for a, b in zip(ra, rb)) and all(a == b for a, b in zip(tab.b, tab.by)), what_bad=f"A_x={fmt(tab.A)} A_y={fmt(tab.Ay)} b_x={tab.b} b_y={tab.by}", what_ok="twin", loc=fi.loc())
    # consistency c_k = row sum (time level matches the position of the stage)
    for k in range(s):
        rs = sum(A[k], NF.const(0))
        rep.check(
            rule,
            fi.qual,
            f"{label}: stage {k} time fraction equals row sum",
            tab.c[k] == rs,
            what_bad=f"stage {k} samples the field at time fraction {tab.c[k]} but at the position of fraction {rs}",
            what_ok=f"c_{k} = {rs}",
            loc=fi.loc(tab.stages[k].node),
        )
    for name, lhs, rhs in order_conditions(A, tab.b, tab.c, order):
        rep.check(
            rule,
            fi.qual,
            f"{label}: {name}",
            lhs == NF.const(rhs),
            what_bad=f"left-hand side evaluates to {lhs}, required {rhs}: the scheme does not have order {order}",
            what_ok=f"= {rhs}",
            loc=fi.loc(),
        )


def update_normal_form(prog: Program, flags: dict[str, bool]):
    """Normal form of the position Tracker.update stores, for one flag combination."""
    fi = prog.func("tracker.Tracker.update")
    dom = NFDomain()
    draws = []

    def hook(node, fr, it):
        fname = unparse(node.func)
        if fname == "self.advect":
            return Tup([NF.atom("Uadv"), NF.atom("Vadv")])
        if isinstance(node.func, ast.Attribute):
            recv = it.path_of(node.func.value, fr)
            if recv == "grid" and node.func.attr == "metric":
                return Tup([NF.atom("dx"), NF.atom("dy")])
            if recv == "grid" and node.func.attr in ("ingrid", "atsea", "onland"):
                vals = [it.eval(a, fr) for a in node.args]
                args = [vtext(v) for v in vals]
                name = f"{node.func.attr}({';'.join(args)})"
                dom.bool_info[name] = ("pred", node.func.attr, vals, node)
                return NF.atom(name)
            if recv == "grid" and node.func.attr == "depth":
                return NF.atom("h")
            if node.func.attr == "normal" and "rng" in unparse(node.func.value):
                a = dom.fresh_atom("xi")
                size = None
                for kw in node.keywords:
                    if kw.arg == "size":
                        size = it.eval(kw.value, fr)
                if size is None and node.args:
                    size = it.eval(node.args[-1], fr) if len(node.args) >= 3 else None
                draws.append((a, size, node, {k.arg: unparse(k.value) for k in node.keywords}, [unparse(x) for x in node.args]))
                return a
        return NotImplemented

    decide = make_flag_decide(flags)

    it = Interp(prog, dom, depth=3, call_hook=hook, decide_hook=decide)
    # attributes the constructor derives from its parameters (e.g. a cached standard deviation)
    init = prog.func("tracker.Tracker.__init__")
    try:
        it.objenv["time.dt"] = NF.atom("dt") * NF.atom("unit:s")
        it.run(init, dict(advection="RK4" if flags.get("advection") else "", diffusion=NF.atom("D"), vertdiff=NF.atom("Dz"), vertical_advection=bool(flags.get("vertical_advection")), modules=Ref("modules")), "tracker")
    except Exception:  # constructor outside the supported subset: attributes stay opaque atoms
        pass
    for k in [k for k in it.objenv if k.startswith("tracker.") and isinstance(it.objenv[k], (bool, str)) or k in ("tracker.rng", "tracker.modules", "tracker.advect")]:
        it.objenv.pop(k, None)
    it.objenv["state.X"] = NF.atom("X")
    it.objenv["state.Y"] = NF.atom("Y")
    it.objenv["state.Z"] = NF.atom("Z")
    it.objenv["tracker.dt"] = NF.atom("dt")
    it.objenv["tracker.D"] = NF.atom("D")
    it.objenv["tracker.Dz"] = NF.atom("Dz")
    it.objenv["forcing.variables['w']"] = NF.atom("W")
    _, fr = it.run(fi, {}, "tracker")
    it.dom_ref = dom
    return it, fr, draws


def moved_arm(v, base: NF):
    """Strip restoring Phi arms (those equal to the old position)."""
    n = 0
    while isinstance(v, Phi):
        if isinstance(v.a, NF) and v.a == base:
            v = v.b
        elif isinstance(v.b, NF) and v.b == base:
            v = v.a
        else:
            return v, n
        n += 1
    return v, n


def run(prog: Program, rep: Report, tier: str) -> None:
    rep.level = "other"
    rep.explanation = (
        "Abstract interpretation of EF/RK2/RK4, RKstep, RK4avg and get_velocity1/2/4 in a rational-normal-form "
        "domain extracts each scheme's Butcher tableau; the order conditions (orders 1..4) are evaluated with exact "
        "rational arithmetic; Tracker.update's stored position is compared with X + (U_adv + U_diff)*dt/dx. "
        "Decides that each scheme is a Runge-Kutta method of the claimed order - a necessary condition of the "
        "convergence statement - not the observed convergence itself."
    )
    rep.assumptions = [
        "clip is the identity for displacements that stay in the interior (the property's quantifier)",
        "the velocity oracle (Forcing.velocity / sample_func) returns the field at the requested position and time fraction (C02, C03)",
        "not decided: observed convergence rates, effect of clipping and land",
    ]
    rep.trusted_base = ["CPython ast", "exact Fraction arithmetic", "sa/nf.py, sa/interp.py, sa/rk.py"]
    rep.rule("R01.1", "Butcher tableau extracted from the scheme satisfies the order conditions of its claimed order; x/y twins; time fraction = row sum", 30)
    rep.rule("R01.2", "Tracker.update stores X + (Uadv + Udiff)*dt/dx (coefficient of the advective velocity exactly 1), y twin with dy", 8)
    rep.rule("R01.3", "advection schemes do not modify their input positions in place", 3)
    rep.rule("R01.4", "scheme-name map is the identity on the guarded literal list", 3)
    rep.rule("R01.5", "the stage velocities are the forcing's time interpolation evaluated at the stage's time fraction, in both directions (shared with C03 R03.5)", 10)
    from . import c03

    rep.rule("R01.10", "the stage velocity is computed from the fields in force at this step: nothing the forcing memoises between calls survives a write to the fields (shared with C03 R03.11)", 1)
    sub0 = Report(pid="C01")
    c03.memo_invalidation(prog, sub0)
    for o in sub0.obligations:
        rep.add("R01.10", o.func, f"[{o.rule}] {o.construct}", o.verdict == "ok" if o.verdict != "undecided" else None, o.what, o.loc)
    sub = Report(pid="C01")
    c03.fractional(prog, sub)
    for o in sub.obligations:
        rep.add("R01.5", o.func, f"[{o.rule}] {o.construct}", o.verdict == "ok" if o.verdict != "undecided" else None, o.what, o.loc)
    rep.rule("R01.6", "the stages of a scheme combine position, velocity and metric of the same particle (shared with C14 R14.7)", 1)
    from . import align

    align.report(prog, rep, "R01.6", "positions, stage velocities and dt/dx of one particle are paired")

    # R01.4 name map
    upd = prog.func("tracker.Tracker.update")
    names = prog.dynamic_attr_names(upd, "advect")
    if not names:
        raise AnalysisError("Tracker: `self.advect = getattr(self, self.advection)` under a literal list guard not found")
    for n in sorted(REQUIRED_ORDER):
        rep.check("R01.4", "tracker.Tracker.__init__", f"advection {n!r} -> method", n in names, what_bad=f"scheme {n} is not selectable ({names})", what_ok=f"Tracker.{n}", loc="ladim/tracker.py")
    for n in names:
        if n not in REQUIRED_ORDER:
            rep.add("R01.4", "tracker.Tracker.__init__", f"advection {n!r}", None, "scheme with no claimed order: not analysed", "ladim/tracker.py")

    # R01.1 tracker schemes
    for n in names:
        if n not in REQUIRED_ORDER:
            continue
        tab = tracker_tableau(prog, n)
        check_tableau(rep, "R01.1", tab, REQUIRED_ORDER[n], n)
        # R01.3 purity: run again with clip interpreted
        tab2 = tracker_tableau(prog, n, noop_clip=False)
        bad = tab2.mutated_params & {"X", "Y", "Z"}
        rep.check("R01.3", tab.fi.qual, "in-place writes to the input positions", not bad, what_bad=f"parameter(s) {sorted(bad)} are modified in place (state arrays change before the step is taken)", what_ok="inputs untouched", loc=tab.fi.loc())
    # helpers
    for n, order in HELPER_ORDER.items():
        if not prog.has_func(f"analytical.{n}"):
            raise AnalysisError(f"analytical.{n} vanished")
        tab = helper_tableau(prog, n)
        check_tableau(rep, "R01.1", tab, order, n)

    # R01.2 position update
    fi = upd
    for adv in (True,):
        for diff in (False, True):
            flags = dict(advection=adv, diffusion=diff, vertdiff=False, vertical_advection=False)
            it, fr, draws = update_normal_form(prog, flags)
            for axis, pos, vel, d in (("x", "X", "Uadv", "dx"), ("y", "Y", "Vadv", "dy")):
                v = it.objenv.get(f"state.{pos}")
                label = f"stored {pos} (advection on, diffusion {'on' if diff else 'off'})"
                if v is None:
                    rep.bad("R01.2", fi.qual, label, f"Tracker.update never stores state[{pos!r}]", fi.loc())
                    continue
                moved, nrest = moved_arm(v, NF.atom(pos))
                if not isinstance(moved, NF):
                    rep.bad("R01.2", fi.qual, label, f"stored position is not a normal form: {moved!r}", fi.loc())
                    continue
                disp = moved - NF.atom(pos)
                try:
                    cadv = disp.coeff(vel)
                except ValueError as e:
                    rep.bad("R01.2", fi.qual, label, str(e), fi.loc())
                    continue
                want = NF.atom("dt") / NF.atom(d)
                rep.check("R01.2", fi.qual, f"{label}: coefficient of the advective velocity", cadv == want, what_bad=f"displacement per unit advective velocity is {cadv}, must be dt/{d}", what_ok=f"{cadv}", loc=fi.loc())
                rest = disp - cadv * NF.atom(vel)
                other_vel = "Vadv" if vel == "Uadv" else "Uadv"
                rep.check("R01.2", fi.qual, f"{label}: no cross-axis or constant term", other_vel not in rest.atoms() and (diff or rest.is_zero()), what_bad=f"unexpected displacement terms {rest}", what_ok="none" if not diff else f"diffusive part {rest}", loc=fi.loc())
    from ..share import share

    share(prog, rep, "C17", ("R17.1", "R17.2"), "R01.7", "the stage positions of a scheme are clipped to the particle's own axis limits before the velocity is sampled there", 4, only=lambda o: o.func.startswith("tracker.") or "tracker." in o.construct)
    share(prog, rep, "C03", ("R03.2", "R03.3"), "R01.8", "the velocity field the stages sample is the time interpolation of the frames from the very first step on (priming at the start, hand-over at frames)", 10)
    rep.rule("R01.9", "calls inside the package pass same-named variables at the position of the parameter of that name (positions, velocities, metric are not exchanged on the way to a scheme or a sampler)", 10)
    from . import align as _align

    _align.argument_order(prog, rep, "R01.9")



from ..selftest import Mut  # noqa: E402

T = "ladim/tracker.py"
A = "ladim/analytical.py"
AUDIT = [
    Mut("rkstep-returns-inputs", T, "    return Xp, Yp\n\n\nRKstep = RKstep1", "    return X, Y\n\n\nRKstep = RKstep1", rule="R01.1"),
    Mut("rk4-weight", T, "(U1 + 2 * U2 + 2 * U3 + U4) / 6.0", "(U1 + 2 * U2 + U3 + U4) / 5.0", rule="R01.1"),
    Mut("rk4-stage3-frac", T, "X3, Y3 = RKstep(X, Y, U3, V3, 1.0, dtdx, dtdy)", "X3, Y3 = RKstep(X, Y, U3, V3, 0.5, dtdx, dtdy)", rule="R01.1"),
    Mut("rk4-stage4-time", T, "U4, V4 = force.velocity(X3, Y3, Z, fractional_step=1.0)", "U4, V4 = force.velocity(X3, Y3, Z, fractional_step=0.5)", rule="R01.1"),
    Mut("rk4-stage-from-wrong-velocity", T, "X2, Y2 = RKstep(X, Y, U2, V2, 0.5, dtdx, dtdy)", "X2, Y2 = RKstep(X, Y, U1, V1, 0.5, dtdx, dtdy)", rule="R01.1"),
    Mut("rk4-stage-chained", T, "X2, Y2 = RKstep(X, Y, U2, V2, 0.5, dtdx, dtdy)", "X2, Y2 = RKstep(X1, Y1, U2, V2, 0.5, dtdx, dtdy)", rule="R01.1"),
    Mut("rk2-drop-fraction", T, "return force.velocity(X1, Y1, Z, fractional_step=0.5)", "return force.velocity(X1, Y1, Z)", rule="R01.1"),
    Mut("rk2-clip-inputs", T, "clip(X1, Y1, self.xmin, self.xmax, self.ymin, self.ymax)", "clip(X, Y, self.xmin, self.xmax, self.ymin, self.ymax)", rule="R01.3"),
    Mut("rkstep-y-uses-dtdx", T, "Yp[i] = Y[i] + frac * V[i] * dtdy[i]", "Yp[i] = Y[i] + frac * V[i] * dtdx[i]", rule="R01.1"),
    Mut("rk-dtdy-from-dx", T, "        dtdy = dt / self.dy\n\n        U, V", "        dtdy = dt / self.dx\n\n        U, V", rule="R01.1"),
    Mut("update-y-uses-dx", T, "Y1 = Y + V * self.dt / self.dy", "Y1 = Y + V * self.dt / self.dx", rule="R01.2"),
    Mut("update-drop-adv", T, "            U += Uadv\n", "            U += 0.5 * Uadv\n", rule="R01.2"),
    Mut("update-swap-uv", T, "            V += Vadv\n", "            V += Uadv\n", rule="R01.2"),
    Mut("helper4-stage", A, "x2, y2 = x0 + 0.5 * dt * u1, y0 + 0.5 * dt * v1", "x2, y2 = x0 + dt * u1, y0 + dt * v1", rule="R01.1"),
    Mut("helper4-weight", A, "(v0 + 2 * v1 + 2 * v2 + v3) / 6", "(v0 + 2 * v1 + v2 + 2 * v3) / 6", rule="R01.1"),
    Mut("helper2-m", A, "m = 1.0 / (2 * s)", "m = 1.0 / s", rule="R01.1"),
    Mut("ef-depth", T, "        U, V = force.velocity(X, Y, Z)\n\n        return U, V", "        U, V = force.velocity(X, Y, 0 * Z)\n\n        return U, V", rule="R01.1"),
    # behaviour-preserving edits
    Mut("benign-rk2-heun", T, "        X1, Y1 = RKstep(X, Y, U, V, 0.5, dtdx, dtdy)\n        clip(X1, Y1, self.xmin, self.xmax, self.ymin, self.ymax)\n\n        return force.velocity(X1, Y1, Z, fractional_step=0.5)",
        "        X1, Y1 = RKstep(X, Y, U, V, 1.0, dtdx, dtdy)\n        clip(X1, Y1, self.xmin, self.xmax, self.ymin, self.ymax)\n\n        U1, V1 = force.velocity(X1, Y1, Z, fractional_step=1.0)\n        return 0.5 * (U + U1), 0.5 * (V + V1)", expect="silent"),
    Mut("benign-precompute", T, "        X1 = X + U * self.dt / self.dx\n", "        dtdx = self.dt / self.dx\n        X1 = X + dtdx * U\n", expect="silent"),
    Mut("benign-rk4avg-reorder", T, "(U1 + 2 * U2 + 2 * U3 + U4) / 6.0", "(U4 + U1) / 6.0 + (U2 + U3) / 3.0", expect="silent"),
    Mut("benign-helper-rename", A, "    x0, y0 = state.X, state.Y\n    u0, v0 = sample_func(x0, y0)\n    x1, y1 = x0 + 0.5 * dt * u0, y0 + 0.5 * dt * v0", "    xa, ya = state.X, state.Y\n    x0, y0 = xa, ya\n    u0, v0 = sample_func(xa, ya)\n    x1, y1 = x0 + dt * u0 / 2, y0 + dt * v0 / 2", expect="silent"),
]
