"""C15 - depth stays within the water column.

Interval proof in the symbolic-interval domain (h > 0 symbolic): with the start depth in [0, h] and a
vertical displacement d with |d| < h, the value Tracker.update stores as Z lies in [0, h]; h is the
depth of the cell occupied at the start of the step; with both vertical switches off Z is not written.
"""

from __future__ import annotations

import ast
from fractions import Fraction

from ..interp import Interp, Phi, Ref, Tup, vtext, make_flag_decide
from ..interval import Aff, Facts, IntervalDomain, Iv, MaskV
from ..program import AnalysisError, Program, unparse, short, walk_no_nested
from ..report import Report
from .. import statefx


def vertical_eval(prog: Program, vertdiff: bool, vertadv: bool, advection: bool = True):
    fi = prog.func("tracker.Tracker.update")
    facts = Facts(lower={"h": 0}, integer=set(), strict={"h"})
    dom = IntervalDomain(facts)
    h = Aff.sym("h")
    share = Fraction(1, 2) if (vertdiff and vertadv) else Fraction(1)
    d = Iv(-h.scale(share), h.scale(share), True, True)
    log = {"depth_args": [], "draw_sizes": []}

    def hook(node, fr, it):
        fn = unparse(node.func)
        if fn == "self.advect":
            return Tup([Iv.top(), Iv.top()])
        if fn == "self.diffuse":
            return Tup([Iv.top(), Iv.top()])
        if fn == "self.diffuse_vert":
            return d
        if isinstance(node.func, ast.Attribute):
            recv = it.path_of(node.func.value, fr)
            if recv == "grid" and node.func.attr == "metric":
                return Tup([Iv.top(), Iv.top()])
            if recv == "grid" and node.func.attr in ("ingrid", "atsea", "onland"):
                return MaskV("pred", None, None)
            if recv == "grid" and node.func.attr == "depth":
                log["depth_args"].append([unparse(a) for a in node.args])
                return Iv.point(h)
        return NotImplemented

    decide = make_flag_decide(dict(advection=advection, diffusion=False, vertdiff=vertdiff, vertical_advection=vertadv))

    it = Interp(prog, dom, depth=2, call_hook=hook, decide_hook=decide)
    it.objenv.update({
        "state.X": Iv.top(), "state.Y": Iv.top(),
        "state.Z": Iv(Aff(None, 0), h, False, False),
        "state.alive": MaskV("pred", None, None), "state.active": MaskV("pred", None, None),
        "tracker.dt": Iv.point(1),
        "forcing.variables['w']": d,
        "grid.xmin": Iv.top(), "grid.xmax": Iv.top(), "grid.ymin": Iv.top(), "grid.ymax": Iv.top(),
    })
    z0 = it.objenv["state.Z"]
    _, fr = it.run(fi, {}, "tracker")
    return it, fr, dom, facts, log, z0, fi


def axis_discipline(prog: Program, rep: Report, rule: str) -> None:
    """In every grid class of the package - the default one and the alternative modules a configuration can name -
    a 2-D array attribute read at a particle position is indexed [row from Y, column from X], and a subgrid
    offset subtracted from an index is the offset of the same axis (j0 with Y, i0 with X). Decided per method with
    parameters X and Y from the definitions of the two index expressions."""
    from ..program import expand_locals

    n = 0
    for mname, mi in sorted(prog.modules.items()):
        for cname, cls in mi.classes.items():
            if cname != "Grid":
                continue
            for q, fi in mi.functions.items():
                if fi.cls != cname or not {"X", "Y"} <= set(fi.params):
                    continue
                prog.consulted.add(mname)
                fi = prog.lview(fi)  # a shared `_cell_index(X, Y)` helper reads as its body
                for sub in walk_no_nested(fi.node):
                    if not (isinstance(sub, ast.Subscript) and isinstance(sub.value, ast.Attribute) and unparse(sub.value.value) == "self" and isinstance(sub.slice, ast.Tuple) and len(sub.slice.elts) == 2):
                        continue
                    row, col = (expand_locals(e, fi.node) for e in sub.slice.elts)
                    if any(isinstance(e, ast.Slice) for e in (row, col)):
                        continue
                    names = lambda e: {x.id for x in ast.walk(e) if isinstance(x, ast.Name)} | {x.attr for x in ast.walk(e) if isinstance(x, ast.Attribute)}  # noqa: E731
                    rn, cn = names(row), names(col)
                    if not ({"X", "Y"} & (rn | cn)):
                        continue
                    n += 1
                    ok = "Y" in rn and "X" not in rn and "X" in cn and "Y" not in cn
                    ok_off = not ({"i0", "i1"} & rn) and not ({"j0", "j1"} & cn)
                    rep.check(rule, fi.qual, short(sub), ok and ok_off, what_bad=f"row index `{short(row, 50)}` / column index `{short(col, 50)}`: the arrays of a grid are stored [y, x]; the row must come from Y (offset j0) and the column from X (offset i0) - a particle would get the depth, metric or mask of another cell", what_ok="[row from Y, column from X]", loc=fi.loc(sub))
    if n < 8:
        raise AnalysisError(f"only {n} position-indexed reads of 2-D grid arrays found (10 confirmed by hand)")


def run(prog: Program, rep: Report, tier: str) -> None:
    rep.level = "proof"
    rep.explanation = (
        "Tracker.update is evaluated in the symbolic-interval domain with h > 0 symbolic, Z0 in [0, h] and a total vertical "
        "displacement in (-h, h); the masked reflection statements are interpreted with refinement of the compared variable "
        "(Z < 0, Z > h) so that their order and formulas are part of the proof; the resulting interval of the stored Z must be "
        "[0, h]. The depth used is the cell depth at the step-start position; with both switches off no store to Z occurs."
    )
    rep.assumptions = [
        "start depth in [0, h] (induction hypothesis / release data)",
        "|total vertical displacement of the step| < h (the property's premise); with both switches on each contribution is below h/2",
        "numpy masked assignment is element-wise",
    ]
    rep.trusted_base = ["CPython ast", "interval transfer functions of sa/interval.py (DESIGN A.2)", "sa/interp.py"]
    rep.rule("R15.1", "interval proof: stored Z in [0, h] for every switch combination", 3)
    rep.rule("R15.2", "h is the depth of the cell occupied at the start of the step", 2)
    rep.rule("R15.3", "no store to Z when vertical diffusion and vertical advection are both off", 2)
    h = Aff.sym("h")
    for vd, va in ((True, False), (False, True), (True, True)):
        it, fr, dom, facts, log, z0, fi = vertical_eval(prog, vd, va)
        z = it.objenv.get("state.Z")
        label = f"vertdiff={'on' if vd else 'off'}, vertical_advection={'on' if va else 'off'}"
        ok = isinstance(z, Iv) and z.lo is not None and z.hi is not None and facts.le(Aff(None, 0), z.lo) and facts.le(z.hi, h)
        rep.check("R15.1", fi.qual, f"stored Z, {label}", ok, what_bad=f"with Z0 in [0, h] and |d| < h the stored depth ranges over {vtext(z) if not isinstance(z, Iv) else z}: a particle can end above the surface or below the bottom of its cell (abstract counterexample: any value of that range outside [0, h])", what_ok=f"{z} within [0, h]", loc=fi.loc())
        da = log["depth_args"]
        al = statefx.local_state_aliases(prog, fi)
        okd = len(da) == 1 and len(da[0]) == 2 and al.get(da[0][0]) == "X" and al.get(da[0][1]) == "Y"
        if vd and not va:
            rep.check("R15.2", fi.qual, f"depth sampled at {da}", okd, what_bad="the bottom depth must be that of the cell occupied when the step began (grid.depth(X, Y) with the step-start positions), not of the new or an unrelated position", what_ok="grid.depth(X, Y), X, Y = state positions at the start of the step", loc=fi.loc())
            # X, Y are not rebound before the depth call
            rebinds = [n for n in walk_no_nested(fi.node) if isinstance(n, (ast.Assign, ast.AugAssign)) and any(isinstance(t, ast.Name) and t.id in (da[0] if da else []) for t in (n.targets if isinstance(n, ast.Assign) else [n.target]))]
            # each of the two names is bound exactly once in the function (its definition from the state)
            binds = {nm: 0 for nm in (da[0] if da else [])}
            for n in walk_no_nested(fi.node):
                if isinstance(n, (ast.Assign, ast.AugAssign)):
                    for t in n.targets if isinstance(n, ast.Assign) else [n.target]:
                        for el in t.elts if isinstance(t, (ast.Tuple, ast.List)) else [t]:
                            if isinstance(el, ast.Name) and el.id in binds:
                                binds[el.id] += 1
            rep.check("R15.2", fi.qual, "step-start positions are not rebound before the depth is sampled", all(v == 1 for v in binds.values()) or not okd, what_bad=f"{[short(r) for r in rebinds]}", what_ok="bound once", loc=fi.loc())
    # the depth (and anything else per particle) is this step's, never an attribute left by an earlier step
    from . import c14

    c14.step_attribute_freshness(prog, rep, "R15.2", roles=("tracker",))
    rep.rule("R15.5", "every grid class (default and alternative modules) reads its 2-D arrays at [row from Y, column from X] with the offsets of the matching axis", 8)
    axis_discipline(prog, rep, "R15.5")
    rep.rule("R15.3", "the depth a particle is reflected at is the depth sampled for that particle (same particle list; shared with C14 R14.7)", 1)
    from . import align

    align.report(prog, rep, "R15.3", "Z, w and h of one particle are paired")
    # both off: Z untouched
    for adv in (True, False):
        it, fr, dom, facts, log, z0, fi = vertical_eval(prog, False, False, advection=adv)
        z = it.objenv.get("state.Z")
        zl = fr.env.get("Z")
        same = (z is z0 or (isinstance(z, Iv) and repr(z) == repr(z0))) and (zl is None or repr(zl) == repr(z0))
        rep.check("R15.3", fi.qual, f"both vertical switches off (advection {'on' if adv else 'off'}): depth untouched", same and not log["depth_args"], what_bad=f"Z becomes {z} / local {zl}; depth sampled {log['depth_args']}: the tracker changes the depth although vertical motion is switched off", what_ok="no store to Z", loc=fi.loc())
    from ..share import share

    share(prog, rep, "C17", ("R17.1",), "R15.4", "the depth array is read at the particle's own cell, inside the array", 1, only=lambda o: "Grid.depth" in o.func)
    share(prog, rep, "C05", ("R05.4",), "R15.6", "storing a state variable binds a fresh array and never writes into the old one: the positions the tracker read at the start of the step are still the start positions when the bottom depth is sampled after the new positions were stored (R15.2 relies on it)", 1, only=lambda o: "item assignment" in o.construct)



from ..selftest import Mut  # noqa: E402

T = "ladim/tracker.py"
AUDIT = [
    Mut("no-surface-reflection", T, "            Z[Z < 0] *= -1\n", "", rule="R15.1"),
    Mut("bottom-reflection-formula", T, "                Z[below_seabed] = 2 * h[below_seabed] - Z[below_seabed]", "                Z[below_seabed] = h[below_seabed] - Z[below_seabed]", rule="R15.1"),
    Mut("bottom-clamp-missing", T, "                below_seabed = Z > h\n                Z[below_seabed] = 2 * h[below_seabed] - Z[below_seabed]", "                below_seabed = Z > 2 * h\n                Z[below_seabed] = 2 * h[below_seabed] - Z[below_seabed]", rule="R15.1"),
    Mut("surface-mask-wrong", T, "            Z[Z < 0] *= -1\n", "            Z[Z < h] *= -1\n", rule="R15.1"),
    Mut("double-displacement", T, "                W = self.diffuse_vert(num_particles=len(X))\n                Z += W * self.dt", "                W = self.diffuse_vert(num_particles=len(X))\n                Z += 2 * W * self.dt", rule="R15.1"),
    Mut("depth-cached-across-steps", T, "            h = grid.depth(X, Y)\n", "            if not hasattr(self, '_h') or len(self._h) != len(X):\n                self._h = grid.depth(X, Y)\n            h = self._h\n", rule="R15.2"),
    Mut("benign-depth-kept-for-logging", T, "            h = grid.depth(X, Y)\n", "            h = grid.depth(X, Y)\n            self.last_depth = h\n", expect="silent"),
    Mut("depth-at-new-position", T, "            h = grid.depth(X, Y)\n", "            h = grid.depth(X1, Y1)\n", rule="R15.2"),
    Mut("always-store-z", T, "        h = None\n        if self.vertdiff or self.vertical_advection:", "        h = None\n        if True:", rule="R15.3"),
    Mut("benign-abs", T, "            Z[Z < 0] *= -1\n", "            Z = np.abs(Z)\n", expect="silent"),
    Mut("benign-bottom-first", T, "            # Reflexive boundary conditions at surface\n            Z[Z < 0] *= -1\n\n            # Reflexive boundary conditions at bottom\n            if h is not None:\n                below_seabed = Z > h\n                Z[below_seabed] = 2 * h[below_seabed] - Z[below_seabed]\n", "            if h is not None:\n                below_seabed = Z > h\n                Z[below_seabed] = 2 * h[below_seabed] - Z[below_seabed]\n            Z[Z < 0] *= -1\n", expect="silent"),
    Mut("benign-ge", T, "                below_seabed = Z > h\n", "                below_seabed = Z >= h\n", expect="silent"),
]
