"""C16 - longitude/latitude and grid coordinates are mutually consistent.

Decided: frames and axis order of xy2ll / ll2xy (against the slices lon/lat are cut with and bilin_inv's
result order), sample2D's weights (tensor-product identities; mask renormalisation; undefined and outside
substitutes), the optional-argument discipline of numeric optionals, and that bilin_inv is Newton's method
for the bilinear interpolant (Jacobian = partial derivatives, update solves J*d = residual).
Not decided: that seven Newton steps reach the tolerance.
"""

from __future__ import annotations

import ast

from ..interp import Frame, Interp, Phi, Ref, Tup, vtext
from ..nf import NF
from ..nfdomain import NFDomain
from ..program import AnalysisError, Program, bind_args, unparse, short, walk_no_nested
from ..report import Report
from .. import roms
from ..weights import Axis, check_multilinear, node_weights


def sample2d_eval(prog: Program, fname: str, *, any_outside: bool, mask, outside_value, undef=None):
    fi = prog.func(f"sample.{fname}")
    dom = NFDomain(scalars={"X", "Y", "ov", "undef"})

    def decide(test, fr, it):
        t = unparse(test)
        if t.startswith("np.any("):
            return any_outside
        if t in ("np.ndim(F) != 2",):
            return False
        if "mask.shape != F.shape" in t:
            return False
        return None

    def hook(node, fr, it):
        fn = unparse(node.func)
        if fn == "np.where" and len(node.args) == 3:
            c = it.eval(node.args[0], fr)
            a, b = it.eval(node.args[1], fr), it.eval(node.args[2], fr)
            if isinstance(c, bool):
                return a if c else b
            return Phi("where:" + vtext(c), a if not isinstance(a, Ref) else it.num(a), b if not isinstance(b, Ref) else it.num(b))
        return NotImplemented

    it = Interp(prog, dom, depth=1, decide_hook=decide, call_hook=hook)
    args = dict(F=NF.atom("F"), X=NF.atom("X"), Y=NF.atom("Y"))
    if "mask" in fi.params:
        args["mask"] = mask
    if "M" in fi.params:
        args["M"] = NF.atom("M")
    if "outside_value" in fi.params:
        args["outside_value"] = outside_value
    if undef is not None and "undef_value" in fi.params:
        args["undef_value"] = undef
    res, fr = it.run(fi, args)
    return res, fr, it, dom, fi


def axes2d(xname="X", yname="Y", order=("y", "x")):
    ix, iy = NF.atom(f"int({xname})"), NF.atom(f"int({yname})")
    ax = {"x": (ix, NF.atom(xname) - ix), "y": (iy, NF.atom(yname) - iy)}
    return [Axis(n, pos, ax[n][0], ax[n][1], 0, 1) for pos, n in enumerate(order)]


def sample2d_rules(prog: Program, rep: Report) -> None:
    rule = "R16.2"
    # plain bilinear, inside the grid
    for fname in ("sample2D", "sample2D2"):
        res, fr, it, dom, fi = sample2d_eval(prog, fname, any_outside=False, mask=None, outside_value=None)
        if not isinstance(res, NF):
            rep.bad(rule, fi.qual, "inside the grid, no mask", f"result is not a normal form: {vtext(res)[:200]}", fi.loc())
            continue
        for name, ok, detail in check_multilinear(res, dom, "F", axes2d()):
            rep.check(rule, fi.qual, f"{fname} (no mask): {name}", ok, what_bad=detail, what_ok=detail if len(detail) < 70 else "", loc=fi.loc())
    # with a mask: weights renormalised by their sum; all-masked stencil -> undef_value
    res, fr, it, dom, fi = sample2d_eval(prog, "sample2D", any_outside=False, mask=NF.atom("mask"), outside_value=None, undef=NF.atom("undef"))
    leaves = roms.flatten_phi(res)
    generic = [leaf for conds, leaf in leaves if all(not taken for _, taken in conds)]
    undef_leaves = [(conds, leaf) for conds, leaf in leaves if conds and conds[0][1]]
    ok_struct = len(generic) == 1 and isinstance(generic[0], NF)
    rep.check(rule, fi.qual, "masked: result = where(sum of weights <= 0, undef_value, weighted mean)", ok_struct and bool(undef_leaves) and all(isinstance(l, NF) and l == NF.atom("undef") for _, l in undef_leaves), what_bad=f"structure {vtext(res)[:160]}", what_ok="undefined points get undef_value", loc=fi.loc())
    if ok_struct:
        val = generic[0]
        weights, residual, problems = node_weights(val, dom, "F")
        tot = NF.const(0)
        ax = axes2d()
        good = not problems and residual.is_zero() and len(weights) == 4
        # numerator weights: mask[node] * w[node]; denominator: their sum
        expect = {}
        for atom in weights:
            idx = dom.elem_info[atom][1]
            oy = (idx[0] - ax[0].base)
            ox = (idx[1] - ax[1].base)
            if not (oy.is_const() and ox.is_const()):
                good = False
                continue
            oy, ox = int(oy.const_value()), int(ox.const_value())
            w = (ax[0].frac if oy == 1 else 1 - ax[0].frac) * (ax[1].frac if ox == 1 else 1 - ax[1].frac)
            m = NF.atom("mask[" + ";".join(v.canon() for v in idx) + "]")
            expect[atom] = m * w
            tot = tot + m * w
        for atom, w in sorted(weights.items()):
            e = expect.get(atom)
            rep.check(rule, fi.qual, f"masked: weight of {atom}", good and e is not None and w * tot == e, what_bad=f"weight {w}; must be mask*w / sum(mask*w) with the mask taken at the same node", what_ok="mask*w / sum(mask*w)", loc=fi.loc())
        rep.check(rule, fi.qual, "masked: four nodes, no other term", good, what_bad=f"{problems} residual {residual} nodes {len(weights)}", what_ok="ok", loc=fi.loc())
    # outside the grid
    res, fr, it, dom, fi = sample2d_eval(prog, "sample2D", any_outside=True, mask=None, outside_value=NF.atom("ov"))
    ok = isinstance(res, Phi) and res.test.startswith("where:") and isinstance(res.a, NF) and res.a == NF.atom("ov")
    cond = res.test if isinstance(res, Phi) else ""
    rep.check("R16.3", fi.qual, "outside the grid: every non-None outside_value (0.0 included) replaces the result", ok, what_bad=f"result is {vtext(res)[:200]}: the substitute is applied only under a further test", what_ok="where(outside, outside_value, result)", loc=fi.loc())
    # ... also when a mask is given: the outside substitute wins over the undefined-value substitute
    # (an outside point is evaluated on a dummy cell whose mask says nothing about it)
    resm, frm, itm, domm, fim = sample2d_eval(prog, "sample2D", any_outside=True, mask=NF.atom("mask"), outside_value=NF.atom("ov"), undef=NF.atom("undef"))
    okm = isinstance(resm, Phi) and resm.test == cond and isinstance(resm.a, NF) and resm.a == NF.atom("ov")
    rep.check("R16.3", fi.qual, "outside the grid with a mask: outside_value is the outermost substitution", okm, what_bad=f"result is {vtext(resm)[:200]}: for a point outside the grid the undefined-value test of the dummy cell decides what is returned", what_ok="where(outside, outside_value, where(undefined, undef_value, mean))", loc=fi.loc())
    # the outside predicate: 0 <= x < imax-1 etc. (uses shape F.shape = (jmax, imax))
    want_parts = ["lt(X;0)", "lt(Y;0)"]
    rep.check(rule, fi.qual, "outside predicate covers all four sides", all(p in cond for p in want_parts) and ("ge(X;-1 + shape:F[1])" in cond or "le(-1 + shape:F[1];X)" in cond) and ("ge(Y;-1 + shape:F[0])" in cond or "le(-1 + shape:F[0];Y)" in cond), what_bad=f"predicate {cond}", what_ok="x<0 | x>=imax-1 | y<0 | y>=jmax-1", loc=fi.loc())
    # shape unpacking jmax, imax = F.shape
    shp = [n for n in walk_no_nested(fi.node) if isinstance(n, ast.Assign) and unparse(n.value) == "F.shape"]
    rep.check(rule, fi.qual, "jmax, imax = F.shape (y first)", len(shp) == 1 and unparse(shp[0].targets[0]) in ("(jmax, imax)", "jmax, imax"), what_bad="axis order of the shape", what_ok="ok", loc=fi.loc())
    # raising when no substitute is given
    res, fr, it, dom, fi = sample2d_eval(prog, "sample2D", any_outside=True, mask=None, outside_value=None)
    rep.check("R16.3", fi.qual, "outside the grid without substitute: raises", res is None or not fr.returns, what_bad="points outside the grid are sampled silently", what_ok="ValueError", loc=fi.loc())


def optional_discipline(prog: Program, rep: Report) -> None:
    """Numeric optionals (Optional[float|int], default None) are never tested by truthiness."""
    rule = "R16.3"
    n = 0
    for fi in prog.all_functions():
        if fi.module.name in ("ROMS2",) or fi.module.name.startswith("ibms"):
            continue
        ann = fi.param_annotations()
        dfl = fi.defaults()
        for p, a in ann.items():
            a2 = a.replace(" ", "")
            numeric_opt = a2 in ("Optional[float]", "Optional[int]", "float|None", "int|None", "None|float", "None|int") or (a2 in ("float", "int") and p in dfl and unparse(dfl[p]) == "None")
            if not numeric_opt:
                continue
            n += 1
            bad = []
            for node in walk_no_nested(fi.node):
                tests = []
                if isinstance(node, (ast.If, ast.While, ast.IfExp)):
                    tests.append(node.test)
                if isinstance(node, ast.BoolOp):
                    tests.extend(node.values)
                if isinstance(node, ast.UnaryOp) and isinstance(node.op, ast.Not):
                    tests.append(node.operand)
                for t in tests:
                    if isinstance(t, ast.Name) and t.id == p:
                        bad.append(node)
            rep.check(rule, fi.qual, f"optional numeric parameter `{p}: {a}`", not bad, what_bad=f"tested by truthiness at line(s) {[b.lineno for b in bad]}: the legal value 0 is treated as 'not given'", what_ok="tested with `is None` only", loc=fi.loc())
    if n == 0:
        raise AnalysisError("no Optional[float|int] parameter found (sample2D.outside_value expected)")


def frames(prog: Program, rep: Report) -> None:
    rule = "R16.1"
    ga = roms.grid_attrs(prog)
    init = prog.role_func("grid", "__init__")
    cut = {}
    for node in walk_no_nested(init.node):
        if isinstance(node, ast.Assign) and unparse(node.targets[0]) in ("self.lon", "self.lat") and isinstance(node.value, ast.Subscript):
            sl = node.value.slice
            cut[unparse(node.targets[0])[5:]] = [unparse(e) for e in (sl.elts if isinstance(sl, ast.Tuple) else [sl])]
            var = node.value.value
            key = var.slice.value if isinstance(var, ast.Subscript) and isinstance(var.slice, ast.Constant) else None
            name = unparse(node.targets[0])[5:]
            rep.check(rule, init.qual, short(node), key == f"{name}_rho", what_bad=f"self.{name} must be read from {name}_rho", what_ok=f"{name}_rho", loc=init.loc(node))
    for name in ("lon", "lat"):
        rep.check(rule, init.qual, f"self.{name} cut with [J, I]", cut.get(name) == ["self.J", "self.I"], what_bad=f"cut with {cut.get(name)}", what_ok="[self.J, self.I]", loc=init.loc())
    oy, ox = ga["J"].items[0], ga["I"].items[0]
    X, Y = NF.atom("X"), NF.atom("Y")
    # xy2ll
    fi = prog.role_func("grid", "xy2ll")
    calls = []

    def hook(node, fr, it):
        if unparse(node.func) == "sample2D":
            s2 = prog.func("sample.sample2D")
            b = bind_args(s2, node)
            calls.append({k: it.eval(v, fr) if not (k in s2.defaults() and v is s2.defaults()[k]) else None for k, v in b.items()})
            return NF.atom(f"S{len(calls)}")
        return NotImplemented

    dom = NFDomain()
    it = Interp(prog, dom, depth=1, call_hook=hook)
    it.objenv["grid.i0"] = NF.atom("grid.i0")
    it.objenv["grid.j0"] = NF.atom("grid.j0")
    res, fr = it.run(fi, dict(X=X, Y=Y), "grid")
    ok = isinstance(res, Tup) and len(res.items) == 2 and len(calls) == 2
    rep.check(rule, fi.qual, "returns (lon sample, lat sample)", ok and vtext(calls[0]["F"]) == "grid.lon" and vtext(calls[1]["F"]) == "grid.lat" and res.items[0] == NF.atom("S1") and res.items[1] == NF.atom("S2"), what_bad=f"calls {[(vtext(c['F'])) for c in calls]} result {vtext(res)}", what_ok="(lon, lat)", loc=fi.loc())
    for c in calls:
        fx, fy = it.num(c["X"]), it.num(c["Y"])
        rep.check(rule, fi.qual, f"{vtext(c['F'])} sampled at (X - {ox}, Y - {oy})", fx == X - ox and fy == Y - oy, what_bad=f"sampled at ({fx}, {fy}); array index (0, 0) is the rho-point ({ox}, {oy})", what_ok="own position in the subgrid frame", loc=fi.loc())
        extra = {k: v for k, v in c.items() if k in ("mask", "outside_value") and v is not None}
        rep.check(rule, fi.qual, f"{vtext(c['F'])}: no mask / substitute passed", not extra, what_bad=f"extra arguments {extra}", what_ok="plain bilinear", loc=fi.loc())
    # ll2xy
    fi = prog.role_func("grid", "ll2xy")
    bcalls = []

    def hook2(node, fr, it):
        if unparse(node.func) == "bilin_inv":
            bi = prog.func("sample.bilin_inv")
            b = bind_args(bi, node)
            bcalls.append({k: it.eval(v, fr) for k, v in b.items() if k in ("f", "g", "F", "G")})
            return Tup([NF.atom("b_axis0"), NF.atom("b_axis1")])
        return NotImplemented

    it = Interp(prog, NFDomain(), depth=1, call_hook=hook2)
    it.objenv["grid.i0"] = NF.atom("grid.i0")
    it.objenv["grid.j0"] = NF.atom("grid.j0")
    res, fr = it.run(fi, dict(lon=NF.atom("lon"), lat=NF.atom("lat")), "grid")
    ok = len(bcalls) == 1 and vtext(bcalls[0]["f"]) == "lon" and vtext(bcalls[0]["g"]) == "lat" and vtext(bcalls[0]["F"]) == "grid.lon" and vtext(bcalls[0]["G"]) == "grid.lat"
    rep.check(rule, fi.qual, "bilin_inv(lon, lat, self.lon, self.lat)", ok, what_bad=f"arguments {[{k: vtext(v) for k, v in c.items()} for c in bcalls]}", what_ok="targets paired with their own coordinate arrays", loc=fi.loc())
    # axis 0 of the lon/lat arrays is y (cut with J), axis 1 is x
    want = Tup([NF.atom("b_axis1") + ox, NF.atom("b_axis0") + oy])
    ok = isinstance(res, Tup) and len(res.items) == 2 and all(isinstance(a, NF) for a in res.items) and res.items[0] == want.items[0] and res.items[1] == want.items[1]
    rep.check(rule, fi.qual, "returns (axis-1 result + i0, axis-0 result + j0)", ok, what_bad=f"got {vtext(res)}; the arrays are cut [J, I] so bilin_inv's first result is the y-index", what_ok="(X, Y) in full-grid coordinates", loc=fi.loc())
    # Output uses grid.xy2ll on the snapshot it writes
    out = prog.lview(prog.role_func("output", "__init__"))

    def _is_grid_xy2ll(v: ast.expr) -> bool:
        # grid.xy2ll, or getattr(grid, "xy2ll", <fallback for grids without the method>)
        if unparse(v) == "grid.xy2ll":
            return True
        return isinstance(v, ast.Call) and unparse(v.func) == "getattr" and len(v.args) in (2, 3) and unparse(v.args[0]) == "grid" and isinstance(v.args[1], ast.Constant) and v.args[1].value == "xy2ll"

    ok = any(isinstance(n, ast.Assign) and unparse(n.targets[0]) == "self.xy2ll" and _is_grid_xy2ll(n.value) for n in walk_no_nested(out.node))
    rep.check(rule, out.qual, "output converts with grid.xy2ll", ok, what_bad="self.xy2ll is not grid.xy2ll", what_ok="grid.xy2ll", loc=out.loc())
    wr = prog.role_func("output", "write")
    conv = [n for n in walk_no_nested(wr.node) if isinstance(n, ast.Assign) and isinstance(n.value, ast.Call) and unparse(n.value.func) == "self.xy2ll"]
    ok = len(conv) == 1 and [unparse(a) for a in conv[0].value.args] == ["state.X", "state.Y"] and unparse(conv[0].targets[0]) in ("(lon, lat)", "lon, lat")
    rep.check(rule, wr.qual, "lon, lat = xy2ll(state.X, state.Y) of the record being written", ok, what_bad=f"got {[short(c) for c in conv]}", what_ok="same snapshot", loc=wr.loc())
    # release: (X, Y) = ll2xy(lon, lat); columns renamed lon->X, lat->Y
    cp = prog.role_func("release", "clean_position")
    conv = [n for n in walk_no_nested(cp.node) if isinstance(n, ast.Assign) and isinstance(n.value, ast.Call) and unparse(n.value.func).endswith("ll2xy")]
    from ..program import xunparse as _xu

    xa = [_xu(a, cp.node) for a in conv[0].value.args] if len(conv) == 1 else []
    ok = len(conv) == 1 and len(xa) == 2 and xa[0].endswith("['lon']") and xa[1].endswith("['lat']") and xa[0][: -len("['lon']")] == xa[1][: -len("['lat']")] and unparse(conv[0].targets[0]) in ("(X, Y)", "X, Y")
    rep.check(rule, cp.qual, "X, Y = grid.ll2xy(df['lon'], df['lat'])", ok, what_bad=f"got {[short(c) for c in conv]}", what_ok="argument and result order", loc=cp.loc())
    stores = {unparse(n.targets[0]): unparse(n.value) for n in walk_no_nested(cp.node) if isinstance(n, ast.Assign) and isinstance(n.targets[0], ast.Subscript)}
    ren = [n for n in walk_no_nested(cp.node) if isinstance(n, ast.Call) and unparse(n.func).endswith(".rename")]
    ren_ok = False
    for r in ren:
        for kw in r.keywords:
            if kw.arg == "columns":
                try:
                    ren_ok = ast.literal_eval(kw.value) == {"lon": "X", "lat": "Y"}
                except Exception:
                    pass
    direct = stores.get("df['X']") == "X" and stores.get("df['Y']") == "Y"
    paired = stores.get("df['lon']") == "X" and stores.get("df['lat']") == "Y" and ren_ok
    rep.check(rule, cp.qual, "converted positions stored as X (from lon) and Y (from lat)", direct or paired, what_bad=f"stores {stores}, rename ok={ren_ok}", what_ok="lon->X, lat->Y", loc=cp.loc())
    # only when X or Y is missing: the conversion call is control-dependent on (X missing or Y missing)
    from ..program import bool_table, expand_locals, single_defs

    defs = single_defs(cp.node)

    def atom(n):
        if isinstance(n, ast.Compare) and len(n.ops) == 1 and isinstance(n.ops[0], (ast.In, ast.NotIn)) and isinstance(n.left, ast.Constant) and unparse(n.comparators[0]).endswith(".columns"):
            return (f"has_{n.left.value}", isinstance(n.ops[0], ast.NotIn))
        return None

    okg = False
    from ..paths import enumerate_paths as _paths

    verdicts = []
    for p_ in _paths(cp.node.body):
        reaches = any(any(x is c for c in conv for x in ast.walk(s_[1])) for s_ in p_.steps if s_[0] in ("stmt", "maybe"))
        if not reaches:
            continue
        conds = []
        for t, taken in p_.conds():
            e = expand_locals(t, cp.node, defs)
            conds.append(e if taken else ast.UnaryOp(op=ast.Not(), operand=e))
        if not conds:
            verdicts.append(False)
            continue
        test = conds[0] if len(conds) == 1 else ast.BoolOp(op=ast.And(), values=conds)
        tb = bool_table(ast.fix_missing_locations(test), atom)
        if tb is None or not {"has_X", "has_Y"} <= set(tb[0]):
            verdicts.append(False)
            continue
        atoms, table = tb
        verdicts.append(all((not val) or (not (dict(zip(atoms, asg))["has_X"] and dict(zip(atoms, asg))["has_Y"])) for asg, val in table.items()))
    okg = bool(verdicts) and all(verdicts)
    rep.check(rule, cp.qual, "grid coordinates given in the file are used unchanged", okg, what_bad="the lon/lat conversion is not limited to files without X or Y", what_ok="conversion only if X or Y is absent", loc=cp.loc())


def newton(prog: Program, rep: Report) -> None:
    rule = "R16.4"
    fi = prog.lview("sample.bilin_inv")
    dom = NFDomain(scalars={"x", "y", "f", "g"})
    snap = {}

    def stmt_hook(st, fr, it):
        if isinstance(st, ast.For) and "maxiter" in unparse(st.iter):
            fr.env["x"] = NF.atom("x")
            fr.env["y"] = NF.atom("y")
            snap["loop"] = st

    def decide(test, fr, it):
        t = unparse(test)
        if "shape" in t:
            return False
        if t.startswith("np.all("):
            snap["env_at_test"] = dict(fr.env)
            if isinstance(test, ast.Call) and test.args and isinstance(test.args[0], ast.Compare):
                try:
                    snap["tested"] = it.eval(test.args[0].left, fr)
                except Exception:  # noqa: BLE001
                    pass
            return False  # not yet converged: take the Newton step
        return None

    it = Interp(prog, dom, depth=0, stmt_hook=stmt_hook, decide_hook=decide)
    res, fr = it.run(fi, dict(f=NF.atom("f"), g=NF.atom("g"), F=NF.atom("F"), G=NF.atom("G")))
    if "loop" not in snap:
        raise AnalysisError("bilin_inv: iteration loop over maxiter not found")
    env = fr.env
    if not isinstance(env.get("x"), NF) or not isinstance(env.get("y"), NF):
        raise AnalysisError("bilin_inv: the iterates x, y are not normal forms after one pass of the loop")
    x, y = NF.atom("x"), NF.atom("y")
    ix, iy = NF.atom("int(x)"), NF.atom("int(y)")
    axes = [Axis("first axis (x)", 0, ix, x - ix, 0, 1), Axis("second axis (y)", 1, iy, y - iy, 0, 1)]
    # the bilinear estimates, whatever the locals are called (Fs, or Fdiff = estimate - f, or the result
    # of an inlined helper): a local, or a local plus the target, that is the interpolant of the array
    est = {}
    for arr, tgt in (("F", "f"), ("G", "g")):
        found = None
        for nm, v in env.items():
            if not isinstance(v, NF) or arr + "[" not in str(v):
                continue
            for cand, label in ((v, nm), (v + NF.atom(tgt), f"{nm} + {tgt}")):
                res_ = check_multilinear(cand, dom, arr, axes)
                if res_ and all(ok for _, ok, _ in res_):
                    found = (label, cand, res_)
                    break
            if found:
                break
        if found is None:
            # report against the conventional name when there is one, else as a missing estimate
            v = env.get(arr + "s")
            if isinstance(v, NF):
                for name, ok, detail in check_multilinear(v, dom, arr, axes):
                    rep.check(rule, fi.qual, f"{arr}s is the bilinear estimate of {arr}: {name}", ok, what_bad=detail, what_ok="", loc=fi.loc())
            else:
                rep.bad(rule, fi.qual, f"bilinear estimate of {arr}", f"no local of the iteration is the bilinear interpolant of {arr} at (x, y)", fi.loc())
            continue
        est[arr] = found[1]
        for name, ok, detail in found[2]:
            rep.check(rule, fi.qual, f"{arr}s is the bilinear estimate of {arr}: {name}", ok, what_bad=detail, what_ok=f"local {found[0]}", loc=fi.loc())
    if len(est) < 2:
        return
    Fs, Gs = est["F"], est["G"]
    J = {(b_, v_): e_.diff(v_) for b_, e_ in (("F", Fs), ("G", Gs)) for v_ in ("x", "y")}
    # locals named like partial derivatives must be the partial derivatives
    for nm, b_, v_ in (("Fx", "F", "x"), ("Fy", "F", "y"), ("Gx", "G", "x"), ("Gy", "G", "y")):
        got = [k for k, v in env.items() if isinstance(v, NF) and v == J[(b_, v_)]]
        rep.check(rule, fi.qual, f"{nm} = d{b_}s/d{v_}", bool(got), what_bad=f"no local holds the derivative of the bilinear estimate, {J[(b_, v_)]}", what_ok=f"partial derivative (local {got[0] if got else ''})", loc=fi.loc())
    dxs, dys = x - env["x"], y - env["y"]
    r1, r2 = Fs - NF.atom("f"), Gs - NF.atom("g")
    rep.check(rule, fi.qual, "Newton step solves Fx*dx + Fy*dy = Fs - f", J[("F", "x")] * dxs + J[("F", "y")] * dys == r1, what_bad=f"the update ({dxs}, {dys}) does not satisfy the first row of J*d = residual", what_ok="row 1", loc=fi.loc())
    rep.check(rule, fi.qual, "Newton step solves Gx*dx + Gy*dy = Gs - g", J[("G", "x")] * dxs + J[("G", "y")] * dys == r2, what_bad="the update does not satisfy the second row of J*d = residual", what_ok="row 2", loc=fi.loc())
    ret = [n for n in walk_no_nested(fi.node) if isinstance(n, ast.Return)]
    rep.check(rule, fi.qual, "returns (x, y): first result indexes the first array axis", len(ret) == 1 and unparse(ret[0].value) in ("(x, y)", "x, y"), what_bad=f"returns {unparse(ret[0].value) if ret else None}", what_ok="(x, y)", loc=fi.loc())
    # convergence test uses the residual of both equations
    tst = snap.get("tested")
    rep.check(rule, fi.qual, "stopping test on (Fs - f)^2 + (Gs - g)^2", isinstance(tst, NF) and tst == r1 * r1 + r2 * r2, what_bad=f"tested quantity = {vtext(tst)}", what_ok="squared residual", loc=fi.loc())


def run(prog: Program, rep: Report, tier: str) -> None:
    rep.level = "other"
    rep.explanation = (
        "Abstract interpretation (rational normal forms) of sample2D, sample2D2, bilin_inv, Grid.xy2ll and Grid.ll2xy: "
        "weights against tensor-product identities, Jacobian entries against symbolic derivatives of the bilinear estimate, "
        "the Newton update against J*d = residual, frames against the slices lon/lat are cut with; plus an Engler-style "
        "contradiction rule on numeric optional parameters. Decides that a fixed point of bilin_inv solves the interpolation "
        "equations and that every conversion uses matching frames - not that the iteration converges to tolerance."
    )
    rep.assumptions = ["numpy integer truncation/astype semantics (appendix A.1)", "not decided: convergence of seven Newton steps on real grids"]
    rep.trusted_base = ["CPython ast", "Fraction arithmetic, polynomial differentiation", "sa/nf.py, sa/interp.py, sa/weights.py"]
    rep.rule("R16.1", "frames and axis order of xy2ll / ll2xy / release conversion / output lon-lat", 12)
    rep.rule("R16.2", "sample2D weights: tensor-product identities; mask renormalisation; undefined substitute; outside predicate", 20)
    rep.rule("R16.3", "optional discipline: numeric optionals tested with `is None`; every non-None outside_value is applied", 3)
    rep.rule("R16.4", "bilin_inv is Newton's method for the bilinear interpolant", 20)
    frames(prog, rep)
    sample2d_rules(prog, rep)
    optional_discipline(prog, rep)
    newton(prog, rep)
    from ..share import share

    share(prog, rep, "C06", ("R06.2", "R06.6"), "R16.5", "lon / lat are written to the same record cells as the positions they were converted from", 2, only=lambda o: "lon" in o.construct or "lat" in o.construct)



from ..selftest import Mut  # noqa: E402

S_ = "ladim/sample.py"
R_ = "ladim/ROMS.py"
RL = "ladim/release.py"
ON = "ladim/out_netcdf.py"
AUDIT = [
    Mut("outside-truthiness", S_, "    if outside_value is not None:\n        result = np.where", "    if outside_value:\n        result = np.where", rule="R16.3"),
    Mut("w01-w10-swapped", S_, "    W01 = (1 - P) * Q\n    W10 = P * (1 - Q)\n    W11 = P * Q\n    SW = 1.0", "    W01 = P * (1 - Q)\n    W10 = (1 - P) * Q\n    W11 = P * Q\n    SW = 1.0", rule="R16.2"),
    Mut("mask-wrong-node", S_, "        W01 = mask[J + 1, I] * W01", "        W01 = mask[J, I + 1] * W01", rule="R16.2"),
    Mut("mask-not-normalised", S_, "        SW = W00 + W01 + W10 + W11\n\n    SW = np.where", "        SW = 1.0\n\n    SW = np.where", rule="R16.2"),
    Mut("undef-ignored", S_, "        SW <= 0,\n        undef_value,", "        SW <= 0,\n        0.0,", rule="R16.2"),
    Mut("outside-side-missing", S_, "outside = (X0 < 0) | (X0 >= imax - 1) | (Y0 < 0) | (Y0 >= jmax - 1)", "outside = (X0 < 0) | (X0 >= imax - 1) | (Y0 >= jmax - 1)", rule="R16.2"),
    Mut("outside-axis-swapped", S_, "outside = (X0 < 0) | (X0 >= imax - 1) | (Y0 < 0) | (Y0 >= jmax - 1)", "outside = (X0 < 0) | (X0 >= jmax - 1) | (Y0 < 0) | (Y0 >= imax - 1)", rule="R16.2"),
    Mut("undef-after-outside", S_, "    # Set in outside_values\n    if outside_value is not None:\n        result = np.where(outside, outside_value, result)\n", "    # Set in outside_values\n    if outside_value is not None:\n        result = np.where(outside, outside_value, result)\n    result = np.where(SW <= 0, undef_value, result)\n", rule="R16.3"),
    Mut("outside-no-raise", S_, '        if outside_value is None:\n            raise ValueError("point outside grid")\n', "", rule="R16.3"),
    Mut("sample2d-axes", S_, "(W00 * F[J, I] + W01 * F[J + 1, I] + W10 * F[J, I + 1] + W11 * F[J + 1, I + 1])\n        / SW,\n    )", "(W00 * F[I, J] + W01 * F[I, J + 1] + W10 * F[I + 1, J] + W11 * F[I + 1, J + 1])\n        / SW,\n    )", rule="R16.2"),
    Mut("xy2ll-no-j0", R_, "            sample2D(self.lat, X - self.i0, Y - self.j0),", "            sample2D(self.lat, X - self.i0, Y),", rule="R16.1"),
    Mut("xy2ll-swapped-arrays", R_, "            sample2D(self.lon, X - self.i0, Y - self.j0),\n            sample2D(self.lat, X - self.i0, Y - self.j0),", "            sample2D(self.lat, X - self.i0, Y - self.j0),\n            sample2D(self.lon, X - self.i0, Y - self.j0),", rule="R16.1"),
    Mut("ll2xy-order", R_, "        Y, X = bilin_inv(lon, lat, self.lon, self.lat)", "        X, Y = bilin_inv(lon, lat, self.lon, self.lat)", rule="R16.1"),
    Mut("ll2xy-offset", R_, "        return X + self.i0, Y + self.j0", "        return X + self.j0, Y + self.i0", rule="R16.1"),
    Mut("ll2xy-args", R_, "        Y, X = bilin_inv(lon, lat, self.lon, self.lat)", "        Y, X = bilin_inv(lon, lat, self.lat, self.lon)", rule="R16.1"),
    Mut("release-latlon-swapped", RL, '                X, Y = grid.ll2xy(df["lon"], df["lat"])  # type: ignore', '                X, Y = grid.ll2xy(df["lat"], df["lon"])  # type: ignore', rule="R16.1"),
    Mut("release-rename", RL, 'df.rename(columns={"lon": "X", "lat": "Y"}, inplace=True)', 'df.rename(columns={"lon": "Y", "lat": "X"}, inplace=True)', rule="R16.1"),
    Mut("output-lonlat-from-yx", ON, "            lon, lat = self.xy2ll(state.X, state.Y)", "            lon, lat = self.xy2ll(state.Y, state.X)", rule="R16.1"),
    Mut("newton-sign", S_, "        x -= (Gy * (Fs - f) - Fy * (Gs - g)) / det", "        x += (Gy * (Fs - f) - Fy * (Gs - g)) / det", rule="R16.4"),
    Mut("newton-cramer", S_, "        y -= (-Gx * (Fs - f) + Fx * (Gs - g)) / det", "        y -= (-Gx * (Fs - f) + Fy * (Gs - g)) / det", rule="R16.4"),
    Mut("newton-jacobian", S_, "        Fy = (1 - p) * (F[i, j + 1] - F[i, j]) + p * (F[i + 1, j + 1] - F[i + 1, j])", "        Fy = (1 - q) * (F[i, j + 1] - F[i, j]) + q * (F[i + 1, j + 1] - F[i + 1, j])", rule="R16.4"),
    Mut("newton-det", S_, "        det = Fx * Gy - Fy * Gx", "        det = Fx * Gy + Fy * Gx", rule="R16.4"),
    Mut("newton-estimate", S_, "            + p * (1 - q) * G[i + 1, j]\n            + (1 - p) * q * G[i, j + 1]", "            + p * (1 - q) * G[i, j + 1]\n            + (1 - p) * q * G[i + 1, j]", rule="R16.4"),
    Mut("benign-weights-factored", S_, "    W00 = (1 - P) * (1 - Q)\n    W01 = (1 - P) * Q\n    W10 = P * (1 - Q)\n    W11 = P * Q\n    SW = 1.0", "    P1 = 1 - P\n    Q1 = 1 - Q\n    W00 = P1 * Q1\n    W01 = P1 * Q\n    W10 = P * Q1\n    W11 = P * Q\n    SW = 1.0", expect="silent"),
    Mut("benign-newton-form", S_, "        x -= (Gy * (Fs - f) - Fy * (Gs - g)) / det", "        x = x - Gy * (Fs - f) / det + Fy * (Gs - g) / det", expect="silent"),
    Mut("benign-xy2ll-locals", R_, "        return (\n            sample2D(self.lon, X - self.i0, Y - self.j0),\n            sample2D(self.lat, X - self.i0, Y - self.j0),\n        )", "        Xr = X - self.i0\n        Yr = Y - self.j0\n        lon = sample2D(self.lon, Xr, Yr)\n        lat = sample2D(self.lat, Xr, Yr)\n        return lon, lat", expect="silent"),
]
