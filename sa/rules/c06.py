"""C06 - output records are faithful snapshots in a well-formed ragged or dense file.

Decided: snapshot and cursor discipline of Output.write (abstract post-state of the four counters
and of every netCDF store), time coordinate/units agreement, particle-variable extent from the
release counter, close discipline, dense-mask agreement, writer/reader/documentation agreement on
the cumulative-count layout.  Not decided: bit-level equality with model state, encoding precision.
"""

from __future__ import annotations

import ast
import re
from typing import Any

from ..interp import Interp, MapV, Phi, Ref, Tup, vtext
from ..nf import NF
from ..nfdomain import NFDomain
from ..paths import enumerate_paths, path_calls
from ..program import AnalysisError, Program, unparse, short, walk_no_nested, sequential_expand
from ..report import Report
from .. import roms, statefx


def write_eval(prog: Program, layout: str, finished: bool, more: bool = True, lonlat: bool = True):
    """Abstract evaluation of Output.write for one layout and one outcome of the file-finished tests."""
    fi = prog.lview(prog.role_func("output", "write"), keep=("_write_particle_variables",))
    dom = NFDomain(scalars={"n", "lic", "lrc", "ic", "rc"})
    log: dict[str, Any] = {"calls": [], "stores": []}

    def hook(node, fr, it):
        fn = unparse(node.func)
        if fn == "len" and node.args and vtext(it.eval(node.args[0], fr)) == "state":
            log["calls"].append("len(state)")
            if layout == "sparse" and "state.compactify" not in log["calls"]:
                return NF.atom("n_before_compactify")
            return NF.atom("n")
        if fn in ("state.compactify", "self.write_particle_variables", "self.nc.close", "self.nc.sync", "self.create_netcdf", "next"):
            log["calls"].append(fn)
            if fn == "self.create_netcdf":
                return Ref("new_nc")
            if fn == "next":
                return Ref("next_filename")
            return None
        if fn == "self.timer.nctime":
            log["calls"].append(fn)
            args = [unparse(a) for a in node.args] + [f"{k.arg}={unparse(k.value)}" for k in node.keywords]
            return NF.atom("nctime(" + ",".join(args) + ")")
        if fn == "self.xy2ll":
            vals = [vtext(it.eval(a, fr)) for a in node.args]
            log["calls"].append(f"xy2ll({','.join(vals)})")
            return Tup([NF.atom("LON"), NF.atom("LAT")])
        if fn == "getattr" and len(node.args) == 2:
            return NF.atom(f"{vtext(it.eval(node.args[0], fr))}.<{vtext(it.eval(node.args[1], fr))}>")
        if fn == "np.full":
            return NF.atom("full(" + ",".join(vtext(it.eval(a, fr)) for a in node.args) + ")")
        return NotImplemented

    def decide(test, fr, it):
        t = unparse(test)
        if t == "self.layout == 'sparse'":
            return layout == "sparse"
        if t == "self.layout == 'dense'":
            return layout == "dense"
        if t == "self.lonlat":
            return lonlat
        if t == "self.skip_initial":
            v = it.objenv.get("output.skip_initial")
            return bool(v) if isinstance(v, bool) else None
        if "local_record_count" in t and "local_num_records" in t:
            n = ast.parse(t, mode="eval").body
            if isinstance(n, ast.Compare) and isinstance(n.ops[0], (ast.Eq, ast.GtE)):
                return finished
            return None
        if "record_count" in t and "num_records" in t:
            n = ast.parse(t, mode="eval").body
            neg = False
            while isinstance(n, ast.UnaryOp) and isinstance(n.op, ast.Not):
                n, neg = n.operand, not neg
            if isinstance(n, ast.Compare) and len(n.ops) == 1:
                l, r, op = unparse(n.left), unparse(n.comparators[0]), type(n.ops[0])
                if l == "self.num_records" and r == "self.record_count":
                    l, r = r, l
                    op = {ast.Lt: ast.Gt, ast.Gt: ast.Lt, ast.LtE: ast.GtE, ast.GtE: ast.LtE}.get(op, op)
                if l == "self.record_count" and r == "self.num_records":
                    if op is ast.Lt:
                        return more ^ neg
                    if op is ast.GtE:
                        return (not more) ^ neg
            return None
        return None

    it = Interp(prog, dom, depth=3, call_hook=hook, decide_hook=decide)  # private helpers of write are inlined
    it.objenv.update({
        "output.local_instance_count": NF.atom("lic"),
        "output.local_record_count": NF.atom("lrc"),
        "output.instance_count": NF.atom("ic"),
        "output.record_count": NF.atom("rc"),
        "output.nctime": NF.atom("cached_nctime"),
        "output.layout": layout,  # a plain string: tests on it (through any alias) are decided by evaluation
    })
    res, fr = it.run(fi, dict(state=Ref("state")), "output")
    return it, fr, log, fi


def stores_of(it: Interp) -> dict[str, list[tuple[str, str]]]:
    """netCDF variable -> [(index text, value text)] from the masked-store Phis in the object env."""
    out: dict[str, list[tuple[str, str]]] = {}
    for k, v in it.objenv.items():
        if not k.startswith("output.nc.variables"):
            continue
        name = k[len("output.nc.variables"):].strip("[]'") or "<var>"
        while isinstance(v, Phi) and v.test.startswith("mask:"):
            out.setdefault(name, []).append((v.test[5:], vtext(v.a)))
            v = v.b
    return out


def cursor_rules(prog: Program, rep: Report) -> None:
    rule = "R06.2"
    lic, lrc, ic, rc, n = (NF.atom(x) for x in ("lic", "lrc", "ic", "rc", "n"))
    # sparse, file not finished
    it, fr, log, fi = write_eval(prog, "sparse", finished=False)
    st = stores_of(it)
    want_slice = f"slice:lic:{(lic + n).canon()}"
    cnt = fr.env.get("count")
    rep.check("R06.1", fi.qual, "sparse: the record's particle count is len(state) taken after compactify", "state.compactify" in log["calls"] and isinstance(cnt, NF) and cnt == NF.atom("n"), what_bad=f"count = {vtext(cnt)}, calls {log['calls']}: dead particles must be removed before the record's particle count is taken", what_ok="compactify, then count = len(state)", loc=fi.loc())
    rep.check("R06.1", fi.qual, "sparse: state not modified between count and the data writes", log["calls"].count("state.compactify") == 1 and not any(w.fi.qual == fi.qual for w in statefx.state_writes(prog)), what_bad="the state is modified inside write after the snapshot was taken", what_ok="single compactify, no stores", loc=fi.loc())
    pc = st.get("particle_count", [])
    rep.check(rule, fi.qual, "sparse: particle_count[record] = number of particles in the state", pc == [("lrc", "n")], what_bad=f"stores {pc}", what_ok="particle_count[lrc] = len(state)", loc=fi.loc())
    tm = st.get("time", [])
    rep.check(rule, fi.qual, "time[record] written at the same record index", len(tm) == 1 and tm[0][0] == "lrc", what_bad=f"stores {tm}", what_ok="time[lrc]", loc=fi.loc())
    rep.check("R06.3", fi.qual, "time value is the running clock at call time", len(tm) == 1 and tm[0][1] in ("nctime()", "nctime(unit='s')", "nctime('s')", "nctime(self.time_unit)"), what_bad=f"value {tm[0][1] if tm else None}: a cached or step-derived value drifts from the clock the state belongs to", what_ok="timer.nctime()", loc=fi.loc())
    dv = st.get("<var>", []) or st.get("var", [])
    rep.check(rule, fi.qual, "sparse: instance variables written to [start:end] = [lic : lic + n]", bool(dv) and all(i == want_slice for i, _ in dv), what_bad=f"slices {[i for i, _ in dv]}, required {want_slice}: records would overlap or leave gaps, breaking the cumulative particle_count indexing", what_ok=want_slice, loc=fi.loc())
    rep.check("R06.1", fi.qual, "sparse: values are the state arrays of the same name", bool(dv) and all(v == "state.<item(output.instance_variables)>" or v.startswith("state.<") for _, v in dv), what_bad=f"values {[v for _, v in dv]}", what_ok="getattr(state, var)", loc=fi.loc())
    for nm, val in (("lon", "LON"), ("lat", "LAT")):
        s = st.get(nm, [])
        rep.check(rule, fi.qual, f"sparse: {nm} written to the same slice", s == [(want_slice, val)], what_bad=f"stores {s}", what_ok=want_slice, loc=fi.loc())
    rep.check("R06.1", fi.qual, "lon/lat computed from the snapshot being written", any(c == "xy2ll(state.X,state.Y)" for c in log["calls"]), what_bad=f"calls {log['calls']}", what_ok="xy2ll(state.X, state.Y)", loc=fi.loc())
    post = {k: it.objenv.get(f"output.{k}") for k in ("local_instance_count", "local_record_count", "instance_count", "record_count")}
    want = {"local_instance_count": lic + n, "local_record_count": lrc + 1, "instance_count": ic + n, "record_count": rc + 1}
    for k, w in want.items():
        rep.check(rule, fi.qual, f"sparse: counter {k} advanced once", isinstance(post[k], NF) and post[k] == w, what_bad=f"{k} becomes {vtext(post[k])}, required {w}", what_ok=str(w), loc=fi.loc())
    # counters advance after the data writes: `start` is taken before
    rep.check(rule, fi.qual, "sparse: start taken from the cursor before it is advanced", vtext(fr.env.get("start")) == "lic" and vtext(fr.env.get("end")) == (lic + n).canon(), what_bad=f"start={vtext(fr.env.get('start'))} end={vtext(fr.env.get('end'))}", what_ok="start = lic, end = start + count", loc=fi.loc())
    rep.check("R06.5", fi.qual, "file not finished: not closed", "self.nc.close" not in log["calls"] and "self.write_particle_variables" not in log["calls"], what_bad=f"calls {log['calls']}", what_ok="stays open", loc=fi.loc())
    # file finished, more records to come
    it, fr, log, fi = write_eval(prog, "sparse", finished=True, more=True)
    calls = log["calls"]
    ok = "self.write_particle_variables" in calls and "self.nc.close" in calls and calls.index("self.write_particle_variables") < calls.index("self.nc.close")
    rep.check("R06.5", fi.qual, "file finished: particle variables written before close", ok, what_bad=f"calls {calls}", what_ok="write_particle_variables, close", loc=fi.loc())
    ok = "self.create_netcdf" in calls and "next" in calls and calls.index("self.nc.close") < calls.index("self.create_netcdf") and calls.index("next") < calls.index("self.create_netcdf")
    rep.check("R07.3" if False else rule, fi.qual, "file finished, more to come: next name, then create", ok, what_bad=f"calls {calls}", what_ok="close, next(filenames), create_netcdf", loc=fi.loc())
    for k in ("local_instance_count", "local_record_count"):
        v = it.objenv.get(f"output.{k}")
        rep.check(rule, fi.qual, f"new file: {k} reset to 0", isinstance(v, NF) and v.is_zero(), what_bad=f"{k} = {vtext(v)} in the new file: the first record of the new file is written at the old offset", what_ok="0", loc=fi.loc())
    for k, w in (("instance_count", ic + n), ("record_count", rc + 1)):
        v = it.objenv.get(f"output.{k}")
        rep.check(rule, fi.qual, f"new file: global {k} keeps counting", isinstance(v, NF) and v == w, what_bad=f"{k} = {vtext(v)}", what_ok=str(w), loc=fi.loc())
    rep.check(rule, fi.qual, "new file: dataset and name replaced", vtext(it.objenv.get("output.nc")) == "new_nc" and vtext(it.objenv.get("output.filename")) == "next_filename", what_bad=f"nc={vtext(it.objenv.get('output.nc'))} filename={vtext(it.objenv.get('output.filename'))}", what_ok="new dataset", loc=fi.loc())
    # last file
    it, fr, log, fi = write_eval(prog, "sparse", finished=True, more=False)
    calls = log["calls"]
    rep.check("R06.5", fi.qual, "last record: particle variables, close, no new file", "self.write_particle_variables" in calls and "self.nc.close" in calls and "self.create_netcdf" not in calls, what_bad=f"calls {calls}", what_ok="closed", loc=fi.loc())

    # dense
    it, fr, log, fi = write_eval(prog, "dense", finished=False)
    st = stores_of(it)
    rep.check("R06.6", fi.qual, "dense: the state is not compactified (row index = pid)", "state.compactify" not in log["calls"], what_bad="compactify under the dense layout breaks the identity state index == pid", what_ok="no compactify", loc=fi.loc())
    dv = st.get("<var>", []) or st.get("var", [])
    hv = fr.env.get("has_value")
    hv_t = vtext(hv)
    rep.check("R06.6", fi.qual, "dense: has_value is the alive mask of the state", isinstance(hv, Phi) and vtext(hv.a) == "state.alive" or "state.alive" in hv_t, what_bad=f"has_value = {hv_t}", what_ok="alive mask", loc=fi.loc())
    want_idx = f"(lrc,{hv_t})"
    okd = bool(dv) and all(i == want_idx and v.endswith("[state.alive]") for i, v in dv)
    rep.check("R06.6", fi.qual, "dense: instance variables written at [record, has_value] with values [alive]", okd, what_bad=f"stores {dv}: dead/unborn particles must stay fill", what_ok="same mask on both sides", loc=fi.loc())
    for nm, val in (("lon", "LON"), ("lat", "LAT")):
        s = st.get(nm, [])
        ok = len(s) == 1 and s[0][0] == want_idx and s[0][1] == f"{val}[state.alive]"
        rep.check("R06.6", fi.qual, f"dense: {nm} written at [record, has_value] with values [alive]", ok, what_bad=f"stores {s}: {nm} of dead particles must stay fill", what_ok="masked", loc=fi.loc())
    post = {k: it.objenv.get(f"output.{k}") for k in ("local_record_count", "record_count")}
    rep.check(rule, fi.qual, "dense: record counters advanced once", isinstance(post["local_record_count"], NF) and post["local_record_count"] == lrc + 1 and post["record_count"] == rc + 1, what_bad=f"{ {k: vtext(v) for k, v in post.items()} }", what_ok="+1", loc=fi.loc())


def compactify_sites(prog: Program, rep: Report) -> None:
    """R06.6: the dense layout relies on state row index == pid, so the state may only be compactified
    under the sparse layout (Output.write); enumerate every call site in ladim/."""
    rule = "R06.6"
    n = 0
    for fi in prog.all_functions():
        if fi.module.name in statefx.SKIP_MODULES or fi.module.name.startswith("ibms"):
            continue
        if fi.cls == prog.role_class.get("state") and fi.module.name == prog.role_module.get("state"):
            continue
        pm = None
        fi = prog.lview(fi) if fi.cls else fi  # `layout = self.layout` reads as the attribute
        for c in statefx.len_change_calls(prog, fi):
            if not (isinstance(c.func, ast.Attribute) and c.func.attr == "compactify"):
                continue
            n += 1
            pm = pm or {id(ch): p for p in ast.walk(fi.node) for ch in ast.iter_child_nodes(p)}
            guarded = False
            cur = c
            while id(cur) in pm:
                par = pm[id(cur)]
                if isinstance(par, ast.If) and any(any(x is cur for x in ast.walk(s_)) for s_ in par.body) and unparse(par.test) in ("self.layout == 'sparse'", "self.layout != 'dense'"):
                    guarded = True
                cur = par
            ok = guarded and prog.effective_owners(fi.qual) == {f"{prog.role_module['output']}.{prog.role_class['output']}.write"}
            rep.check(rule, fi.qual, f"call site `{short(c)}`", ok, what_bad="the state is compactified outside the sparse branch of Output.write: under the dense layout values are written at [time, row index], which equals pid only while no row is ever removed - after a death every later particle lands in the wrong pid column", what_ok="only under the sparse layout", loc=fi.loc(c))
    if n == 0:
        # nothing ever removes the dead from the state: every later sparse record still holds them
        out = prog.role_func("output", "write")
        rep.bad(rule, out.qual, "state.compactify() under the sparse layout", "no function of the package compactifies the state: a particle that has died stays in the state and is written into every later sparse record", out.loc())


def create_rules(prog: Program, rep: Report) -> None:
    fi = prog.lview(prog.role_func("output", "create_netcdf"))
    src = unparse(fi.node)
    m = [n for n in walk_no_nested(fi.node) if isinstance(n, ast.Assign) and unparse(n.targets[0]) == "self.local_num_records"]
    from ..program import xunparse as _xu

    mv = _xu(m[0].value, fi.node) if m else None  # temporaries expanded
    ok = len(m) == 1 and mv in ("min(self.numrec, self.num_records - self.record_count)", "min(self.num_records - self.record_count, self.numrec)")
    rep.check("R06.2", fi.qual, "local_num_records = min(numrec, records remaining)", ok, what_bad=f"got {mv}", what_ok="min(numrec, num_records - record_count)", loc=fi.loc())
    # time units vs nctime unit
    tk = prog.module("timekeeper")
    # the name bound to createVariable("time", ...), whatever it is called
    tnames = [unparse(n.targets[0]) for n in walk_no_nested(fi.node) if isinstance(n, ast.Assign) and isinstance(n.value, ast.Call) and isinstance(n.value.func, ast.Attribute) and n.value.func.attr == "createVariable" and n.value.args and isinstance(n.value.args[0], ast.Constant) and n.value.args[0].value == "time"]
    units = []
    if tnames:
        first_time = min(n.lineno for n in walk_no_nested(fi.node) if isinstance(n, ast.Assign) and unparse(n.targets[0]) == tnames[0] and isinstance(n.value, ast.Call) and n.value.args and isinstance(n.value.args[0], ast.Constant) and n.value.args[0].value == "time")
        later_rebind = [n.lineno for n in walk_no_nested(fi.node) if isinstance(n, ast.Assign) and unparse(n.targets[0]) == tnames[0] and n.lineno > first_time]
        limit = min(later_rebind) if later_rebind else 10**9
        units = [n for n in walk_no_nested(fi.node) if isinstance(n, ast.Assign) and unparse(n.targets[0]) == f"{tnames[0]}.units" and first_time < n.lineno < limit]
    ok = False
    if units:
        u = units[0].value
        txt = unparse(u)
        ok = ("seconds since" in txt and "reference_time" in txt) or txt in ("self.cf_units", "self.timer.cf_units('s')", "self.timer.cf_units(self.time_unit)", "self.timer.cf_units()")
    rep.check("R06.3", fi.qual, "time units: seconds since <reference time> (matches nctime's default unit 's')", ok, what_bad=f"units attribute is {unparse(units[0].value) if units else None}", what_ok="seconds since reference_time", loc=fi.loc())
    nct = prog.role_func("time", "nctime")
    d = nct.defaults().get("unit")
    rep.check("R06.3", nct.qual, "nctime default unit is seconds", d is not None and unparse(d) in ("'s'", '"s"'), what_bad=f"default unit {unparse(d) if d is not None else None}", what_ok="'s'", loc=nct.loc())
    dims = [unparse(n) for n in walk_no_nested(fi.node) if isinstance(n, ast.Call) and unparse(n.func) == "nc.createDimension"]
    rep.check("R06.2", fi.qual, "dimensions time, particle, particle_instance", all(any(f"'{d}'" in x for x in dims) for d in ("time", "particle", "particle_instance")), what_bad=f"{dims}", what_ok="present", loc=fi.loc())
    inst = [n for n in walk_no_nested(fi.node) if isinstance(n, ast.Call) and unparse(n.func) == "nc.createVariable" and len(n.args) >= 3 and unparse(n.args[2]) == "instance_dim"]
    part = [n for n in walk_no_nested(fi.node) if isinstance(n, ast.Call) and unparse(n.func) == "nc.createVariable" and len(n.args) >= 3 and unparse(n.args[2]) == "('particle',)"]
    rep.check("R06.2", fi.qual, "instance variables on the instance dimension, particle variables on `particle`", len(inst) == 1 and len(part) >= 1, what_bad=f"{len(inst)} instance / {len(part)} particle variable creations", what_ok="ok", loc=fi.loc())
    def values_of(name: str, seen=()) -> list:
        """every value the local may hold, following plain renamings (result of an inlined helper)"""
        out = []
        for n in walk_no_nested(fi.node):
            if isinstance(n, (ast.Assign, ast.AnnAssign)) and unparse(n.targets[0] if isinstance(n, ast.Assign) else n.target) == name and n.value is not None:
                if isinstance(n.value, ast.Name) and n.value.id not in seen:
                    out += values_of(n.value.id, seen + (name,))
                else:
                    out.append(unparse(n.value))
        return out

    # which layout gets which: decided per path through the function
    from ..paths import enumerate_paths as _ep
    from ..program import positive_cond

    seen_layout = {"dense": 0, "sparse": 0}
    try:
        paths_ = _ep(fi.node.body, max_paths=4000)
    except Exception:  # noqa: BLE001
        paths_ = []
    bad_dim, bad_cnt = [], []
    for p_ in paths_:
        votes = set()
        for t_, taken_ in p_.conds():
            text_, pos_ = positive_cond(unparse(t_), taken_)
            if text_ == "self.layout == 'dense'":
                votes.add(pos_)
            elif text_ == "self.layout == 'sparse'":
                votes.add(not pos_)
        if len(votes) != 1 or p_.exit == "raise":
            continue  # no layout test on the path, or two tests answered differently (not a real path)
        dense = votes.pop()
        lay = "dense" if dense else "sparse"
        seen_layout[lay] += 1
        stmts_ = p_.stmts()
        dims = [unparse(x.value) for x in stmts_ if isinstance(x, ast.Assign) and unparse(x.targets[0]) == "instance_dim" and not isinstance(x.value, ast.Name)]
        if dims and dims[-1] != ("('time', 'particle')" if dense else "('particle_instance',)"):
            bad_dim.append(f"{lay}: {dims[-1]}")
        has_cnt = any(isinstance(c_, ast.Call) and isinstance(c_.func, ast.Attribute) and c_.func.attr == "createVariable" and c_.args and isinstance(c_.args[0], ast.Constant) and c_.args[0].value == "particle_count" for x in stmts_ for c_ in ast.walk(x))
        if has_cnt == dense:
            bad_cnt.append(f"{lay}: particle_count {'created' if has_cnt else 'missing'}")
    if seen_layout["dense"] and seen_layout["sparse"]:
        rep.check("R06.2", fi.qual, "dense files get [time, particle] instance variables, sparse files the ragged dimension", not bad_dim, what_bad=f"{sorted(set(bad_dim))}: the instance variables of a layout are created on the dimensions of the other", what_ok="dims by layout", loc=fi.loc())
        rep.check("R06.2", fi.qual, "particle_count is created for the sparse layout only", not bad_cnt, what_bad=f"{sorted(set(bad_cnt))}: readers rebuild the records of a sparse file from particle_count", what_ok="sparse only", loc=fi.loc())
    vals = sorted(values_of("instance_dim"))
    rep.check("R06.2", fi.qual, "instance_dim = (time, particle) when dense, (particle_instance,) when sparse", vals == ["('particle_instance',)", "('time', 'particle')"], what_bad=f"{vals}", what_ok="ok", loc=fi.loc())


def particle_variable_rules(prog: Program, rep: Report) -> None:
    rule = "R06.4"
    from ..program import inline_helpers, path_records, single_defs

    fi = inline_helpers(prog, prog.role_func("output", "write_particle_variables"))
    loop = [n for n in walk_no_nested(fi.node) if isinstance(n, ast.For)]
    rep.check(rule, fi.qual, "loop over the configured particle variables", len(loop) == 1 and unparse(loop[0].iter) == "self.particle_variables", what_bad="not all particle variables are written", what_ok="all", loc=fi.loc())
    if len(loop) != 1:
        return
    var = unparse(loop[0].target)
    # definitions made before the loop (the extent, hoisted dtypes) are expanded into the loop body
    pre = {k: v for k, v in single_defs(fi.node).items() if not any(isinstance(x, ast.Name) and x.id == k and isinstance(x.ctx, ast.Store) for x in ast.walk(loop[0]))}
    import copy

    from ..program import _Subst

    # module-level constants (a named dtype) read by the loop are expanded as well
    local_names = {x.id for x in ast.walk(fi.node) if isinstance(x, ast.Name) and isinstance(x.ctx, ast.Store)} | set(fi.params)
    for k, v in fi.module.constants.items():
        if k not in local_names and k not in pre and k.isupper() or (k.startswith("_") and k[1:].isupper() and k not in local_names and k not in pre):
            pre[k] = v
    pre = {k: _Subst(dict(pre)).visit(copy.deepcopy(v)) for k, v in pre.items()}
    n_time = n_plain = 0
    extents = set()
    for p, conds, stores in path_records(loop[0].body, init_env=pre):
        st_ = [(t, v, node) for t, v, node in stores if t.startswith((f"self.nc.variables[{var}]", f"self.nc[{var}]"))]
        time_path = None
        for text, taken in conds:
            if "datetime64" in text or "M8" in text:
                eq = "==" in text and "!=" not in text
                time_path = taken if eq else (not taken)
        desc = "time-typed variable" if time_path else "plain variable"
        if len(st_) != 1 or time_path is None:
            rep.bad(rule, fi.qual, f"{desc}: store", f"{len(st_)} stores on the path {p.describe()} (time-typed test found: {time_path is not None})", fi.loc())
            continue
        t, vt, node = st_[0]
        m = re.fullmatch(r".*\]\[:(.+)\]", t)
        ext = m.group(1) if m else None
        extents.add(ext)
        if time_path:
            n_time += 1
            ok = ext is not None and vt in (
                f"(state[{var}].astype('M8[s]') - self.timer.reference_time)[:{ext}] / np.timedelta64(1, self.time_unit)",
                f"((state[{var}].astype('M8[s]') - self.timer.reference_time) / np.timedelta64(1, self.time_unit))[:{ext}]",
                f"(state[{var}][:{ext}].astype('M8[s]') - self.timer.reference_time) / np.timedelta64(1, self.time_unit)",
            )
            rep.check(rule, fi.qual, "time-typed particle variables: (value - reference_time)/unit stored at [:npart]", ok, what_bad=f"stored value `{vt[:160]}` at `{t}`", what_ok="relative to reference_time, index pid < npart", loc=fi.loc(node))
        else:
            n_plain += 1
            ok = ext is not None and vt == f"state[{var}][:{ext}]"
            rep.check(rule, fi.qual, "particle variables stored at index pid for pid < npart", ok, what_bad=f"stored value `{vt[:160]}` at `{t}`", what_ok="state[var][:npart]", loc=fi.loc(node))
    src = sorted(str(e) for e in extents)
    rep.check(rule, fi.qual, f"extent of the particle dimension: npart = {src[0] if len(src) == 1 else src}", extents <= {"state.npid", "int(state.npid)"} and bool(extents), what_bad="the extent must be the release counter state.npid: anything derived from the instance arrays (pid.max(), len(state)) shrinks when the highest pids die and is undefined for an empty state", what_ok="state.npid", loc=fi.loc())
    rep.check(rule, fi.qual, "both kinds of particle variables handled", n_time >= 1 and n_plain >= 1, what_bad=f"{n_time} time-typed path(s), {n_plain} plain path(s)", what_ok="time-typed and plain", loc=fi.loc())


def doc_agreement(prog: Program, rep: Report) -> None:
    rule = "R06.7"
    ws = prog.func("warm_start.warm_start")
    from . import c08

    wf = c08.warm_start_facts(prog)
    ok = wf["last_record_ok"]
    rep.check(rule, ws.qual, "reader: last record = [sum(count[:-1]) : + count[-1]]", ok, what_bad=f"pstart={wf['pstart']} pcount={wf['pcount']} pend={wf['pend']}: the restart reads other rows than the writer's cumulative-count layout", what_ok="cumulative particle_count", loc=ws.loc())
    doc = prog.root / "doc" / "source" / "output.rst"
    if not doc.exists():
        rep.add(rule, "doc/source/output.rst", "python snippet", None, "documentation file not present in this tree", "doc/source/output.rst")
        return
    text = doc.read_text()
    blocks = re.findall(r"(?:::|code-block:: python)\n\n((?:  .*\n|\n)+)", text)
    found = False
    for b in blocks:
        code = "\n".join(l[2:] if l.startswith("  ") else l for l in b.splitlines())
        if "particle_count" not in code or "np.sum" not in code:
            continue
        try:
            tree = ast.parse(code)
        except SyntaxError:
            continue
        found = True
        d = {unparse(n.targets[0]): unparse(n.value) for n in ast.walk(tree) if isinstance(n, ast.Assign)}
        ok = d.get("start") == "np.sum(particle_count[:n])" and d.get("count") == "particle_count[n]" and any(v.endswith("[start:start + count]") for v in d.values())
        rep.check(rule, "doc/source/output.rst", "documented reader: start = sum(count[:n]); X[start:start+count]", ok, what_bad=f"snippet {d}: the format documentation no longer matches the writer", what_ok="cumulative particle_count", loc="doc/source/output.rst")
    if not found:
        rep.add(rule, "doc/source/output.rst", "python snippet", None, "no parsable python snippet using particle_count found", "doc/source/output.rst")


def run(prog: Program, rep: Report, tier: str) -> None:
    rep.level = "other"
    rep.explanation = (
        "Output.write is evaluated abstractly for each layout and each outcome of the file-finished tests: every netCDF store "
        "(variable, index, value) and the post-state of the four counters are compared with the contiguous-ragged-array layout "
        "(start = cursor, end = start + len(state), particle_count[rec] = len(state), counters advanced once after the data writes, "
        "reset in a new file); the dense branch must mask both sides with the alive mask; extent of particle variables, time "
        "units and the reader/documentation formulas are compared. Decides the indexing discipline, not value equality."
    )
    rep.assumptions = ["netCDF4 slice assignment on unlimited dimensions extends the variable", "not decided: value encoding/precision, library behaviour"]
    rep.trusted_base = ["CPython ast", "sa/interp.py, sa/nfdomain.py", "this rule module"]
    rep.rule("R06.1", "snapshot discipline: compactify, then count, slices and values from the same unmodified state; lon/lat from that snapshot", 4)
    rep.rule("R06.2", "cursor discipline: start/end, particle_count, counters advanced once, reset in a new file; file structure", 18)
    rep.rule("R06.3", "time coordinate: running clock at call time; units agree with the clock's unit and reference", 3)
    rep.rule("R06.4", "particle variables stored at index pid for every particle released so far (extent state.npid)", 4)
    rep.rule("R06.5", "close discipline: particle variables are written before every close", 3)
    rep.rule("R06.6", "dense layout: both sides masked by alive; never compactified", 5)
    rep.rule("R06.7", "writer / reader / documentation agree on the cumulative-count layout", 1)
    cursor_rules(prog, rep)
    compactify_sites(prog, rep)
    create_rules(prog, rep)
    particle_variable_rules(prog, rep)
    doc_agreement(prog, rep)
    # the last file is completed (particle variables written) only when the last write is recognised as
    # the last one: the predicted number of records must equal the number of trigger hits
    rep.rule("R06.9", "a sparse record holds only living particles: State.compactify removes the dead whenever the state holds any (shared with C05 R05.3)", 1)
    from . import c05

    c05.dead_removed(prog, rep, "R06.9")
    rep.rule("R06.8", "file completion: predicted number of records = number of writes, for any duration (shared with C07 R07.1/R07.2)", 6)
    from . import c07

    sub = Report(pid="C06")
    c07.trigger_rule(prog, sub)
    c07.trip_count_rule(prog, sub)
    for o in sub.obligations:
        rep.add("R06.8", o.func, f"[{o.rule}] {o.construct}", o.verdict == "ok" if o.verdict != "undecided" else None, o.what, o.loc)
    from ..share import share

    share(prog, rep, "C08", ("R08.2",), "R06.10", "a restart keeps the particle dimension aligned with the identifiers used so far", 0)
    share(prog, rep, "C13", ("R13.1", "R13.2"), "R06.11", "the clock behind the time coordinate advances by dt per step in the direction of the run", 6)



from ..selftest import Mut  # noqa: E402

ON = "ladim/out_netcdf.py"
WS = "ladim/warm_start.py"
AUDIT = [
    Mut("end-off-by-one", ON, "            end = start + count\n", "            end = start + count - 1\n", rule="R06.2"),
    Mut("start-global-cursor", ON, "            start = self.local_instance_count\n", "            start = self.instance_count\n", rule="R06.2"),
    Mut("count-before-compactify", ON, '        if self.layout == "sparse":\n            state.compactify()\n\n        self.nc.variables["time"]', '        count0 = len(state)\n        if self.layout == "sparse":\n            state.compactify()\n\n        self.nc.variables["time"]', expect="silent"),
    Mut("no-compactify", ON, '        if self.layout == "sparse":\n            state.compactify()\n\n', "", rule="R06.1"),
    Mut("particle-count-record", ON, '            self.nc.variables["particle_count"][self.local_record_count] = count', '            self.nc.variables["particle_count"][self.record_count] = count', rule="R06.2"),
    Mut("time-cached", ON, '        self.nc.variables["time"][self.local_record_count] = self.timer.nctime()', '        self.nc.variables["time"][self.local_record_count] = self.nctime', rule="R06.3"),
    Mut("lic-not-advanced", ON, "            self.local_instance_count += count\n", "", rule="R06.2"),
    Mut("lic-not-reset", ON, "                self.local_instance_count = 0\n", "", rule="R06.2"),
    Mut("lrc-not-reset", ON, "                self.local_record_count = 0\n", "", rule="R06.2"),
    Mut("counter-before-write", ON, '            count = len(state)  # Present number of particles\n            start = self.local_instance_count', '            count = len(state)  # Present number of particles\n            self.local_instance_count += count\n            start = self.local_instance_count', rule="R06.2"),
    Mut("npart-from-pid", ON, "        npart = state.npid  # Total number of particles so far", "        npart = int(state.pid.max()) + 1  # Total number of particles so far", rule="R06.4"),
    Mut("npart-len", ON, "        npart = state.npid  # Total number of particles so far", "        npart = len(state)  # Total number of particles so far", rule="R06.4"),
    Mut("close-without-pvars", ON, "            self.write_particle_variables(state)\n            self.nc.close()", "            self.nc.close()", rule="R06.5"),
    Mut("dense-unmasked-lon", ON, '                self.nc.variables["lon"][self.local_record_count, has_value] = lon[\n                    state.alive\n                ]', '                self.nc.variables["lon"][self.local_record_count, :] = lon', rule="R06.6"),
    Mut("dense-mask-one-side", ON, "                self.nc.variables[var][self.local_record_count, has_value] = getattr(\n                    state, var\n                )[state.alive]", "                self.nc.variables[var][self.local_record_count, :] = getattr(\n                    state, var\n                )", rule="R06.6"),
    Mut("dense-compactify", ON, '        if self.layout == "sparse":\n            state.compactify()\n', "        state.compactify()\n", rule="R06.6"),
    Mut("compactify-in-model", "ladim/model.py", "        self.tracker.update()\n        self.ibm.update()\n\n    def finish", "        self.tracker.update()\n        self.ibm.update()\n        self.state.compactify()\n\n    def finish", rule="R06.6"),
    Mut("lonlat-other-snapshot", ON, "            lon, lat = self.xy2ll(state.X, state.Y)", "            lon, lat = self.xy2ll(state.Y, state.X)", rule="R06.1"),
    Mut("units-minutes", ON, '        v.units = f"seconds since {self.timer.reference_time}"', '        v.units = f"minutes since {self.timer.reference_time}"', rule="R06.3"),
    Mut("local-num-records", ON, "        self.local_num_records = min(self.numrec, self.num_records - self.record_count)", "        self.local_num_records = min(self.numrec, self.num_records)", rule="R06.2"),
    Mut("reader-start", WS, '    pstart = f.variables["particle_count"][:-1].sum()', '    pstart = f.variables["particle_count"][:-2].sum()', rule="R06.7"),
    Mut("benign-rename-cursor", ON, "            start = self.local_instance_count\n            end = start + count\n", "            start = self.local_instance_count\n            end = count + start\n", expect="silent"),
    Mut("benign-sync-removed", ON, "        self.nc.sync()\n", "", expect="silent"),
]
