"""C07 - every scheduled output time is written for any duration, period, file split.

Decided: the write trigger (step % P == 0 with P from the positive period), the closed-form trip count
of the trigger along the main loop versus the predicted number of records (counting rewrites under the
lattice assumption duration = N*dt, period = P*dt), the roll-over sequence, file numbering and the
main-loop shape.  Not decided: NetCDF library behaviour.
"""

from __future__ import annotations

import ast
from fractions import Fraction
from typing import Optional

from ..program import punparse, AnalysisError, Program, unparse, short, walk_no_nested, increment_of, sequential_expand, single_defs, xunparse, inline_helpers
from ..report import Report
from . import c06, c19


# ----------------------------------------------------------------------
# counting forms: ("floor"|"ceil"|"exact", a, b) meaning floor(a/b) ... over symbols N (steps), P (period in steps)
def count_form(e: ast.expr, env: dict[str, tuple]) -> Optional[tuple]:
    """Rewrite an integer expression into floor/ceil(N/P) under the lattice assumption."""
    s = unparse(e)
    if s in env:
        return env[s]
    if isinstance(e, ast.Call) and unparse(e.func) in ("int", "abs", "np.abs") and len(e.args) == 1:
        return count_form(e.args[0], env)
    if isinstance(e, ast.Call) and unparse(e.func) in ("math.ceil", "np.ceil") and len(e.args) == 1 and isinstance(e.args[0], ast.BinOp) and isinstance(e.args[0].op, ast.Div):
        a, b = count_form(e.args[0].left, env), count_form(e.args[0].right, env)
        if a and b and a[0] == "sym" and b[0] == "sym":
            return ("ceil", a[1], b[1])
    if isinstance(e, ast.Call) and unparse(e.func) == "len" and len(e.args) == 1 and isinstance(e.args[0], ast.Call) and unparse(e.args[0].func) == "range" and len(e.args[0].args) == 3:
        r = e.args[0].args
        a, b = count_form(r[1], env), count_form(r[2], env)
        if unparse(r[0]) == "0" and a and b and a[0] == "sym" and b[0] == "sym":
            return ("ceil", a[1], b[1])
        # range(s, s + N, P) has ceil(N/P) elements whatever the start s is
        if isinstance(r[1], ast.BinOp) and isinstance(r[1].op, ast.Add) and b and b[0] == "sym":
            for s_, n_ in ((r[1].left, r[1].right), (r[1].right, r[1].left)):
                n_f = count_form(n_, env)
                if unparse(s_) == unparse(r[0]) and n_f and n_f[0] == "sym":
                    return ("ceil", n_f[1], b[1])
    if isinstance(e, ast.BinOp) and isinstance(e.op, ast.FloorDiv):
        a, b = count_form(e.left, env), count_form(e.right, env)
        if a and b and b[0] == "sym":
            if a[0] == "sym":
                return ("floor", a[1], b[1])
            if a[0] == "neg" and a[1][0] == "sym":
                return ("negceil", a[1][1], b[1])  # (-a)//b = -ceil(a/b)
            if a[0] == "plus" and a[2] == b[1] + "-1":
                return ("ceil", a[1], b[1])  # (a + b - 1)//b
            if a[0] == "minus1":
                return ("floor_m1", a[1], b[1])  # (a - 1)//b
        # duration // period with both signed the same way: floor((N*dt + r)/(P*dt)) = floor(N/P) for 0 <= r < dt
        if a and b and a[0] == "dur" and b[0] == "per":
            return ("floor", "N", "P")
        # (-duration) // period = -ceil(duration/period): equals -ceil(N/P) only when r = 0
        if a and b and a[0] == "neg" and a[1][0] == "dur" and b[0] == "per":
            return ("neg", ("lattice-only", "ceil(duration/period)"))
    if isinstance(e, ast.UnaryOp) and isinstance(e.op, ast.USub):
        a = count_form(e.operand, env)
        if a:
            if a[0] == "negceil":
                return ("ceil", a[1], a[2])
            if a[0] == "neg":
                return a[1]
            return ("neg", a)
    if isinstance(e, ast.BinOp) and isinstance(e.op, ast.Add):
        # 1 + (a - 1)//b = ceil(a/b) for a >= 1
        l, r = e.left, e.right
        for one, other in ((l, r), (r, l)):
            if unparse(one) == "1":
                o = count_form(other, env)
                if o and o[0] == "floor_m1":
                    return ("ceil", o[1], o[2])
        # floor(..)/ceil(..) + integer constant
        for cst, other in ((l, r), (r, l)):
            if isinstance(cst, ast.Constant) and isinstance(cst.value, int):
                o = count_form(other, env)
                if o and o[0] in ("floor", "ceil"):
                    off = (o[3] if len(o) > 3 else 0) + cst.value
                    return (o[0], o[1], o[2], off) if off else (o[0], o[1], o[2])
    if isinstance(e, ast.BinOp) and isinstance(e.op, ast.Sub) and unparse(e.right) == "1":
        a = count_form(e.left, env)
        if a and a[0] == "sym":
            return ("minus1", a[1])
        if isinstance(e.left, ast.BinOp) and isinstance(e.left.op, ast.Add):
            x, y = count_form(e.left.left, env), count_form(e.left.right, env)
            if x and y and x[0] == "sym" and y[0] == "sym":
                return ("plus", x[1], y[1] + "-1")
    if isinstance(e, ast.BinOp) and isinstance(e.op, ast.Sub):
        l, r = unparse(e.left), unparse(e.right)
        if l.endswith("stop_time") and r.endswith("start_time"):
            return ("dur",)
    return None


def fmt(c: Optional[tuple]) -> str:
    if c is None:
        return "?"
    if c[0] in ("floor", "ceil"):
        return f"{c[0]}({c[1]}/{c[2]})" + (f"{c[3]:+d}" if len(c) > 3 else "")
    if c[0] == "lattice-only":
        return c[1]
    return str(c)


def trigger_rule(prog: Program, rep: Report) -> None:
    rule = "R07.1"
    fi = prog.role_func("output", "update")
    from ..program import expand_locals

    from ..paths import enumerate_paths

    step_src = [None]

    def divisible(test: ast.expr):
        """`<step> % self.output_period_step == 0` (or an equivalent spelling) -> sense True/False; else None."""
        t = expand_locals(test, fi.node)
        neg = False
        while isinstance(t, ast.UnaryOp) and isinstance(t.op, ast.Not):
            t, neg = t.operand, not neg
        sense = None
        inner = None
        if isinstance(t, ast.Compare) and len(t.ops) == 1 and unparse(t.comparators[0]) == "0" and isinstance(t.ops[0], (ast.Eq, ast.NotEq)):
            inner, sense = t.left, isinstance(t.ops[0], ast.Eq)
        elif isinstance(t, ast.BinOp):
            inner, sense = t, False  # truthy remainder = not divisible
        if isinstance(inner, ast.BinOp) and isinstance(inner.op, ast.Mod) and unparse(inner.right) == "self.output_period_step":
            step_src[0] = unparse(inner.left)
            return sense != neg
        return None

    paths = enumerate_paths(fi.node.body)
    writes = []
    problems = []
    for p in paths:
        calls = [c for s_ in p.steps if s_[0] == "stmt" for c in ast.walk(s_[1]) if isinstance(c, ast.Call) and unparse(c.func) == "self.write"]
        known = [(divisible(t), taken) for t, taken in p.conds()]
        facts = {m == taken for m, taken in known if m is not None}
        unknown = [unparse(expand_locals(t, fi.node)) for (t, taken), (m, _) in zip(p.conds(), known) if m is None]
        if calls:
            writes += calls
            if facts != {True} or unknown or len(calls) != 1:
                problems.append(f"path {p.describe()} writes {len(calls)} record(s) under {[unparse(expand_locals(t, fi.node)) + ':' + str(k) for t, k in p.conds()]}")
        elif p.exit != "raise" and facts != {False}:
            problems.append(f"path {p.describe()} writes nothing although its conditions do not say that the step is off the output schedule")
    writes = list({id(w): w for w in writes}.values())
    rep.check(rule, fi.qual, "write iff step % output_period_step == 0", not problems and len(writes) == 1, what_bad=("; ".join(problems[:2]) or f"{len(writes)} write call(s)") + ": records are due exactly at the steps that are multiples of the period, with no further condition", what_ok="step % P == 0", loc=fi.loc())
    rep.check(rule, fi.qual, "step is the timer's current step", step_src[0] in ("self.modules['time'].step", "self.timer.step"), what_bad=f"step = {step_src[0]}", what_ok="timer.step", loc=fi.loc())
    arg_ok = len(writes) == 1 and [unparse(expand_locals(a, fi.node)) for a in writes[0].args] == ["self.modules['state']"]
    rep.check(rule, fi.qual, "the model state is what gets written", arg_ok, what_bad=f"write called with {[unparse(expand_locals(a, fi.node)) for a in writes[0].args] if writes else None}", what_ok="self.modules['state']", loc=fi.loc())
    from ..program import normalized

    init = normalized(prog, prog.role_func("output", "__init__"))
    order = []
    for st in init.node.body:
        for n in ast.walk(st):
            if isinstance(n, ast.Assign):
                t = unparse(n.targets[0])
                if t in ("self.output_period", "self.output_period_step"):
                    order.append((t, unparse(n.value).replace("self.timer.", "timer.")))
    pos = [i for i, (t, v) in enumerate(order) if t == "self.output_period_step"]
    neg = [i for i, (t, v) in enumerate(order) if t == "self.output_period" and v.startswith("-")]
    okp = len(pos) == 1 and order[pos[0]][1] in ("self.output_period // timer.dt", "int(self.output_period // timer.dt)", "int(self.output_period / timer.dt)") and all(i > pos[0] for i in neg) and order[0][1] == "normalize_period(output_period)"
    rep.check(rule, init.qual, "P = normalised positive output period // dt", okp, what_bad=f"assignments {order}", what_ok="output_period // timer.dt before the sign change", loc=init.loc())


def trip_count_rule(prog: Program, rep: Report) -> None:
    rule = "R07.2"
    # facts from the source
    tk = prog.role_func("time", "__init__")
    init_step = None
    for n in walk_no_nested(tk.node):
        if isinstance(n, ast.Assign) and unparse(n.targets[0]) == "self.step":
            try:
                init_step = int(ast.literal_eval(n.value))
            except Exception:
                pass
    upd = prog.role_func("time", "update")
    inc = [increment_of(n) for n in walk_no_nested(upd.node) if (increment_of(n) or ("", 0))[0] == "self.step"]
    inc_v = inc[0][1] if len(inc) == 1 else None
    warm_step = None
    for f in (prog.view("model.Model.__init__"),):
        for n in walk_no_nested(f.node):
            if isinstance(n, ast.Assign) and unparse(n.targets[0]) == "self.timer.step":
                try:
                    warm_step = int(ast.literal_eval(n.value))
                except Exception:
                    pass
    main = inline_helpers(prog, prog.func("main.main"))
    loops = [n for n in walk_no_nested(main.node) if isinstance(n, ast.For) and c19._is_time_loop(n)]
    tc = c19.trip_count(loops[0].iter, main.node) if len(loops) == 1 else None
    facts_ok = init_step is not None and inc_v == 1 and warm_step is not None and tc is not None and tc.endswith("Nsteps")
    rep.check(rule, "-", f"loop facts: initial step {init_step}, +{inc_v} per update, warm step {warm_step}, trip count {tc}", facts_ok, what_bad="cannot derive the sequence of steps the trigger sees", what_ok="steps derived from TimeKeeper.__init__/update, Model.__init__, main", loc="ladim/main.py")
    if not facts_ok:
        return

    def writes_closed_form(first: int) -> Optional[tuple]:
        # steps first, first+1, ..., first+N-1 pass the gate step >= 0 (first >= 0) ; trigger step % P == 0
        if first == 0:
            return ("ceil", "N", "P")
        if first == 1:
            return ("floor", "N", "P")
        return None

    cold = writes_closed_form(init_step + 1)
    warm = writes_closed_form(warm_step + 1)
    # predicted number of records
    from ..program import normalized

    init = normalized(prog, prog.role_func("output", "__init__"))
    env = {"timer.Nsteps": ("sym", "N"), "self.timer.Nsteps": ("sym", "N"), "self.output_period_step": ("sym", "P"), "self.output_period": ("per",), "timer.stop_time - timer.start_time": ("dur",)}
    from ..program import expand_locals

    def X(e):
        return expand_locals(e, init.node)

    for k_, v_ in list(env.items()):  # the same atoms with local temporaries (timer = modules["time"]) expanded
        env.setdefault(unparse(X(ast.parse(k_, mode="eval").body)), v_)

    def split_guard(test: ast.expr):
        """-> (skip_initial requirement: True/False/None, indicator: None | "NmodP" | "durmodper" | "?")"""
        parts = test.values if isinstance(test, ast.BoolOp) and isinstance(test.op, ast.And) else [test]
        skip, ind = None, None
        for p_ in parts:
            t = unparse(X(p_)).replace("self.skip_initial", "skip_initial")
            if t in ("skip_initial",):
                skip = True
            elif t in ("not skip_initial", "not (skip_initial)"):
                skip = False
            else:
                q = X(p_)
                if isinstance(q, ast.Compare) and len(q.ops) == 1 and isinstance(q.ops[0], (ast.NotEq, ast.Gt)) and unparse(q.comparators[0]) in ("0", "np.timedelta64(0)", "np.timedelta64(0, 's')"):
                    q = q.left
                if isinstance(q, ast.BinOp) and isinstance(q.op, ast.Mod):
                    a, b = count_form(q.left, env), count_form(q.right, env)
                    if a and b and a[0] == "sym" and b[0] == "sym" and (a[1], b[1]) == ("N", "P"):
                        ind = "NmodP"
                    elif a and b and a[0] == "dur" and b[0] == "per":
                        ind = "durmodper"
                    else:
                        ind = "?"
                else:
                    ind = "?"
        return skip, ind

    assigns = []  # (skip requirement, indicator, kind "set"/"add", form or increment, node)
    for st in init.node.body:
        cands = []
        if isinstance(st, (ast.Assign, ast.AugAssign)):
            cands.append(((None, None), st))
        if isinstance(st, ast.If):
            for n in st.body:
                cands.append((split_guard(st.test), n))
            for n in st.orelse:
                sk, ind = split_guard(st.test)
                cands.append(((None if sk is None else (not sk), "?" if ind else None) if (ind or sk is not None) else (None, "?"), n))
        for (sk, ind), n in cands:
            if isinstance(n, ast.Assign) and unparse(n.targets[0]) == "self.num_records":
                assigns.append((sk, ind, "set", count_form(X(n.value), env), n))
            elif isinstance(n, ast.AugAssign) and unparse(n.target) == "self.num_records" and isinstance(n.op, ast.Add) and isinstance(n.value, ast.Constant) and isinstance(n.value.value, int):
                assigns.append((sk, ind, "add", n.value.value, n))
            elif isinstance(n, ast.AugAssign) and unparse(n.target) == "self.num_records":
                assigns.append((sk, "?", "add", None, n))
    if not assigns:
        raise AnalysisError("Output.__init__: no assignment to self.num_records")

    def predicted(skip_initial: bool):
        val = None
        for sk, ind, kind, form, node in assigns:
            if sk is not None and sk != skip_initial:
                continue
            if ind == "?":
                return ("unknown-guard", node)
            if kind == "set":
                if ind is not None:
                    return ("unknown-guard", node)
                val = (form, node)
            else:
                if val is None or val[0] is None or form is None:
                    return ("unknown-guard", node)
                f = val[0]
                if ind is None:
                    if f[0] in ("floor", "ceil"):
                        off = (f[3] if len(f) > 3 else 0) + form
                        val = ((f[0], f[1], f[2], off) if off else (f[0], f[1], f[2]), node)
                    else:
                        return ("unknown-guard", node)
                elif ind == "NmodP" and f[:3] == ("floor", "N", "P") and len(f) == 3 and form == 1:
                    val = (("ceil", "N", "P"), node)  # floor(N/P) + [P does not divide N]
                elif ind == "durmodper" and f[:3] == ("floor", "N", "P") and len(f) == 3 and form == 1:
                    val = (("lattice-only", "floor(N/P) + [duration % period != 0]"), node)
                else:
                    return ("unknown-guard", node)
        return val

    for label, skip, want in (("cold start (skip_initial false)", False, cold), ("warm start (skip_initial true)", True, warm)):
        p = predicted(skip)
        if p is None or p[0] == "unknown-guard" or p[0] is None or want is None:
            rep.add(rule, init.qual, f"num_records, {label}", None, f"predicted count {fmt(p[0]) if p and p[0] != 'unknown-guard' else '?'} / trip count {fmt(want)} outside the rewrite set (undecided)", init.loc())
            continue
        form, node = p
        if form[0] == "lattice-only":
            rep.bad(rule, init.qual, f"num_records, {label}: `{short(node, 70)}`", f"predicted number of records {fmt(form)} is computed from clock durations; it equals the {fmt(want)} trigger hits only when stop - start is a whole number of steps. Abstract counterexample: Nsteps a multiple of the period in steps and (stop - start) % dt != 0 gives one record too many, the last file is never completed and its particle variables are never written", init.loc(node))
            continue
        rep.check(rule, init.qual, f"num_records, {label}: `{short(node.value, 70)}`", form == want, what_bad=f"predicted number of records {fmt(form)} but the trigger fires {fmt(want)} times (N = Nsteps, P = period in steps): when P does not divide N the file is closed one record early / late and the next write hits a closed dataset", what_ok=f"{fmt(form)} = number of trigger hits", loc=init.loc(node))
    # skip_initial is set exactly for warm starts
    c2 = prog.func("configure.configure_v2")
    from . import c18

    warm = c18.v2_outcomes(prog, present=[("warm_start", "filename")], absent=[("output", "skip_initial")])
    cold = c18.v2_outcomes(prog, absent=[("warm_start", "filename"), ("output", "skip_initial")])
    given = c18.v2_outcomes(prog, present=[("warm_start", "filename"), ("output", "skip_initial")])
    if any(o["status"] == "unsupported" for o in warm + cold + given):
        rep.add(rule, c2.qual, "skip_initial defaults to True exactly for warm starts", None, "configure_v2 outside the evaluator", c2.loc())
    else:
        def sk(o):
            return o["overlay"].get(("output",), {}).get("skip_initial", "<not written>")

        ok = bool(warm) and all(o["status"] == "ok" and sk(o) is True for o in warm) and all(sk(o) == "<not written>" for o in cold if o["status"] == "ok") and all(sk(o) == "<not written>" for o in given if o["status"] == "ok")
        rep.check(rule, c2.qual, "skip_initial defaults to True exactly for warm starts", ok, what_bad="the record count of a warm start would be predicted with the cold-start formula", what_ok="warm start => skip_initial", loc=c2.loc())


def rollover_rule(prog: Program, rep: Report) -> None:
    rule = "R07.3"
    sub = Report(pid="C07")
    c06.cursor_rules(prog, sub)
    c06.create_rules(prog, sub)
    keep = ("new file", "file finished", "last record", "local_num_records", "file not finished")
    n = 0
    for o in sub.obligations:
        if any(k in o.construct for k in keep):
            rep.add(rule, o.func, o.construct, o.verdict == "ok" if o.verdict != "undecided" else None, o.what, o.loc)
            n += 1
    if n < 6:
        raise AnalysisError("roll-over obligations not found")
    from ..program import reading_view

    init = reading_view(prog, prog.role_func("output", "__init__"))
    src = unparse(init.node)
    multi = [n_ for n_ in walk_no_nested(init.node) if isinstance(n_, ast.If) and unparse(n_.test) in ("self.numrec", "bool(self.numrec)", "self.numrec > 0", "self.numrec != 0", "self.multifile", "numrec", "numrec > 0")]
    ok = False
    for g in multi:
        b = [unparse(x) for x in g.body]
        e = [unparse(x) for x in g.orelse]
        if unparse(g.test) == "self.multifile":
            mdef = [unparse(n_.value) for n_ in walk_no_nested(init.node) if isinstance(n_, ast.Assign) and unparse(n_.targets[0]) == "self.multifile" and n_.lineno < g.lineno]
            if mdef[-1:] not in (["bool(self.numrec)"], ["self.numrec > 0"], ["bool(numrec)"]):
                continue
        ok = ok or ("self.filenames = filename_generator(Path(filename))" in b and "self.filename = next(self.filenames)" in b and any(x.startswith("self.numrec = ") for x in e) and "self.filename = Path(filename)" in e)
    rep.check(rule, init.qual, "numrec > 0: numbered files from the generator; else one file", ok, what_bad="multi-file set-up changed", what_ok="generator / single file", loc=init.loc())
    cl = prog.role_func("output", "close")
    okc = any(isinstance(n_, ast.If) and "isopen" in unparse(n_.test) and any("self.nc.close()" in unparse(x) for x in n_.body) for n_ in walk_no_nested(cl.node))
    rep.check(rule, cl.qual, "close() closes an open dataset only", okc, what_bad="closing twice raises / an open last file is never closed", what_ok="if isopen: close", loc=cl.loc())


def _nf_of(e: ast.expr, names: dict):
    """Tiny arithmetic evaluator: expression over names/constants -> normal form (atoms = unparse of leaves)."""
    from ..nf import NF

    if isinstance(e, ast.Constant) and isinstance(e.value, (int, float)):
        return NF.const(e.value)
    if isinstance(e, ast.UnaryOp) and isinstance(e.op, ast.USub):
        return -_nf_of(e.operand, names)
    if isinstance(e, ast.BinOp) and isinstance(e.op, (ast.Add, ast.Sub, ast.Mult)):
        l, r = _nf_of(e.left, names), _nf_of(e.right, names)
        return l + r if isinstance(e.op, ast.Add) else (l - r if isinstance(e.op, ast.Sub) else l * r)
    return NF.atom(unparse(e))


def numbering_rule(prog: Program, rep: Report) -> None:
    """filename_generator: stem_%0{w}d starting at the parsed number (or 0, width 3), +1 per file.
    Decided on sequentially expanded paths, so local names and the branch order do not matter."""
    rule = "R07.4"
    fi = prog.lview("out_netcdf.filename_generator")
    from ..nf import NF

    # the search pattern
    searches = [n for n in walk_no_nested(fi.node) if isinstance(n, ast.Call) and unparse(n.func) in ("re.search", "re.match", "re.fullmatch")]
    pat = None
    if len(searches) == 1:
        a0 = searches[0].args[0]
        src = a0
        if isinstance(a0, ast.Name):
            src = single_defs(fi.node).get(a0.id, a0)
        if isinstance(src, ast.Constant) and isinstance(src.value, str):
            pat = src.value
    import re._parser as rp  # type: ignore

    okp = False
    if pat and len(searches) == 1 and unparse(searches[0].func) == "re.search" and len(searches[0].args) == 2:
        p = list(rp.parse(pat))
        kinds = [str(op) for op, av in p]
        okp = kinds == ["LITERAL", "SUBPATTERN", "AT"] and chr(p[0][1]) == "_" and "END" in str(p[2][1])
        if okp:
            sub = list(p[1][1][3])
            okp = len(sub) == 1 and str(sub[0][0]) == "MAX_REPEAT" and sub[0][1][0] == 1 and "DIGIT" in str(sub[0][1][2])
        subj = xunparse(searches[0].args[1], fi.node)
        okp = okp and subj == "filename.stem"
    rep.check(rule, fi.qual, f"number pattern {pat!r}: '_' + digits at the end of the stem", okp, what_bad="the trailing _ddd of a file name is no longer recognised: a restart does not continue the numbering", what_ok="re.search('_(digits)$', stem)", loc=fi.loc())
    # the two set-up paths (statements before the generating loop)
    loop_idx = next((i for i, st in enumerate(fi.node.body) if isinstance(st, (ast.While, ast.For))), None)
    if loop_idx is None:
        rep.bad(rule, fi.qual, "generating loop", "no loop that yields the file names", fi.loc())
        return
    loop = fi.node.body[loop_idx]
    from ..paths import enumerate_paths as _ep

    seen = {"match": False, "nomatch": False}
    mtext = xunparse(searches[0], fi.node) if searches else "?"
    for p in _ep(fi.node.body[:loop_idx]):
        recs, env = sequential_expand(p.stmts())
        # which branch?  condition on the match object
        matched = None
        for t, taken in p.conds():
            tt = xunparse(t, fi.node)
            if tt == mtext:
                matched = taken
            elif tt == f"{mtext} is None":
                matched = not taken
            elif tt == f"{mtext} is not None":
                matched = taken
        if matched is None:
            continue
        seen["match" if matched else "nomatch"] = True
        # the loop's start number, the width and the prefix are whatever the loop and template use
        tmpl = None
        for name, v in env.items():
            if isinstance(v, ast.JoinedStr):
                tmpl = v
        if tmpl is None:
            rep.bad(rule, fi.qual, f"template ({'number found' if matched else 'no number'})", "no f-string template built before the loop", fi.loc())
            continue
        consts = [x.value for x in tmpl.values if isinstance(x, ast.Constant)]
        fvals = [unparse(x.value) for x in tmpl.values if isinstance(x, ast.FormattedValue)]
        group = f"{mtext}.group(1)"
        if matched:
            want_width = f"len({group})"
            ok_t = consts == ["_{:0", "d}"] and len(fvals) == 3 and fvals[1] == want_width and fvals[2] == "filename.suffix"
            # prefix = stem[: -(width + 1)]
            ok_pref = False
            try:
                pe = ast.parse(fvals[0], mode="eval").body
                if isinstance(pe, ast.Subscript) and unparse(pe.value) == "filename.stem" and isinstance(pe.slice, ast.Slice) and pe.slice.lower is None and pe.slice.upper is not None:
                    ok_pref = _nf_of(pe.slice.upper, {}) == -NF.atom(want_width) - 1
            except Exception:
                ok_pref = False
            rep.check(rule, fi.qual, "number found: template = stem without _ddd + '_' + zero-padded number of the same width + suffix", ok_t and ok_pref, what_bad=f"template parts {consts} / {fvals}", what_ok="stem[: -width - 1]_{:0<width>d}<suffix>", loc=fi.loc())
            start_want = f"int({group})"
        else:
            ok_t = consts == ["_{:0", "d}"] and len(fvals) == 3 and fvals[0] == "filename.stem" and fvals[1] == "3" and fvals[2] == "filename.suffix"
            rep.check(rule, fi.qual, "no number: template = stem + '_' + three-digit number + suffix", ok_t, what_bad=f"template parts {consts} / {fvals}", what_ok="stem_{:03d}<suffix>", loc=fi.loc())
            start_want = "0"
        # start number: the variable the loop counts from
        start = None
        if isinstance(loop, ast.While):
            ys = [x for x in ast.walk(loop) if isinstance(x, ast.Yield)]
            if ys and isinstance(ys[0].value, ast.BinOp):
                fmt = [c for c in ast.walk(ys[0].value) if isinstance(c, ast.Call) and isinstance(c.func, ast.Attribute) and c.func.attr == "format"]
                if fmt and fmt[0].args and isinstance(fmt[0].args[0], ast.Name):
                    start = env.get(fmt[0].args[0].id)
        elif isinstance(loop, ast.For) and isinstance(loop.iter, ast.Call) and unparse(loop.iter.func) in ("itertools.count", "count"):
            a = loop.iter.args
            start = a[0] if a else ast.Constant(0)
            if isinstance(start, ast.Name):
                start = env.get(start.id, start)
        rep.check(rule, fi.qual, f"first file number ({'number found' if matched else 'no number'})", start is not None and unparse(start) == start_want, what_bad=f"numbering starts at {unparse(start) if start is not None else None}, expected {start_want}", what_ok=start_want, loc=fi.loc())
    rep.check(rule, fi.qual, "both cases handled: stem with and without trailing _ddd", seen["match"] and seen["nomatch"], what_bad=f"{seen}", what_ok="both", loc=fi.loc())
    # generation: consecutive numbers, first file = start number
    ok = False
    if isinstance(loop, ast.While) and unparse(loop.test) == "True":
        body = loop.body
        ys = [i for i, st in enumerate(body) if isinstance(st, ast.Expr) and isinstance(st.value, ast.Yield)]
        if len(ys) == 1 and len(body) == 2:
            fmt = [c for c in ast.walk(body[ys[0]]) if isinstance(c, ast.Call) and isinstance(c.func, ast.Attribute) and c.func.attr == "format"]
            cnt = unparse(fmt[0].args[0]) if fmt and fmt[0].args else None
            incs = [i for i, st in enumerate(body) if increment_of(st) == (cnt, 1)]
            ok = len(incs) == 1 and ys[0] < incs[0] and "filename.parent" in punparse(body[ys[0]].value, fi.node)
    elif isinstance(loop, ast.For) and isinstance(loop.iter, ast.Call) and unparse(loop.iter.func) in ("itertools.count", "count"):
        step_ok = len(loop.iter.args) <= 1 or (len(loop.iter.args) == 2 and unparse(loop.iter.args[1]) == "1")
        ys = [st for st in loop.body if isinstance(st, ast.Expr) and isinstance(st.value, ast.Yield)]
        if len(ys) == 1 and len(loop.body) == 1 and step_ok:
            fmt = [c for c in ast.walk(ys[0]) if isinstance(c, ast.Call) and isinstance(c.func, ast.Attribute) and c.func.attr == "format"]
            ok = bool(fmt) and fmt[0].args and unparse(fmt[0].args[0]) == unparse(loop.target) and "filename.parent" in punparse(ys[0].value, fi.node)
    rep.check(rule, fi.qual, "yield parent/template.format(n) for n = start, start+1, ...", ok, what_bad="file numbers must increase by exactly one per file, the first file carrying the start number", what_ok="consecutive numbers", loc=fi.loc())


def run(prog: Program, rep: Report, tier: str) -> None:
    rep.level = "other"
    rep.explanation = (
        "Compiler-style trip-count analysis: from the initial step, the clock increment, the main loop's trip count, the gate "
        "step >= 0 and the trigger step % P == 0 a closed form for the number of writes is derived (cold: ceil(N/P), warm: "
        "floor(N/P)) and compared with the expression assigned to num_records after counting rewrites under the lattice "
        "assumption; the roll-over sequence is taken from the abstract evaluation of Output.write; the file-name generator and "
        "the main loop are checked structurally. Decides the schedule arithmetic, not NetCDF behaviour."
    )
    rep.assumptions = ["duration = N*dt and output period = P*dt (the property's valid combinations)", "N >= 1"]
    rep.trusted_base = ["CPython ast, re._parser", "counting rewrites of DESIGN appendix A.3", "sa/rules/c06.py (abstract evaluation of Output.write)"]
    rep.rule("R07.1", "trigger: write iff timer.step % P == 0, P = positive period // dt", 4)
    rep.rule("R07.2", "trip count of the trigger = predicted num_records (cold and warm start)", 4)
    rep.rule("R07.3", "roll-over: particle variables, close, next name, create, reset both local counters; last file shorter", 8)
    rep.rule("R07.4", "file numbering: stem_%0{w}d from the parsed number (or 0, width 3), +1 per file", 5)
    rep.rule("R07.5", "main loop shape (shared with C19 R19.2)", 3)
    trigger_rule(prog, rep)
    trip_count_rule(prog, rep)
    rollover_rule(prog, rep)
    numbering_rule(prog, rep)
    sub = Report(pid="C07")
    c19.main_loop_analysis(prog, sub, "R07.5")
    c19.step_word_analysis(prog, sub, "R07.5")
    rep.obligations.extend(sub.obligations)
    from ..share import share

    share(prog, rep, "C06", ("R06.6",), "R07.6", "dense layout: every record is written at its own row of the current file (split files concatenate to the unsplit run)", 3)
    share(prog, rep, "C13", ("R13.1", "R13.2"), "R07.7", "the clock behind the record times advances by dt per step in the direction of the run", 6)



from ..selftest import Mut  # noqa: E402

ON = "ladim/out_netcdf.py"
MA = "ladim/main.py"
MO = "ladim/model.py"
TK = "ladim/timekeeper.py"
AUDIT = [
    Mut("output-skipped-when-state-empty", ON, "        step = self.modules[\"time\"].step\n        if step % self.output_period_step == 0:\n            logger.info(\"writing, time = %s\", self.modules[\"time\"].time)\n            self.write(self.modules[\"state\"])", "        timer = self.modules[\"time\"]\n        state = self.modules.get(\"state\")\n        if state and timer.step % self.output_period_step == 0:\n            logger.info(\"writing, time = %s\", timer.time)\n            self.write(state)", rule="R07.1"),
    Mut("benign-update-with-temporaries", ON, "        step = self.modules[\"time\"].step\n        if step % self.output_period_step == 0:\n            logger.info(\"writing, time = %s\", self.modules[\"time\"].time)\n            self.write(self.modules[\"state\"])", "        timer = self.modules[\"time\"]\n        state = self.modules[\"state\"]\n        if timer.step % self.output_period_step == 0:\n            logger.info(\"writing, time = %s\", timer.time)\n            self.write(state)", expect="silent"),
    Mut("trigger-eq1", ON, "        if step % self.output_period_step == 0:", "        if step % self.output_period_step == 1:", rule="R07.1"),
    Mut("trigger-period-seconds", ON, "        if step % self.output_period_step == 0:", "        if step % self.output_period == 0:", rule="R07.1"),
    Mut("period-step-after-sign", ON, "        self.output_period_step = self.output_period // timer.dt\n        if timer.time_reversal:\n            self.output_period = -self.output_period\n", "        if timer.time_reversal:\n            self.output_period = -self.output_period\n        self.output_period_step = self.output_period // timer.dt\n", rule="R07.1"),
    Mut("num-records-duration-mod", ON, "        if not skip_initial:\n            self.num_records = int(-(-timer.Nsteps // self.output_period_step))\n", "        if not skip_initial and (timer.stop_time - timer.start_time) % self.output_period:\n            self.num_records += 1\n", rule="R07.2"),
    Mut("num-records-duration-ceil", ON, "        if not skip_initial:\n            self.num_records = int(-(-timer.Nsteps // self.output_period_step))\n", "        if not skip_initial:\n            self.num_records = int(abs(-(-(timer.stop_time - timer.start_time) // self.output_period)))\n", rule="R07.2"),
    Mut("benign-num-records-steps-mod", ON, "        if not skip_initial:\n            self.num_records = int(-(-timer.Nsteps // self.output_period_step))\n", "        if not skip_initial and timer.Nsteps % self.output_period_step:\n            self.num_records += 1\n", expect="silent"),
    Mut("num-records-floor", ON, "        if not skip_initial:\n            self.num_records = int(-(-timer.Nsteps // self.output_period_step))\n", "", rule="R07.2"),
    Mut("num-records-ceil-always", ON, "        if not skip_initial:\n            self.num_records = int(-(-timer.Nsteps // self.output_period_step))\n", "        self.num_records = int(-(-timer.Nsteps // self.output_period_step))\n", rule="R07.2"),
    Mut("num-records-plus1", ON, "            self.num_records = int(-(-timer.Nsteps // self.output_period_step))", "            self.num_records = int(timer.Nsteps // self.output_period_step) + 1", rule="R07.2"),
    Mut("clock-starts-at-0", TK, "        self.step = -1  # step before start", "        self.step = 0  # step before start", rule="R07.2"),
    Mut("new-file-le", ON, "            if self.record_count < self.num_records:", "            if self.record_count <= self.num_records:", rule="R07.3"),
    Mut("no-reset", ON, "                self.local_record_count = 0\n", "", rule="R07.3"),
    Mut("numbering-plus2", ON, "        filenumber += 1\n", "        filenumber += 2\n", rule="R07.4"),
    Mut("numbering-width", ON, "        number_width = 3\n", "        number_width = 2\n", rule="R07.4"),
    Mut("numbering-pattern", ON, 'pattern = r"_(\\d+)$"', 'pattern = r"_(\\d+)"', rule="R07.4"),
    Mut("inc-before-yield", ON, "        yield filename.parent / filename_template.format(filenumber)\n        filenumber += 1", "        filenumber += 1\n        yield filename.parent / filename_template.format(filenumber)", rule="R07.4"),
    Mut("loop-plus1", MA, "for _step in range(model.timer.Nsteps):", "for _step in range(model.timer.Nsteps + 1):", rule="R07"),
    Mut("gate-gt0", MO, "        if step >= 0:\n            self.output.update()", "        if step > 0:\n            self.output.update()", rule="R07.5"),
    Mut("benign-ceil-form", ON, "            self.num_records = int(-(-timer.Nsteps // self.output_period_step))", "            self.num_records = int((timer.Nsteps + self.output_period_step - 1) // self.output_period_step)", expect="silent"),
    Mut("benign-not-mod", ON, "        if step % self.output_period_step == 0:", "        if not step % self.output_period_step:", expect="silent"),
    Mut("benign-inc-form", ON, "        filenumber += 1\n", "        filenumber = filenumber + 1\n", expect="silent"),
    Mut("benign-ceil-form2", ON, "            self.num_records = int(-(-timer.Nsteps // self.output_period_step))", "            self.num_records = 1 + (timer.Nsteps - 1) // self.output_period_step", expect="silent"),
]
