"""C11 - random-walk diffusion has the configured variance and no bias.

Decided (given that Generator.normal(size=n) returns n independent standard normals): the
symbolic second moment of the per-step displacement is 2*D*dt/dx^2 (2*Dz*dt vertically), there is
no constant term, U and V come from distinct per-call draws of the current particle count, and no
random number is drawn when the coefficients are zero.  Not decided: the distribution actually sampled.
"""

from __future__ import annotations

import ast

from ..interp import Phi, Ref, Tup, vtext
from ..nf import NF
from ..program import AnalysisError, Program, unparse, short, walk_no_nested
from ..report import Report
from .c01 import update_normal_form, moved_arm


def unreflected(v):
    """Strip masked-store Phis keeping the 'old value' arm (no reflection applied)."""
    while isinstance(v, Phi) and v.test.startswith("mask:"):
        v = v.b
    return v


def run(prog: Program, rep: Report, tier: str) -> None:
    rep.level = "other"
    rep.explanation = (
        "Abstract interpretation of Tracker.update/diffuse/diffuse_vert in the rational-normal-form domain with each "
        "rng.normal call replaced by a fresh unit-variance atom: the coefficient of the draw in the stored position is "
        "squared and compared with 2*D*dt/dx^2 (2*Dz*dt); constant terms, draw sharing, draw size and the guarding of "
        "every rng use by the diffusion flags are checked structurally.  Decides the second-moment algebra and the "
        "independence structure, not the sampled distribution."
    )
    rep.assumptions = [
        "numpy Generator.normal(size=n) returns n independent N(0,1) values (tabulated, appendix A.1)",
        "not decided: statistics of an actual sample, interaction with land and boundaries",
    ]
    rep.trusted_base = ["CPython ast", "exact Fraction arithmetic", "sa/nf.py, sa/interp.py"]
    rep.rule("R11.1", "second moment of the diffusive displacement: (coefficient of the unit draw)^2 = 2*D*dt/dx^2, 2*D*dt/dy^2, 2*Dz*dt", 3)
    rep.rule("R11.2", "zero mean: no constant displacement term; normal() called without loc/scale", 4)
    rep.rule("R11.3", "independence: distinct draws per direction, size = current particle count, drawn on the update path", 4)
    rep.rule("R11.4", "determinism when off: no RNG use unless the diffusion flag (coefficient > 0) is set", 3)
    fi = prog.func("tracker.Tracker.update")

    # horizontal, advection off to isolate the diffusive part; and with advection on
    for adv in (False, True):
        flags = dict(advection=adv, diffusion=True, vertdiff=False, vertical_advection=False)
        it, fr, draws = update_normal_form(prog, flags)
        atoms = [d[0] for d in draws]
        label = f"advection {'on' if adv else 'off'}, diffusion on"
        if adv is False:
            rep.check("R11.3", fi.qual, f"number of draws ({label})", len(draws) == 2, what_bad=f"{len(draws)} rng.normal call(s) evaluated for the horizontal step; need one per direction", what_ok="2 distinct calls", loc=fi.loc())
        used = {}
        for pos, d, vel in (("X", "dx", "Uadv"), ("Y", "dy", "Vadv")):
            v = it.objenv.get(f"state.{pos}")
            moved, _ = moved_arm(v, NF.atom(pos))
            if not isinstance(moved, NF):
                rep.bad("R11.1", fi.qual, f"stored {pos} ({label})", f"not a normal form: {moved!r}", fi.loc())
                continue
            disp = moved - NF.atom(pos)
            xis = [a for a in atoms if a.canon() in disp.atoms()]
            used[pos] = xis
            if len(xis) != 1:
                rep.bad("R11.3", fi.qual, f"draws entering {pos} ({label})", f"{len(xis)} draws enter the {pos} displacement, expected exactly one", fi.loc())
                continue
            xi = xis[0].canon()
            try:
                c = disp.coeff(xi)
                ok = (c * c) == 2 * NF.atom("D") * NF.atom("dt") / (NF.atom(d) * NF.atom(d))
                what = f"coefficient of the unit draw is {c}; its square {c * c}"
            except ValueError as e:
                ok, what = False, str(e)
            if not adv:
                rep.check("R11.1", fi.qual, f"variance of the {pos} displacement", ok, what_bad=what + f", must be 2*D*dt/{d}^2", what_ok=what, loc=fi.loc())
                rest = disp.subst({xi: NF.const(0)})
                rep.check("R11.2", fi.qual, f"mean of the {pos} displacement (advection off)", rest.is_zero(), what_bad=f"displacement has the draw-independent term {rest}: biased random walk", what_ok="0", loc=fi.loc())
                rep.check("R11.2", fi.qual, f"degree of the draw in {pos}", disp.degree(xi) == 1 and disp.is_poly() or xi not in {k for m in disp.den for k, _ in m}, what_bad="displacement is not linear in the draw", what_ok="linear", loc=fi.loc())
            else:
                rest = disp.subst({xi: NF.const(0)})
                rep.check("R11.2", fi.qual, f"{pos}: advective and diffusive parts add ({label})", rest == NF.atom(vel) * NF.atom("dt") / NF.atom(d) and ok, what_bad=f"with both on the displacement is {disp}", what_ok="advective + diffusive", loc=fi.loc())
        if not adv and "X" in used and "Y" in used and used["X"] and used["Y"]:
            rep.check("R11.3", fi.qual, "U and V use different draws", used["X"][0] != used["Y"][0], what_bad="the same random draw moves x and y: perfectly correlated directions", what_ok="distinct", loc=fi.loc())
        if not adv:
            for a, size, node, kws, pargs in draws:
                sz = it.num(size) if size is not None else None
                want = NF.atom("len(X)")
                alt = NF.atom("len(Y)")
                rep.check("R11.3", "tracker.Tracker.diffuse", f"size of draw `{short(node)}`", sz is not None and (sz == want or sz == alt), what_bad=f"draw size is {vtext(size) if size is not None else 'absent (a single scalar draw shared by all particles)'}; must be the current number of particles", what_ok="len(X)", loc=fi.loc(node))
                rep.check("R11.2", "tracker.Tracker.diffuse", f"arguments of `{short(node)}`", not pargs and set(kws) <= {"size"}, what_bad=f"normal() is called with loc/scale arguments {pargs} {kws}", what_ok="standard normal", loc=fi.loc(node))

    # both diffusions on: the horizontal variance must not change (cooperating sites, e.g. a shared cached coefficient)
    it, fr, draws = update_normal_form(prog, dict(advection=False, diffusion=True, vertdiff=True, vertical_advection=False))
    for pos, d in (("X", "dx"), ("Y", "dy")):
        moved, _ = moved_arm(it.objenv.get(f"state.{pos}"), NF.atom(pos))
        ok, what = False, f"not a normal form: {vtext(moved)[:80]}"
        if isinstance(moved, NF):
            disp = moved - NF.atom(pos)
            xis = [a[0].canon() for a in draws if a[0].canon() in disp.atoms()]
            if len(xis) == 1:
                c = disp.coeff(xis[0])
                ok = (c * c) == 2 * NF.atom("D") * NF.atom("dt") / (NF.atom(d) * NF.atom(d))
                what = f"coefficient {c}"
            else:
                what = f"{len(xis)} draws enter"
        rep.check("R11.1", fi.qual, f"variance of the {pos} displacement with vertical diffusion also on", ok, what_bad=what + f"; must stay 2*D*dt/{d}^2", what_ok=what, loc=fi.loc())
    z = unreflected(it.objenv.get("state.Z"))
    if isinstance(z, NF):
        disp = z - NF.atom("Z")
        xis = [a[0].canon() for a in draws if a[0].canon() in disp.atoms()]
        okz = len(xis) == 1 and (disp.coeff(xis[0]) ** 2) == 2 * NF.atom("Dz") * NF.atom("dt")
        rep.check("R11.1", fi.qual, "variance of the vertical displacement with horizontal diffusion also on", okz, what_bad=f"vertical displacement {disp}", what_ok="2*Dz*dt", loc=fi.loc())
    # vertical
    flags = dict(advection=False, diffusion=False, vertdiff=True, vertical_advection=False)
    it, fr, draws = update_normal_form(prog, flags)
    v = it.objenv.get("state.Z")
    z = unreflected(v)
    if not isinstance(z, NF):
        rep.bad("R11.1", fi.qual, "stored Z (vertdiff on)", f"not a normal form: {z!r}", fi.loc())
    else:
        disp = z - NF.atom("Z")
        xis = [d[0].canon() for d in draws if d[0].canon() in disp.atoms()]
        if len(xis) != 1:
            rep.bad("R11.1", fi.qual, "draws entering Z", f"{len(xis)} draws enter the vertical displacement, expected one", fi.loc())
        else:
            c = disp.coeff(xis[0])
            rep.check("R11.1", fi.qual, "variance of the vertical displacement", (c * c) == 2 * NF.atom("Dz") * NF.atom("dt"), what_bad=f"coefficient of the unit draw is {c}, square {c * c}, must be 2*Dz*dt", what_ok=f"{c}", loc=fi.loc())
            rest = disp.subst({xis[0]: NF.const(0)})
            rep.check("R11.2", fi.qual, "mean of the vertical displacement", rest.is_zero(), what_bad=f"draw-independent vertical term {rest}", what_ok="0", loc=fi.loc())
        for a, size, node, kws, pargs in draws:
            sz = it.num(size) if size is not None else None
            rep.check("R11.3", "tracker.Tracker.diffuse_vert", f"size of draw `{short(node)}`", sz is not None and sz == NF.atom("len(X)"), what_bad=f"draw size is {vtext(size) if size is not None else 'absent'}", what_ok="len(X)", loc=fi.loc(node))
            rep.check("R11.2", "tracker.Tracker.diffuse_vert", f"arguments of `{short(node)}`", not pargs and set(kws) <= {"size"}, what_bad=f"normal() called with {pargs} {kws}", what_ok="standard normal", loc=fi.loc(node))

    # vertical diffusion together with vertical advection: the two displacements add
    it, fr, draws = update_normal_form(prog, dict(advection=False, diffusion=False, vertdiff=True, vertical_advection=True))
    z = unreflected(it.objenv.get("state.Z"))
    ok, what = False, f"stored Z is not a normal form: {vtext(z)[:100]}"
    if isinstance(z, NF):
        disp = z - NF.atom("Z")
        xis = [d[0].canon() for d in draws if d[0].canon() in disp.atoms()]
        if len(xis) == 1:
            c = disp.coeff(xis[0])
            rest = disp.subst({xis[0]: NF.const(0)})
            ok = (c * c) == 2 * NF.atom("Dz") * NF.atom("dt") and rest == NF.atom("W") * NF.atom("dt")  # W: the forcing's vertical velocity (c01.update_normal_form)
            what = f"vertical displacement {disp}"
        else:
            what = f"{len(xis)} random draw(s) enter the vertical displacement {disp} when vertical advection is also on: the random walk is dropped or doubled"
    rep.check("R11.1", fi.qual, "vertical: advective and diffusive parts add (vertdiff on, vertical_advection on)", ok, what_bad=what + "; must be w*dt + sqrt(2*Dz*dt)*xi", what_ok=what, loc=fi.loc())

    # R11.4: nothing drawn when off
    for adv in (False, True):
        for va in (False, True):
            flags = dict(advection=adv, diffusion=False, vertdiff=False, vertical_advection=va)
            it, fr, draws = update_normal_form(prog, flags)
            rep.check("R11.4", fi.qual, f"RNG calls with both coefficients zero (advection={adv}, vertical_advection={va})", not draws, what_bad=f"{len(draws)} random draw(s) although diffusion and vertdiff are off: the tracker is not deterministic", what_ok="none", loc=fi.loc())
    # flags are `coefficient > 0`
    init = prog.func("tracker.Tracker.__init__")
    for flag, param in (("diffusion", "diffusion"), ("vertdiff", "vertdiff")):
        found = None
        for node in walk_no_nested(init.node):
            if isinstance(node, ast.Assign) and unparse(node.targets[0]) == f"self.{flag}":
                found = node
        if found is None:
            raise AnalysisError(f"Tracker.__init__: assignment to self.{flag} not found")
        from ..program import expand_locals

        fv = expand_locals(found.value, init.node)  # a temporary holding the comparison reads as the comparison
        names = {n.id for n in ast.walk(fv) if isinstance(n, ast.Name)}
        cmp_ok = any(isinstance(n, ast.Compare) and isinstance(n.ops[0], (ast.Gt, ast.GtE, ast.NotEq)) for n in ast.walk(fv)) or unparse(fv) in (f"bool({param})", param)
        rep.check("R11.4", init.qual, short(found), param in names and cmp_ok, what_bad=f"the {flag} switch must be derived from the {param} coefficient being positive", what_ok="coefficient > 0", loc=init.loc(found))
    # no draw cached at construction
    cached = [n for n in walk_no_nested(init.node) if isinstance(n, ast.Call) and isinstance(n.func, ast.Attribute) and n.func.attr in ("normal", "standard_normal", "random")]
    rep.check("R11.3", init.qual, "draws at construction time", not cached, what_bad="random numbers drawn once in __init__ would be reused every step", what_ok="none", loc=init.loc())
    rep.rule("R11.7", "the metric that scales the random step is computed from the positions handed to Grid.metric in this call, on every path (no memo keyed on less than the arguments)", 1)
    from .c14 import call_attribute_freshness

    sub = Report(pid="C11")
    call_attribute_freshness(prog, sub, "R14.12", roles=("grid",))
    for o in sub.obligations:
        if o.func.endswith(".metric"):
            rep.add("R11.7", o.func, o.construct, o.verdict == "ok" if o.verdict != "undecided" else None, o.what, o.loc)
    from ..share import share

    share(prog, rep, "C18", ("R18.6",), "R11.5", "a version-1 configuration hands the diffusion coefficients to the tracker keys they belong to", 1, only=lambda o: "diffusion" in o.construct.lower() or "numerics" in o.construct.lower())
    share(prog, rep, "C17", ("R17.1",), "R11.6", "the grid metric used to scale the random step is read at the particle's own cell", 2, only=lambda o: "Grid.metric" in o.func)



from ..selftest import Mut  # noqa: E402

T = "ladim/tracker.py"
AUDIT = [
    Mut("stddev-times-dt", T, "stddev = (2 * self.D / self.dt) ** 0.5", "stddev = (2 * self.D * self.dt) ** 0.5", rule="R11.1"),
    Mut("stddev-no-sqrt", T, "stddev = (2 * self.D / self.dt) ** 0.5", "stddev = 2 * self.D / self.dt", rule="R11.1"),
    Mut("stddev-factor", T, "stddev = (2 * self.D / self.dt) ** 0.5", "stddev = (self.D / self.dt) ** 0.5", rule="R11.1"),
    Mut("vert-uses-D", T, "stddev = (2 * self.Dz / self.dt) ** 0.5", "stddev = (2 * self.D / self.dt) ** 0.5", rule="R11.1"),
    Mut("v-equals-u", T, "        V = stddev * self.rng.normal(size=num_particles)\n", "        V = U\n", rule="R11.3"),
    Mut("loc-bias", T, "U = stddev * self.rng.normal(size=num_particles)", "U = stddev * self.rng.normal(0.1, 1.0, size=num_particles)", rule="R11.2"),
    Mut("scalar-draw", T, "W: ParticleArray = stddev * self.rng.normal(size=num_particles)", "W: ParticleArray = stddev * self.rng.normal() * np.ones(num_particles)", rule="R11.3"),
    Mut("drift", T, "            U += Udiff\n", "            U += Udiff + 0.01\n", rule="R11.2"),
    Mut("always-draw", T, "        if self.diffusion:\n            Udiff, Vdiff", "        if True:\n            Udiff, Vdiff", rule="R11.4"),
    Mut("diffusion-added-twice", T, "            V += Vdiff\n", "            V += 2 * Vdiff\n", rule="R11.1"),
    Mut("vertical-w-overwritten", T, "            if self.vertdiff:\n                W = self.diffuse_vert(num_particles=len(X))\n                Z += W * self.dt\n\n            # Advection\n            if self.vertical_advection:\n                W = force.variables[\"w\"]\n                Z += W * self.dt", "            W = np.zeros_like(Z)\n            if self.vertdiff:\n                W = self.diffuse_vert(num_particles=len(X))\n\n            # Advection\n            if self.vertical_advection:\n                W = force.variables[\"w\"]\n            Z += W * self.dt", rule="R11.1"),
    Mut("benign-vertical-w-summed", T, "            if self.vertdiff:\n                W = self.diffuse_vert(num_particles=len(X))\n                Z += W * self.dt\n\n            # Advection\n            if self.vertical_advection:\n                W = force.variables[\"w\"]\n                Z += W * self.dt", "            W = np.zeros_like(Z)\n            if self.vertdiff:\n                W = W + self.diffuse_vert(num_particles=len(X))\n\n            # Advection\n            if self.vertical_advection:\n                W = W + force.variables[\"w\"]\n            Z += W * self.dt", expect="silent"),
    Mut("u-v-one-buffer", T, "        U = np.zeros_like(X)\n        V = np.zeros_like(Y)\n\n        # --- Advection ---\n        if self.advection:\n            Uadv, Vadv = self.advect(X, Y, Z, force)\n            U += Uadv\n            V += Vadv\n", "        # --- Advection ---\n        if self.advection:\n            U, V = self.advect(X, Y, Z, force)\n        else:\n            U = V = np.zeros_like(X)\n", rule="R11.3"),
    Mut("benign-u-v-separate-buffers", T, "        U = np.zeros_like(X)\n        V = np.zeros_like(Y)\n\n        # --- Advection ---\n        if self.advection:\n            Uadv, Vadv = self.advect(X, Y, Z, force)\n            U += Uadv\n            V += Vadv\n", "        # --- Advection ---\n        if self.advection:\n            U, V = self.advect(X, Y, Z, force)\n        else:\n            U = np.zeros_like(X)\n            V = np.zeros_like(Y)\n", expect="silent"),
    Mut("shared-cached-stddev", T, "        self.rng = np.random.default_rng()\n", "        self.rng = np.random.default_rng()\n        if self.diffusion:\n            self.stddev = (2 * self.D / self.dt) ** 0.5\n        if self.vertdiff:\n            self.stddev = (2 * self.Dz / self.dt) ** 0.5\n", rule="R11.1",
        more=((T, "        stddev = (2 * self.D / self.dt) ** 0.5\n        U = stddev", "        stddev = self.stddev\n        U = stddev"), (T, "        stddev = (2 * self.Dz / self.dt) ** 0.5\n        W:", "        stddev = self.stddev\n        W:"))),
    Mut("benign-cached-stddev", T, "        self.rng = np.random.default_rng()\n", "        self.rng = np.random.default_rng()\n        self.stddev_h = (2 * self.D / self.dt) ** 0.5\n", expect="silent",
        more=((T, "        stddev = (2 * self.D / self.dt) ** 0.5\n        U = stddev", "        stddev = self.stddev_h\n        U = stddev"),)),
    Mut("benign-sqrt", T, "stddev = (2 * self.D / self.dt) ** 0.5", "stddev = np.sqrt(2 * self.D / self.dt)", expect="silent"),
    Mut("benign-seed", T, "self.rng = np.random.default_rng()", "self.rng = np.random.default_rng(12345)", expect="silent"),
    Mut("benign-size-lenY", T, "Udiff, Vdiff = self.diffuse(num_particles=len(X))", "Udiff, Vdiff = self.diffuse(num_particles=len(Y))", expect="silent"),
]
