"""C04 - release accounting: each scheduled row yields exactly mult particles on time.

Decided: inclusive / mirrored window filters, alignment of the parallel sequences times / steps / _B
(computed after the last filter, order-compatible under the tabulated pandas order semantics), cursor
discipline of update / __next__, multiplicity by repeat(mult), position pairing, the continuous-mode
pipeline (ticks, forward fill, explode) and that every pandas keyword used exists in the installed
pandas.  Not decided: pandas' run-time semantics of join / ffill / explode.
"""

from __future__ import annotations

import ast
import inspect

from ..paths import enumerate_paths
from ..program import AnalysisError, Program, unparse, short, walk_no_nested, increment_of, sequential_expand, call_chain, xunparse, single_defs, expand_locals
from ..report import Report


def filters(prog: Program, rep: Report) -> None:
    rule = "R04.1"
    fi = __import__("sa.program", fromlist=["release_init_view"]).release_init_view(prog)
    conds = [n for n in walk_no_nested(fi.node) if isinstance(n, ast.If) and "time_reversal" in unparse(n.test)]
    seen = {}
    for c in conds:
        neg = isinstance(c.test, ast.UnaryOp) and isinstance(c.test.op, ast.Not)
        fwd = c.body if neg else c.orelse
        for s in fwd:
            if isinstance(s, ast.Assign) and unparse(s.targets[0]) == "self._df":
                for x in ast.walk(s.value):
                    if isinstance(x, ast.Compare) and len(x.ops) == 1:
                        l, r = unparse(x.left), unparse(x.comparators[0])
                        op = type(x.ops[0]).__name__
                        if r.endswith("index"):
                            l, r = r, l
                            op = {"Lt": "Gt", "LtE": "GtE", "Gt": "Lt", "GtE": "LtE"}.get(op, op)
                        if l.endswith("index"):
                            seen[r.split(".")[-1]] = (op, s)
    st = seen.get("start_time")
    sp = seen.get("stop_time")
    rep.check(rule, fi.qual, "forward start filter keeps rows at the start time (index >= start)", st is not None and st[0] == "GtE", what_bad=f"start filter is {st[0] if st else None}: particles scheduled exactly at the start time are never released", what_ok=">=", loc=fi.loc(st[1]) if st else fi.loc())
    rep.check(rule, fi.qual, "forward stop filter drops rows after the stop time (index <= stop or < stop)", sp is not None and sp[0] in ("LtE", "Lt"), what_bad=f"stop filter is {sp[0] if sp else None}", what_ok=sp[0] if sp else "", loc=fi.loc(sp[1]) if sp else fi.loc())
    from . import c10

    sub = Report(pid="C04")
    c10.release_mirror(prog, sub)
    for o in sub.obligations:
        rep.add(rule, o.func, f"[mirror] {o.construct}", o.verdict == "ok" if o.verdict != "undecided" else None, o.what, o.loc)
    # order: stop filter, discretize (if continuous), start filter, warm filter
    order = []
    for s in fi.node.body:
        t = unparse(s)
        if isinstance(s, ast.If) and "time_reversal" in unparse(s.test) and "stop_time" in t:
            order.append("stop")
        elif isinstance(s, ast.If) and unparse(s.test) == "continuous" and "self.discretize()" in t:
            order.append("discretize")
        elif isinstance(s, ast.If) and "time_reversal" in unparse(s.test) and "start_time" in t:
            order.append("start")
        elif isinstance(s, ast.If) and unparse(s.test) == "warm_start_file" and "self.start_time" in t:
            order.append("warm")
        elif "self.clean_position" in t:
            order.append("position")
        elif isinstance(s, ast.If) and "'mult' not in self._df.columns" in unparse(s.test):
            order.append("mult-default")
    want = ["mult-default", "position", "stop", "discretize", "start", "warm"]
    rep.check(rule, fi.qual, f"pipeline order {order}", order == want, what_bad=f"expected {want}: the continuous release must be expanded before the start filter (so that the row set of the latest file time before the start carries over) and after the stop filter", what_ok="mult default, positions, stop filter, discretize, start filter, warm filter", loc=fi.loc())


def alignment(prog: Program, rep: Report) -> None:
    """R04.2 - also reported under C10 (R10.3): breaks exactly the reversed runs."""
    rule = "R04.2"
    from ..program import reading_view

    fi = reading_view(prog, prog.role_func("release", "__init__"))
    last_df = 0
    for n in walk_no_nested(fi.node):
        if isinstance(n, ast.Assign) and unparse(n.targets[0]) == "self._df":
            last_df = max(last_df, n.lineno)
    for n in walk_no_nested(fi.node):
        if isinstance(n, ast.Expr) and isinstance(n.value, ast.Call) and unparse(n.value.func) == "self.discretize":
            last_df = max(last_df, n.lineno)
    defs = {}
    for n in walk_no_nested(fi.node):
        if isinstance(n, ast.Assign) and unparse(n.targets[0]) in ("self.times", "self.steps", "self._B"):
            defs[unparse(n.targets[0])] = n
    for k in ("self.times", "self.steps", "self._B"):
        if k not in defs:
            raise AnalysisError(f"ParticleReleaser.__init__: assignment to {k} not found")
        rep.check(rule, fi.qual, f"{k} computed after the last filter of the table", defs[k].lineno > last_df, what_bad=f"{k} is computed at line {defs[k].lineno}, the table is filtered again at line {last_df}: the sequences index different row sets", what_ok="after the last filter", loc=fi.loc(defs[k]))
    tv = defs["self.times"].value
    sv = defs["self.steps"].value
    bv = defs["self._B"].value
    # steps: element-wise map of times
    ok = isinstance(sv, ast.ListComp) and len(sv.generators) == 1 and unparse(sv.generators[0].iter) == "self.times" and not sv.generators[0].ifs and isinstance(sv.elt, ast.Call) and unparse(sv.elt.func).endswith("time2step") and [unparse(a) for a in sv.elt.args] == [unparse(sv.generators[0].target)]
    rep.check(rule, fi.qual, "steps = [time2step(t) for t in times] (same order, same length)", ok, what_bad=f"steps = {short(sv)}", what_ok="element-wise", loc=fi.loc(defs["self.steps"]))
    # order classes
    def order_class(e: ast.expr):
        s = unparse(e)
        if s.endswith(".unique()") and "self._df.index" in s:
            return "appearance"
        if s.startswith("sorted(") or ".sort_values(" in s:
            return "ascending"
        for c in ast.walk(e):
            if isinstance(c, ast.Call) and isinstance(c.func, ast.Attribute) and c.func.attr == "groupby":
                sort = [k for k in c.keywords if k.arg == "sort"]
                key_ok = c.args and unparse(c.args[0]) in ("self._df.index", "level=0") or any(k.arg == "level" for k in c.keywords)
                if not key_ok:
                    return "unknown-key"
                if sort and isinstance(sort[0].value, ast.Constant) and sort[0].value.value is False:
                    return "appearance"
                return "ascending"
        return "unknown"
    ct, cb = order_class(tv), order_class(bv)
    rep.check(rule, fi.qual, f"order of times ({ct}) and of the per-time frames ({cb}) agree", ct == cb and ct in ("appearance", "ascending"), what_bad=f"times are in order of {ct} (`{short(tv)}`), the per-time frames in {cb} order (`{short(bv)}`): in a time-reversed run the table is in descending time, so release k releases the rows of another time", what_ok=f"both {ct}", loc=fi.loc(defs["self._B"]))
    def second_of_pair(c) -> bool:
        """[x[1] for x in pairs] or [frame for _, frame in pairs]"""
        if not (isinstance(c, ast.ListComp) and len(c.generators) == 1 and not c.generators[0].ifs):
            return False
        t = c.generators[0].target
        if isinstance(t, ast.Name):
            return unparse(c.elt) == f"{t.id}[1]"
        if isinstance(t, ast.Tuple) and len(t.elts) == 2 and isinstance(t.elts[1], ast.Name):
            return unparse(c.elt) == t.elts[1].id
        return False

    ok = second_of_pair(bv) or "get_group" in unparse(bv)
    rep.check(rule, fi.qual, "_B holds the group frames (second item of each groupby pair)", ok, what_bad=f"_B = {short(bv)}", what_ok="x[1]", loc=fi.loc(defs["self._B"]))
    idx = [n for n in walk_no_nested(fi.node) if isinstance(n, ast.Assign) and unparse(n.targets[0]) == "self._index"]
    rep.check(rule, fi.qual, "cursor starts at 0", len(idx) == 1 and unparse(idx[0].value) == "0", what_bad="cursor initialisation", what_ok="0", loc=fi.loc())


MEMBERSHIP_PRESERVING = ("set", "frozenset", "list", "tuple", "sorted")


def _is_step_collection(prog: Program, e: ast.expr):
    """`e` denotes the collection of release steps: self.steps, or an attribute assigned once in
    __init__, after self.steps, to set/frozenset/list/tuple/sorted(self.steps)."""
    if unparse(e) == "self.steps":
        return True, ""
    init = prog.role_func("release", "__init__")
    defs = [n for n in ast.walk(init.node) if isinstance(n, (ast.Assign, ast.AugAssign, ast.AnnAssign)) and unparse(n.targets[0] if isinstance(n, ast.Assign) else n.target) == unparse(e)]
    steps_def = [n for n in walk_no_nested(init.node) if isinstance(n, ast.Assign) and unparse(n.targets[0]) == "self.steps"]
    stores_elsewhere = [fi.qual for fi in prog.module("release").functions.values() if fi.qual != init.qual for n in ast.walk(fi.node) if isinstance(n, ast.Attribute) and isinstance(n.ctx, ast.Store) and unparse(n) == unparse(e)]
    if len(defs) == 1 and isinstance(defs[0], ast.Assign) and steps_def and not stores_elsewhere:
        v = defs[0].value
        if isinstance(v, ast.Call) and unparse(v.func) in MEMBERSHIP_PRESERVING and len(v.args) == 1 and not v.keywords and unparse(v.args[0]) == "self.steps" and defs[0].lineno > steps_def[-1].lineno:
            return True, ""
    return False, f"({unparse(e)} is not self.steps or a set/list copy of it made in __init__)"


def cursor(prog: Program, rep: Report) -> None:
    rule = "R04.3"
    from ..program import inline_helpers

    up = inline_helpers(prog, prog.role_func("release", "update"))

    def membership(test: ast.expr):
        """test is `timer.step in <release steps>` (or `not in`) -> True / False (sense), else None."""
        t = expand_locals(test, up.node)
        neg = False
        while isinstance(t, ast.UnaryOp) and isinstance(t.op, ast.Not):
            t, neg = t.operand, not neg
        if isinstance(t, ast.Compare) and len(t.ops) == 1 and isinstance(t.ops[0], (ast.In, ast.NotIn)) and unparse(t.left) == "self.modules['time'].step":
            okc, _ = _is_step_collection(prog, t.comparators[0])
            if okc:
                return isinstance(t.ops[0], ast.In) != neg
        return None

    # path-wise: a path releases (next + append) exactly when its branch conditions say "step is a release step"
    paths = enumerate_paths(up.node.body)
    problems = []
    n_rel = 0
    for p in paths:
        stmts = [s_[1] for s_ in p.steps if s_[0] == "stmt"]
        nexts = [c for st in stmts for c in ast.walk(st) if isinstance(c, ast.Call) and unparse(c.func) in ("next", "self.__next__")]
        apps = [c for st in stmts for c in ast.walk(st) if isinstance(c, ast.Call) and unparse(c.func).endswith(".append") and "state" in xunparse(c.func, up.node)]
        known = [(membership(t), taken) for t, taken in p.conds()]
        facts = {m == taken for m, taken in known if m is not None}  # {True}: is a release step, {False}: is not
        unknown = [xunparse(t, up.node) for (t, taken), (m, _) in zip(p.conds(), known) if m is None]
        releases = bool(nexts) or bool(apps)
        if releases:
            n_rel += 1
            if facts != {True}:
                problems.append(f"path {p.describe()} releases although its conditions do not establish `step in steps`")
            if unknown:
                problems.append(f"path {p.describe()} releases only under the further condition {unknown}")
            # next once, appended once, the appended rows are the result of next
            body = [st for st in stmts]
            recs, env = sequential_expand(body)
            okn = len(nexts) == 1 and len(apps) == 1 and xunparse(apps[0].func, up.node) == "self.modules['state'].append"
            if okn:
                star = [k.value for k in apps[0].keywords if k.arg is None]
                src = unparse(env.get(star[0].id)) if len(star) == 1 and isinstance(star[0], ast.Name) and star[0].id in env else (unparse(star[0]) if len(star) == 1 else "")
                okn = src in ("next(self)", "self.__next__()")
            if not okn:
                problems.append(f"path {p.describe()}: {len(nexts)} next call(s), appends {[short(a) for a in apps]}")
        else:
            if facts == {True} and p.exit != "raise":
                problems.append(f"path {p.describe()} is taken at a release step but releases nothing")
            if not facts and p.exit != "raise":
                problems.append(f"path {p.describe()} never tests whether the step is a release step")
    rep.check(rule, up.qual, "release iff the current step is a release step", not problems and n_rel >= 1, what_bad="; ".join(problems[:3]) or "no path of update releases", what_ok=f"{len(paths)} path(s), {n_rel} releasing", loc=up.loc())
    rep.check(rule, up.qual, "next(self) once, its rows appended to the state once", not [q for q in problems if "next call" in q] and n_rel >= 1, what_bad="; ".join(q for q in problems if "next call" in q), what_ok="rows = next(self); state.append(**rows)", loc=up.loc())
    nx = inline_helpers(prog, prog.role_func("release", "__next__"))
    paths = enumerate_paths(nx.node.body)
    for p in paths:
        incs = [s[1] for s in p.steps if s[0] == "stmt" and (increment_of(s[1]) or ("", 0))[0] == "self._index" or (s[0] == "stmt" and isinstance(s[1], (ast.Assign, ast.AugAssign)) and unparse(s[1].targets[0] if isinstance(s[1], ast.Assign) else s[1].target) == "self._index")]
        if p.exit == "return":
            okp = len(incs) == 1 and increment_of(incs[0]) == ("self._index", 1)
            rep.check(rule, nx.qual, f"cursor advanced exactly once on the returning path {p.describe()}", okp, what_bad=f"{len(incs)} increments: the same rows are released again / a release is skipped", what_ok="+1", loc=nx.loc())
        elif p.exit == "raise":
            rep.check(rule, nx.qual, f"exhausted table raises StopIteration without moving the cursor", not incs, what_bad="cursor moved on the error path", what_ok="ok", loc=nx.loc())
    rd = [n for n in walk_no_nested(nx.node) if isinstance(n, ast.Assign) and unparse(n.value) == "self._B[self._index]"]
    if not rd:
        rd = [n for n in walk_no_nested(nx.node) if isinstance(n, ast.Subscript) and unparse(n) == "self._B[self._index]"][:1]
    inc = [n for n in walk_no_nested(nx.node) if (increment_of(n) or ("", 0))[0] == "self._index"]
    rep.check(rule, nx.qual, "frame taken at the cursor before it is advanced", len(rd) == 1 and bool(inc) and rd[0].lineno < inc[0].lineno, what_bad="the frame of the next release time is returned", what_ok="self._B[self._index], then += 1", loc=nx.loc())
    from ..program import canon_compare_text

    guard = [n for n in walk_no_nested(nx.node) if isinstance(n, ast.If) and canon_compare_text(n.test) in ("len(self.times) <= self._index", "len(self._B) <= self._index")]
    rep.check(rule, nx.qual, "guard against running past the table", bool(guard), what_bad="no StopIteration guard", what_ok="guarded", loc=nx.loc())


def multiplicity(prog: Program, rep: Report) -> None:
    rule = "R04.4"
    from ..program import inline_helpers

    nx = inline_helpers(prog, prog.role_func("release", "__next__"))
    recs, env = sequential_expand(nx.node.body)
    rets = [(st, v) for st, v in recs if isinstance(st, ast.Return)]
    ok_chain = False
    detail = "no top-level return"
    frame_name = None
    functional_drop = False
    if len(rets) == 1:
        v = rets[0][1]
        detail = short(v, 160)
        # frame.drop(columns="mult") / frame.drop("mult", axis=1) applied to the repeated frame
        if isinstance(v, ast.Call) and isinstance(v.func, ast.Attribute) and v.func.attr == "drop" and "'mult'" in unparse(v) and not any(k.arg == "inplace" for k in v.keywords):
            functional_drop = True
            v = v.func.value
        # pd.DataFrame(<group>.to_records(index=False).repeat(<group>.mult))
        if isinstance(v, ast.Call) and unparse(v.func) in ("pd.DataFrame", "pandas.DataFrame", "DataFrame") and len(v.args) == 1:
            chain, root = call_chain(v.args[0])
            names = [c for c, _ in chain]
            if names == ["repeat", "to_records"] and unparse(root) == "self._B[self._index]":
                rp = chain[0][1]
                arg = unparse(rp.args[0]) if rp.args else ""
                kw = {k.arg: unparse(k.value) for k in chain[1][1].keywords}
                ok_chain = arg in ("self._B[self._index].mult", "self._B[self._index]['mult']") and kw.get("index") == "False"
        if isinstance(rets[0][0].value, ast.Name):
            frame_name = rets[0][0].value.id
    rep.check(rule, nx.qual, "rows repeated mult times: DataFrame(group.to_records(index=False).repeat(group.mult)) on every path", ok_chain, what_bad=f"returned frame is `{detail}`: each row of the group at the cursor must appear exactly `mult` times, in file-row order, on every path", what_ok="repeat(mult) of the same group", loc=nx.loc())
    # the mult column is dropped from the returned frame after the repetition
    drops = [st for st, v in recs if isinstance(st, ast.Expr) and isinstance(st.value, ast.Call) and isinstance(st.value.func, ast.Attribute) and st.value.func.attr == "drop" and "'mult'" in unparse(st.value)]
    ok_drop = False
    # names bound to the same frame object (V = repeated)
    same = {frame_name} if frame_name else set()
    grew = True
    while grew:
        grew = False
        for n_ in walk_no_nested(nx.node):
            if isinstance(n_, ast.Assign) and len(n_.targets) == 1 and isinstance(n_.targets[0], ast.Name) and isinstance(n_.value, ast.Name):
                a_, b_ = n_.targets[0].id, n_.value.id
                if (a_ in same) != (b_ in same):
                    same |= {a_, b_}
                    grew = True
    for d in drops:
        recv = unparse(d.value.func.value)
        inplace = any(k.arg == "inplace" and unparse(k.value) == "True" for k in d.value.keywords)
        after = any(st is d for st, _ in recs) and all(st.lineno < d.lineno for st, v in recs if isinstance(st, ast.Assign) and isinstance(st.targets[0], ast.Name) and st.targets[0].id == recv and v is not None and "repeat" in unparse(v))
        ok_drop = ok_drop or (recv in same and inplace and after)
    if not ok_drop and len(rets) == 1:
        # functional form: frame = frame.drop(columns="mult") folded into the returned expression
        orig = rets[0][0].value
        ok_drop = False
    rep.check(rule, nx.qual, "mult column dropped from the returned frame after the repetition", ok_drop or functional_drop or _drop_functional(nx), what_bad="mult is appended to the state / dropped before use", what_ok="dropped last", loc=nx.loc())
    rep.check(rule, nx.qual, "returns the repeated frame", len(rets) == 1, what_bad=f"{len(rets)} top-level returns", what_ok="one return", loc=nx.loc())
    init = __import__("sa.program", fromlist=["release_init_view"]).release_init_view(prog)
    d = [n for n in walk_no_nested(init.node) if isinstance(n, ast.If) and "'mult' not in self._df.columns" in unparse(n.test)]
    ok = len(d) == 1 and any(unparse(x) == "self._df['mult'] = 1" for x in d[0].body)
    rep.check(rule, init.qual, "missing mult column defaults to 1", ok, what_bad="rows without mult release no / undefined numbers of particles", what_ok="mult = 1", loc=init.loc())
    rr = prog.func("release.ParticleReleaser.read_release_file")
    # the keyword arguments that reach pd.read_csv, however the dictionaries are put together: the
    # function is evaluated on symbolic arguments and the call is intercepted
    from ..confeval import Opaque, Scenario, run_function, text_of

    seen_dtypes = []

    def hook(e, env, ev):
        if unparse(e.func).endswith("read_csv"):
            kws = {}
            for k in e.keywords:
                v = ev.ev(k.value, env)
                if k.arg is None:
                    if isinstance(v, dict):
                        kws.update(v)
                else:
                    kws[k.arg] = v
            seen_dtypes.append(kws.get("dtype"))
            return Opaque((), "frame")
        return NotImplemented

    outs = run_function(prog, "release", "ParticleReleaser.read_release_file", lambda: dict(rls_file=Opaque((), "rls_file"), names=Opaque((), "names"), datatypes=Opaque((), "datatypes")), Scenario(), call_hook=hook)
    unsupported = [o["detail"] for o in outs if o["status"] == "unsupported"]
    if unsupported or not seen_dtypes:
        rep.add(rule, rr.qual, "mult is read as an integer", None, f"the keyword arguments of read_csv could not be evaluated ({unsupported[:1]})", rr.loc())
    else:
        ok = all(isinstance(d, dict) and text_of(d.get("mult")) == "int" for d in seen_dtypes)
        rep.check(rule, rr.qual, "mult is read as an integer", ok, what_bad=f"repeat() needs integer counts; read_csv gets dtype {[text_of(d.get('mult')) if isinstance(d, dict) else text_of(d) for d in seen_dtypes]} for mult", what_ok="int", loc=rr.loc())
    tot = [n for n in walk_no_nested(init.node) if isinstance(n, ast.Assign) and unparse(n.targets[0]) == "self.total_particle_count"]
    ok_tot = False
    tot_txt = unparse(tot[0].value) if tot else ""
    if tot and isinstance(tot[0].value, ast.BinOp) and isinstance(tot[0].value.op, ast.Add):
        sides = [tot[0].value.left, tot[0].value.right]
        texts = [xunparse(x, init.node).replace("self._df['mult']", "self._df.mult") for x in sides]
        raw = [unparse(x) for x in sides]
        for k in (0, 1):
            if texts[k] == "self._df.mult.sum()" and ("warm" in raw[1 - k] or raw[1 - k] == "self._particle_count"):
                ok_tot = True
    rep.check(rule, init.qual, "total particle count = sum(mult) + warm particles", ok_tot, what_bad=f"{unparse(tot[0].value) if tot else None}", what_ok="sum of mult", loc=init.loc())


def _drop_functional(nx) -> bool:
    for n in walk_no_nested(nx.node):
        if isinstance(n, ast.Assign) and isinstance(n.value, ast.Call) and isinstance(n.value.func, ast.Attribute) and n.value.func.attr == "drop" and "'mult'" in unparse(n.value) and unparse(n.targets[0]) == unparse(n.value.func.value):
            return True
    return False


def positions(prog: Program, rep: Report) -> None:
    from . import c16

    sub = Report(pid="C04")
    c16.frames(prog, sub)
    n = 0
    for o in sub.obligations:
        if o.func.startswith("release."):
            rep.add("R04.5", o.func, o.construct, o.verdict == "ok" if o.verdict != "undecided" else None, o.what, o.loc)
            n += 1
    if n < 3:
        raise AnalysisError("release position obligations not found")


def continuous(prog: Program, rep: Report) -> None:
    rule = "R04.6"
    dz = prog.role_func("release", "discretize")
    # flatten the time_reversal conditional (freq) away: expand top-level statements sequentially
    recs, env = sequential_expand(dz.node.body)
    st = [(s_, v) for s_, v in recs if isinstance(s_, ast.Assign) and unparse(s_.targets[0]) == "self._df"]
    if len(st) != 1:
        rep.bad(rule, dz.qual, "self._df = <expanded table>", f"{len(st)} top-level assignments to self._df in discretize", dz.loc())
        return
    final = st[0][1]
    chain, root = call_chain(final)
    names = [c for c, _ in chain]
    # root: DataFrame of the ticks
    ticks = None
    joins0 = [c for n_, c in chain if n_ == "join"]
    tick_scope = joins0[0].func.value if joins0 else final  # the receiver of join is the tick frame
    for n in ast.walk(tick_scope):
        if isinstance(n, ast.Call) and unparse(n.func) == "np.arange":
            ticks = n
    okt = ticks is not None and len(ticks.args) == 3 and unparse(ticks.args[0]) in ("df.index.unique()[0]", "self._df.index.unique()[0]", "df.index[0]", "self._df.index[0]") and unparse(ticks.args[1]) == "self.stop_time" and "freq" in unparse(ticks.args[2])
    rep.check(rule, dz.qual, "ticks = arange(first file time, stop, signed frequency): anchored at the first file time, stop exclusive", okt, what_bad=f"ticks = {unparse(ticks) if ticks is not None else None}", what_ok="arange(file_times[0], stop_time, freq)", loc=dz.loc())
    joins = [c for n_, c in chain if n_ == "join"]
    okb = False
    if joins:
        j = joins[0]
        arg = unparse(j.args[0]) if j.args else ""
        okb = arg.startswith(("df.groupby(df.index).agg(", "self._df.groupby(self._df.index).agg(")) and "tolist" in arg and any(k.arg == "on" for k in j.keywords)
    rep.check(rule, dz.qual, "row sets per file time are collected as lists (unexplode) and joined on the tick axis", okb, what_bad=f"join argument {short(joins[0], 100) if joins else None}", what_ok="ticks.join(groupby(index).agg(list), on=...)", loc=dz.loc())
    fills = [(n_, c) for n_, c in chain if n_ in ("ffill", "bfill", "fillna", "pad", "backfill", "interpolate")]
    fill = None
    if fills:
        n_, c = fills[0]
        fill = n_
        if n_ == "fillna":
            kw = {k.arg: unparse(k.value) for k in c.keywords}
            fill = "ffill" if kw.get("method") in ("'ffill'", "'pad'") else f"fillna({kw})"
        if n_ == "pad":
            fill = "ffill"
    order_ok = "join" in names and fills and names.index(fills[0][0]) < names.index("join") and "set_index" in names
    rep.check(rule, dz.qual, "ticks joined with the file row sets and filled *forward* in tick order", bool(order_ok) and fill == "ffill", what_bad=f"fill is {fill}; call chain (outermost first) {names}: each tick must release the row set of the latest file time at or before it (in simulation order)", what_ok="join -> ffill -> set_index", loc=dz.loc())
    rep.check(rule, dz.qual, "row lists exploded back to one row per particle row", "explode" in names and names.index("explode") < names.index("join") if "join" in names else False, what_bad="no explode after the fill: each tick would release one row holding lists", what_ok="explode", loc=dz.loc())
    dt = [n for n in walk_no_nested(dz.node) if isinstance(n, ast.For) and "astype" in unparse(n)]
    rep.check(rule, dz.qual, "column dtypes restored after explode", bool(dt), what_bad="mult stays an object column: repeat() fails or miscounts", what_ok="astype per column", loc=dz.loc())
    init = __import__("sa.program", fromlist=["release_init_view"]).release_init_view(prog)
    c = [n for n in walk_no_nested(init.node) if isinstance(n, ast.If) and unparse(n.test) == "continuous"]
    ok = any(any(unparse(x) == "self.release_frequency = normalize_period(release_frequency)" for x in g.body) and any("self.discretize()" in unparse(x) for x in g.body) for g in c)
    rep.check(rule, init.qual, "continuous: frequency normalised, then discretize()", ok, what_bad="continuous mode set-up changed", what_ok="ok", loc=init.loc())


def api_conformance(prog: Program, rep: Report) -> None:
    """R04.7: every keyword passed to a pandas callable exists in the installed pandas."""
    rule = "R04.7"
    try:
        import pandas as pd  # library introspection only (DESIGN G1): no repository code is executed
    except Exception as e:  # pragma: no cover
        rep.add(rule, "-", "pandas import", None, f"pandas not importable in the checking interpreter: {e}", "")
        return
    mi = prog.module("release")
    classes = [pd.DataFrame, pd.Series, pd.Index, pd.DatetimeIndex, pd.core.groupby.DataFrameGroupBy]
    n = 0
    for fi in mi.functions.values():
        # kwargs dict for read_csv
        kw_dicts = {}
        for node in walk_no_nested(fi.node):
            tgt0 = node.targets[0] if isinstance(node, ast.Assign) else (node.target if isinstance(node, ast.AnnAssign) else None)
            val0 = node.value if isinstance(node, (ast.Assign, ast.AnnAssign)) else None
            if isinstance(tgt0, ast.Name) and isinstance(val0, ast.Call) and unparse(val0.func) == "dict":
                kw_dicts[tgt0.id] = [(k.arg, node) for k in val0.keywords if k.arg]
            if isinstance(tgt0, ast.Name) and isinstance(val0, ast.Dict) and all(isinstance(k, ast.Constant) and isinstance(k.value, str) for k in val0.keys):
                kw_dicts[tgt0.id] = [(k.value, node) for k in val0.keys]
            if isinstance(node, ast.Assign) and isinstance(node.targets[0], ast.Subscript) and isinstance(node.targets[0].value, ast.Name) and node.targets[0].value.id in kw_dicts and isinstance(node.targets[0].slice, ast.Constant):
                kw_dicts[node.targets[0].value.id].append((node.targets[0].slice.value, node))
        for node in walk_no_nested(fi.node):
            if not isinstance(node, ast.Call):
                continue
            fn = unparse(node.func)
            target = None
            if fn.startswith("pd.") and hasattr(pd, fn[3:]) and callable(getattr(pd, fn[3:])):
                target = getattr(pd, fn[3:])
                label = fn
            elif isinstance(node.func, ast.Attribute):
                m = node.func.attr
                recv = unparse(node.func.value)
                if recv.split(".")[0] in ("logger", "logging", "np", "self", "grid", "f", "timer") and not recv.startswith(("self._df", "self._B")):
                    continue
                for c in classes:
                    if hasattr(c, m) and callable(getattr(c, m)) and not m.startswith("_"):
                        target = getattr(c, m)
                        label = f"{c.__name__}.{m}"
                        break
            if target is None:
                continue
            kws = [(k.arg, node) for k in node.keywords if k.arg]
            for k in node.keywords:
                if k.arg is None and isinstance(k.value, ast.Name) and k.value.id in kw_dicts:
                    kws.extend(kw_dicts[k.value.id])
            if not kws:
                continue
            try:
                sig = inspect.signature(target)
            except (TypeError, ValueError):
                continue
            params = sig.parameters
            if any(p.kind == p.VAR_KEYWORD for p in params.values()) and fn != "pd.read_csv":
                continue
            for k, where in kws:
                n += 1
                rep.check(rule, fi.qual, f"{label}({k}=...)", k in params, what_bad=f"keyword {k!r} does not exist in the installed pandas {pd.__version__} ({label}): the call raises TypeError, no release table can be built and no row yields any particle", what_ok=f"accepted by pandas {pd.__version__}", loc=fi.loc(where))
    if n < 8:
        raise AnalysisError(f"only {n} pandas keyword uses found in release.py")
    rr = prog.func("release.ParticleReleaser.read_release_file")
    src = unparse(rr.node)
    rep.check(rule, rr.qual, "ISO date parsing requested for every pandas >= 2", "date_format" in src and (">= 2" in src or "> 1" in src), what_bad="mixed ISO time spellings are not parsed under the installed pandas: the index stays text and every comparison with the window raises", what_ok="date_format='ISO8601' for pandas >= 2", loc=rr.loc())


def run(prog: Program, rep: Report, tier: str) -> None:
    rep.level = "other"
    rep.explanation = (
        "Structural rules on the release pipeline: window filters (inclusive, mirrored), alignment of the parallel sequences "
        "times/steps/_B under a table of pandas order semantics, cursor discipline by path enumeration of __next__, repeat-by-mult "
        "chain, position pairing, the continuous-mode pipeline, and keyword conformance against inspect.signature of the installed "
        "pandas (library introspection; no repository code runs). Decides these necessary clauses, not pandas' run-time semantics."
    )
    rep.assumptions = [
        "pandas order semantics (DESIGN A.4): Index.unique() and groupby(sort=False) keep order of appearance; groupby default sorts ascending; repeat/to_records/DataFrame keep row order; ffill fills forward",
        "release tables are sorted in simulation order (the property's quantifier)",
    ]
    rep.trusted_base = ["CPython ast", "inspect.signature of the installed pandas", "sa/paths.py"]
    rep.rule("R04.1", "window filters: start inclusive, arms mirrored, pipeline order", 8)
    rep.rule("R04.2", "times / steps / _B aligned: after the last filter, element-wise, order-compatible", 7)
    rep.rule("R04.3", "cursor: release iff step in steps; next once; cursor advanced exactly once per returning path", 5)
    rep.rule("R04.4", "multiplicity: repeat(mult) of the group, mult dropped afterwards, default 1, integer", 5)
    rep.rule("R04.5", "position pairing (shared with C16 R16.1)", 3)
    rep.rule("R04.6", "continuous mode: ticks anchored at the first file time, forward fill, explode", 6)
    rep.rule("R04.7", "every pandas keyword used exists in the installed pandas", 9)
    rep.rule("R04.8", "released values reach the state: in State.append the caller's value wins over the configured default, NaN only when neither exists (shared with C05 R05.2)", 4)
    from . import c05

    c05.value_precedence(prog, rep, "R04.8")
    filters(prog, rep)
    alignment(prog, rep)
    cursor(prog, rep)
    multiplicity(prog, rep)
    positions(prog, rep)
    continuous(prog, rep)
    api_conformance(prog, rep)
    from ..share import share

    share(prog, rep, "C18", ("R18.6",), "R04.9", "a version-1 configuration reaches the releaser with the same keys as its version-2 spelling", 2, only=lambda o: "release" in o.construct.lower() or "particle_release" in o.construct)



from ..selftest import Mut  # noqa: E402

RL = "ladim/release.py"
AUDIT = [
    Mut("start-strict", RL, "            self._df = self._df[self._df.index >= self.start_time]", "            self._df = self._df[self._df.index > self.start_time]", rule="R04.1"),
    Mut("discretize-after-start", RL, "        # Now discrete, remove everything before start\n        if timer.time_reversal:\n            self._df = self._df[self._df.index <= self.start_time]\n        else:\n            self._df = self._df[self._df.index >= self.start_time]\n", "", rule="R04.1"),
    Mut("groupby-sorted", RL, "self._df.groupby(self._df.index, sort=False)", "self._df.groupby(self._df.index)", rule="R04.2"),
    Mut("times-sorted", RL, "        self.times = self._df.index.unique()", "        self.times = sorted(self._df.index.unique())", rule="R04.2"),
    Mut("steps-filtered", RL, "        self.steps = [timer.time2step(t) for t in self.times]", "        self.steps = [timer.time2step(t) for t in self.times if t != self.stop_time]", rule="R04.2"),
    Mut("times-before-filter", RL, "        # Add a release_time column if requested by the datatypes", "        self._df = self._df[self._df.mult > 0]\n        # Add a release_time column if requested by the datatypes", expect="silent"),
    Mut("filter-after-times", RL, "        # Make dataframes for each timeframe", "        self._df = self._df[self._df.mult > 0]\n        # Make dataframes for each timeframe", rule="R04.2"),
    Mut("no-cursor-advance", RL, "        self._index += 1\n", "", rule="R04.3"),
    Mut("cursor-twice", RL, "        self._index += 1\n", "        self._index += 1\n        self._index += 1\n", rule="R04.3"),
    Mut("release-next-step", RL, "        if step in self.steps:\n            V = next(self)", "        if step + 1 in self.steps:\n            V = next(self)", rule="R04.3"),
    Mut("no-repeat", RL, "        V0 = V0.repeat(V.mult)\n", "", rule="R04.4"),
    Mut("repeat-wrong-column", RL, "        V0 = V0.repeat(V.mult)\n", "        V0 = V0.repeat(len(V))\n", rule="R04.4"),
    Mut("mult-kept", RL, '        V.drop("mult", axis=1, inplace=True)\n', "", rule="R04.4"),
    Mut("mult-default-zero", RL, '            self._df["mult"] = 1', '            self._df["mult"] = 0', rule="R04.4"),
    Mut("bfill", RL, 'S = T.join(B, on="times").ffill().set_index("times")', 'S = T.join(B, on="times").bfill().set_index("times")', rule="R04.6"),
    Mut("ticks-from-start", RL, "times = np.arange(file_times[0], self.stop_time, np.timedelta64(freq, \"s\"))", "times = np.arange(self.start_time, self.stop_time, np.timedelta64(freq, \"s\"))", rule="R04.6"),
    Mut("no-explode", RL, "        S = S.explode(column=S.columns.tolist())\n", "", rule="R04.6"),
    Mut("removed-keyword", RL, '            sep=r"\\s+",', "            delim_whitespace=True,", rule="R04.7"),
    Mut("removed-fillna-method", RL, 'S = T.join(B, on="times").ffill().set_index("times")', 'S = T.join(B, on="times").fillna(method="ffill").set_index("times")', rule="R04.7"),
    Mut("date-format-pandas2-only", RL, '        if int(pd.__version__.split(".")[0]) >= 2:', '        if pd.__version__[0] == "2":', rule="R04.7"),
    Mut("latlon-swapped", RL, '                X, Y = grid.ll2xy(df["lon"], df["lat"])  # type: ignore', '                Y, X = grid.ll2xy(df["lon"], df["lat"])  # type: ignore', rule="R04.5"),
    Mut("benign-groupby-level", RL, "self._df.groupby(self._df.index, sort=False)", "self._df.groupby(level=0, sort=False)", expect="silent"),
    Mut("benign-cursor-form", RL, "        self._index += 1\n", "        self._index = self._index + 1\n", expect="silent"),
]
