"""C02 - particles feel the interpolated C-grid forcing at their own position.

Decided: index-frame consistency of every sampling site (stagger, subgrid offset, axis order),
the interpolation weights of trilinear as polynomial identities (partition of unity, linear
precision, tensor-product weights), the level-weight identity of z2s_kernel per branch, land
masking of the velocity reads and the packing formula.  Not decided: agreement with ROMS
conventions on real files.
"""

from __future__ import annotations

import ast

from ..interp import Interp, Phi, Ref, Tup, vtext
from ..nf import NF
from ..nfdomain import NFDomain
from ..program import AnalysisError, Program, unparse, short, walk_no_nested, bind_args
from ..report import Report
from .. import roms
from ..weights import Axis, check_multilinear

# stagger of an array read with the given (yslice, xslice): physical coordinate of file index n
# along an axis is n + stagger (ROMS C-grid: u-points sit half a cell east of the rho-point with
# the same xi index, v-points half a cell north)
STAGGER = {"u": (NF.const(0), NF.const("1/2") if False else NF.const(0.5)), "v": (NF.const(0.5), NF.const(0)), "<scalar>": (NF.const(0), NF.const(0))}


def trilinear_weights(prog: Program, rep: Report, rule: str) -> None:
    fi = prog.func("ROMS.trilinear")
    dom = NFDomain(scalars={"A", "X", "Y", "K"})
    it = Interp(prog, dom, depth=1)
    res, fr = it.run(fi, dict(F=NF.atom("F"), X=NF.atom("X"), Y=NF.atom("Y"), K=NF.atom("K"), A=NF.atom("A")))
    if not isinstance(res, NF):
        rep.bad(rule, fi.qual, "return value", f"not a normal form: {res!r}", fi.loc())
        return
    ix, iy = NF.atom("int(X)"), NF.atom("int(Y)")
    axes = [
        Axis("k (level)", 0, NF.atom("K"), NF.atom("A"), 0, -1),
        Axis("y", 1, iy, NF.atom("Y") - iy, 0, 1),
        Axis("x", 2, ix, NF.atom("X") - ix, 0, 1),
    ]
    for name, ok, detail in check_multilinear(res, dom, "F", axes):
        rep.check(rule, fi.qual, f"trilinear: {name}", ok, what_bad=detail, what_ok=detail if len(detail) < 80 else "", loc=fi.loc())


def z2s_analysis(prog: Program, rep: Report, rule: str) -> None:
    """Per k-region (below the lowest level / interior / above the highest level) the branch of
    z2s_kernel taken yields (K, A) with A*zr[K-1] + (1-A)*zr[K] = clamp(-Z)."""
    fi = prog.func("ROMS.z2s_kernel")
    dom = NFDomain(scalars={"Z", "k"})

    def hook(node, fr, it):
        if unparse(node.func) == "np.searchsorted":
            a0 = it.eval(node.args[0], fr)
            a1 = it.num(it.eval(node.args[1], fr))
            side = [k for k in node.keywords if k.arg == "side"]
            fr.env["__searched__"] = (a0, a1, unparse(side[0].value) if side else "'left'")
            return NF.atom("k")
        return NotImplemented

    it = Interp(prog, dom, depth=1, call_hook=hook)
    res, fr = it.run(fi, dict(I=NF.atom("I"), J=NF.atom("J"), Z=NF.atom("Z"), z_rho=NF.atom("z_rho")))
    srch = fr.env.get("__searched__")
    if srch is None:
        raise AnalysisError("z2s_kernel: np.searchsorted call not found")
    zr, target, side = srch
    rep.check(rule, fi.qual, "searchsorted target", isinstance(target, NF) and target == -NF.atom("Z") and side == "'left'", what_bad=f"level lookup must bisect the level depths for -Z (depth is positive downwards), got {vtext(target)} side={side}", what_ok="k = searchsorted(zr, -Z)", loc=fi.loc())
    def own_column(v):
        v = it.num(v)
        if not isinstance(v, NF):
            return False, vtext(v)
        info = dom.elem_info.get(v.canon())
        return info is not None and len(info[1]) == 3 and isinstance(info[1][0], tuple) and isinstance(info[1][1], NF) and info[1][1] == NF.atom("J") and info[1][2] == NF.atom("I"), v.canon()

    arms = roms.flatten_phi(zr)
    if len(arms) > 1:
        # the column searched depends on a run-time branch (e.g. a column cached across particles)
        wrong = [(conds, own_column(leaf)[1]) for conds, leaf in arms if not own_column(leaf)[0]]
        rep.check(rule, fi.qual, "column lookup z_rho[:, J, I]", not wrong, what_bad=f"on the branch {[(t, k) for t, k in wrong[0][0]] if wrong else ''} the level depths searched are {wrong[0][1] if wrong else ''}, not the column of the particle's own cell", what_ok="own column on every branch", loc=fi.loc())
        if wrong:
            return
        zr = arms[0][1]
    zr_nf = it.num(zr)
    col_atom = zr_nf.canon()
    ok_col = own_column(zr_nf)[0]
    rep.check(rule, fi.qual, "column lookup z_rho[:, J, I]", ok_col, what_bad=f"the level depths must be the column of the particle's own cell (y index second, x index last), got {col_atom}", what_ok=col_atom, loc=fi.loc())
    if not (isinstance(res, Tup) and len(res.items) == 2):
        rep.bad(rule, fi.qual, "return value", f"expected (K, A), got {res!r}", fi.loc())
        return
    Kv, Av = res.items
    size = NF.atom(f"len({col_atom})")
    k = NF.atom("k")

    def zr_at(idx: NF) -> NF:
        return NF.atom(f"{col_atom}[{idx.canon()}]")

    def cond_holds(test: str, region: str):
        """Truth of a branch test in a k-region; None if not understood."""
        try:
            node = ast.parse(test, mode="eval").body
        except SyntaxError:
            return None
        from ..words import cmp_norm

        n = cmp_norm(node)
        if n is None:
            return None
        l, op, r = n
        if l != "k":
            if r == "k":
                flip = {"<": ">", "<=": ">=", ">": "<", ">=": "<=", "==": "==", "!=": "!="}
                l, op, r = r, flip[op], l
            else:
                return None
        # integer ranks on the line 0 < 1 < 2 < (mid) < size-2 < size-1 < size
        sizes = ("zr.size", "len(zr)", "zr.shape[0]", "z_rho.shape[0]")
        rank_k = {"zero": 0, "one": 1, "mid": 3, "last": 5, "top": 6}[region]
        if r in ("0", "1", "2"):
            rank_c = int(r)
        elif r in sizes:
            rank_c = 6
        elif any(r == f"{s} - 1" for s in sizes):
            rank_c = 5
        elif any(r == f"{s} - 2" for s in sizes):
            rank_c = 4
        else:
            return None
        sign = (rank_k > rank_c) - (rank_k < rank_c)
        return {"<": sign < 0, "<=": sign <= 0, ">": sign > 0, ">=": sign >= 0, "==": sign == 0, "!=": sign != 0}[op]

    armsK = roms.flatten_phi(Kv)
    armsA = roms.flatten_phi(Av)
    for region, desc in (
        ("zero", "particle below the lowest level (k = 0)"),
        ("one", "particle between the two lowest levels (k = 1)"),
        ("mid", "particle between two interior levels (1 < k < size-1)"),
        ("last", "particle between the two highest levels (k = size-1)"),
        ("top", "particle above the highest level (k = size)"),
    ):
        def pick(arms):
            hits = []
            for conds, leaf in arms:
                truth = [cond_holds(t, region) for t, taken in conds]
                if any(x is None for x in truth):
                    return None
                if all(x == taken for x, (t, taken) in zip(truth, conds)):
                    hits.append(leaf)
            return hits
        hk, ha = pick(armsK), pick(armsA)
        if hk is None or ha is None:
            rep.add(rule, fi.qual, f"level lookup, {desc}", None, "branch tests not understood (supported: comparisons of k with 0, 1, 2, size-2, size-1, size)", fi.loc())
            continue
        if len(hk) != 1 or len(ha) != 1:
            rep.bad(rule, fi.qual, f"level lookup, {desc}", f"{len(hk)} branch(es) assign K and {len(ha)} assign A in this region", fi.loc())
            continue
        K, A = it.num(hk[0]), it.num(ha[0])
        if region == "zero":
            K0 = K.subst({"k": NF.const(0)})
            A0 = A.subst({"k": NF.const(0)}) if A.is_poly() or "k" not in {a for m in A.den for a, _ in m} else A
            ok = K0 == NF.const(1) and A0 == NF.const(1)
            rep.check(rule, fi.qual, f"level lookup, {desc}", ok, what_bad=f"(K, A) = ({K0}, {A0}); must be (1, 1): value held at the lowest level", what_ok="(K, A) = (1, 1): lowest level, weight 1", loc=fi.loc())
        elif region == "top":
            Kt = K.subst({"k": size})
            At = A.subst({"k": size}) if "k" not in {a for m in A.den for a, _ in m} else A
            ok = Kt == size - 1 and isinstance(At, NF) and At == NF.const(0)
            rep.check(rule, fi.qual, f"level lookup, {desc}", ok, what_bad=f"(K, A) = ({Kt}, {At}); must be (size-1, 0): value held at the highest level", what_ok="(K, A) = (size-1, 0): highest level, weight 1 on it", loc=fi.loc())
        else:
            # elements zr[k], zr[k-1] appear as atoms col[k], col[-1 + k]
            lhs = A * zr_at(K - 1) + (1 - A) * zr_at(K)
            # rewrite element atoms inside A to the same naming
            ok = lhs == -NF.atom("Z") and K == k
            rep.check(rule, fi.qual, f"level lookup, {desc}", ok, what_bad=f"A*zr[K-1] + (1-A)*zr[K] = {lhs} with K = {K}; must equal -Z (linear in depth between the bracketing levels)", what_ok="A*zr[K-1] + (1-A)*zr[K] = -Z, K = k", loc=fi.loc())


def frames(prog: Program, rep: Report, rule: str) -> None:
    ga = roms.grid_attrs(prog)
    layouts = {r.field: r for r in roms.read_layouts(prog)}
    for f in ("u", "v", "<scalar>"):
        if f not in layouts:
            raise AnalysisError(f"no `_nc.variables[...][frame, :, J, I]` read found for {f}")
    origin = {}
    for f, r in layouts.items():
        ys, xs = ga.get(r.yslice or ""), ga.get(r.xslice or "")
        ok = isinstance(ys, Tup) and isinstance(xs, Tup) and len(r.axes) == 4 and r.axes[1] == ":"
        rep.check(rule, r.func, f"read layout of {f}: [{', '.join(r.axes)}]", ok, what_bad="expected [frame, :, <grid y-slice>, <grid x-slice>] with slices defined in Grid.__init__", what_ok=f"y-slice {r.yslice}, x-slice {r.xslice}", loc=f"ladim/ROMS.py:{r.node.lineno}")
        if ok:
            sy, sx = STAGGER[f]
            origin[f] = (xs.items[0] + sx, ys.items[0] + sy)
            # x-slices are cut from x-limits and y-slices from y-limits
            xat = xs.items[0].atoms() | xs.items[1].atoms()
            yat = ys.items[0].atoms() | ys.items[1].atoms()
            rep.check(rule, "ROMS.Grid.__init__", f"axes of {r.yslice}/{r.xslice}", xat <= {"grid.i0", "grid.i1"} and yat <= {"grid.j0", "grid.j1"}, what_bad=f"x-slice uses {sorted(xat)}, y-slice uses {sorted(yat)}", what_ok="x from i-limits, y from j-limits", loc="ladim/ROMS.py")
            # extents: rho (imax), u (imax+1 along x), v (jmax+1 along y)
            lenx = xs.items[1] - xs.items[0]
            leny = ys.items[1] - ys.items[0]
            imax = NF.atom("grid.i1") - NF.atom("grid.i0")
            jmax = NF.atom("grid.j1") - NF.atom("grid.j0")
            wantx = imax + (1 if f == "u" else 0)
            wanty = jmax + (1 if f == "v" else 0)
            rep.check(rule, "ROMS.Grid.__init__", f"extent of the {f} block", lenx == wantx and leny == wanty, what_bad=f"block is {leny} x {lenx}; a C-grid block covering the subgrid needs {wanty} x {wantx}", what_ok=f"{leny} x {lenx}", loc="ladim/ROMS.py")
    X, Y = NF.atom("X"), NF.atom("Y")
    # velocity()
    res, samples, it, dom = roms.velocity_samples(prog, frac=NF.atom("fractional_step"))
    seen = set()
    for s in samples:
        fn = vtext(s.field_nf)
        fields = {a for a in roms.atoms_of(s.field_nf) if a.startswith("forcing.fields[")}
        comp = {"u" if ("'u'" in a or "'dU'" in a or "u_new" in a) else "v" if ("'v'" in a or "'dV'" in a or "v_new" in a) else "?" for a in fields}
        if len(comp) != 1 or "?" in comp:
            rep.bad(rule, "ROMS.Forcing.velocity", f"sampled array {fn}", "a sample mixes u- and v-fields or uses an unknown field", f"ladim/ROMS.py:{s.node.lineno}")
            continue
        c = comp.pop()
        if c not in origin:
            continue
        ox, oy = origin[c]
        key = (c, s.x.canon(), s.y.canon())
        if key in seen:
            continue
        seen.add(key)
        rep.check(rule, "ROMS.Forcing.velocity", f"{c}-field sampled at x-index {s.x}", s.x == X - ox, what_bad=f"array index 0 lies at x = {ox}; the particle's own position needs index X - ({ox}), chain {s.chain}", what_ok=f"= X - ({ox})", loc=f"ladim/ROMS.py:{s.node.lineno}")
        rep.check(rule, "ROMS.Forcing.velocity", f"{c}-field sampled at y-index {s.y}", s.y == Y - oy, what_bad=f"array index 0 lies at y = {oy}; the particle's own position needs index Y - ({oy}), chain {s.chain}", what_ok=f"= Y - ({oy})", loc=f"ladim/ROMS.py:{s.node.lineno}")
        rep.check(rule, "ROMS.Forcing.velocity", f"{c}-field level pair", vtext(s.k) == "forcing.K" and vtext(s.a) == "forcing.A", what_bad=f"level index/weight must be the ones computed by Forcing.update for these particles, got {vtext(s.k)}, {vtext(s.a)}", what_ok="(self.K, self.A)", loc=f"ladim/ROMS.py:{s.node.lineno}")
    rep.check(rule, "ROMS.Forcing.velocity", "both components sampled", {k[0] for k in seen} == {"u", "v"}, what_bad=f"components sampled: {sorted({k[0] for k in seen})}", what_ok="u and v", loc="ladim/ROMS.py")
    # returned pair order (U first)
    if isinstance(res, Tup) and len(res.items) == 2:
        def comp_of(v):
            atoms = set()
            atoms |= roms.atoms_of(v)
            out = set()
            for s in samples:
                if s.result_atom in atoms:
                    out |= {"u" if ("'u'" in a or "'dU'" in a) else "v" for a in roms.atoms_of(s.field_nf) if a.startswith("forcing.fields[")}
            return out
        rep.check(rule, "ROMS.Forcing.velocity", "returned pair is (U-sample, V-sample)", comp_of(res.items[0]) == {"u"} and comp_of(res.items[1]) == {"v"}, what_bad=f"first component built from {sorted(comp_of(res.items[0]))}, second from {sorted(comp_of(res.items[1]))}", what_ok="(u, v)", loc="ladim/ROMS.py")
    # force_particles(): velocity variables and nearest scalar sampling
    fr, samples2, it2, dom2 = roms.force_particles_run(prog)
    seen = set()
    for s in samples2:
        comp = {"u" if "'u'" in a else "v" if "'v'" in a else "?" for a in roms.atoms_of(s.field_nf) if a.startswith("forcing.fields[")}
        if len(comp) != 1:
            continue
        c = comp.pop()
        if c not in origin:
            continue
        ox, oy = origin[c]
        seen.add(c)
        rep.check(rule, "ROMS.Forcing.force_particles", f"{c}-field sampled at ({s.x}, {s.y})", s.x == X - ox and s.y == Y - oy, what_bad=f"must be (X - ({ox}), Y - ({oy}))", what_ok="own position", loc=f"ladim/ROMS.py:{s.node.lineno}")
    rep.check(rule, "ROMS.Forcing.force_particles", "both components sampled", seen == {"u", "v"}, what_bad=f"components: {sorted(seen)}", what_ok="u and v", loc="ladim/ROMS.py")
    nearest = [(a, info) for a, info in dom2.elem_info.items() if info[0] == "forcing.fields" and len(info[1]) == 3]
    if not nearest:
        rep.bad(rule, "ROMS.Forcing.force_particles", "scalar sampling", "no F[K, J, I] read of the extra forcing fields found", "ladim/ROMS.py")
    ox, oy = origin["<scalar>"]
    for a, (arr, idx) in nearest:
        want_x = NF.atom(f"int(round({(X - ox).canon()}))")
        want_y = NF.atom(f"int(round({(Y - oy).canon()}))")
        ok = isinstance(idx[2], NF) and idx[2] == want_x and isinstance(idx[1], NF) and idx[1] == want_y and isinstance(idx[0], NF) and idx[0] == NF.atom("forcing.K")
        rep.check(rule, "ROMS.sample3D", f"scalar field read {a}", ok, what_bad=f"must be F[K, round(Y - {oy}), round(X - {ox})]: the particle's own cell at its level", what_ok="own cell", loc="ladim/ROMS.py")
    # scalar values go to the state under the same name
    ffp = prog.role_func("forcing", "force_particles")
    for n, key, fields in forcing_state_stores(prog):
        rep.check(rule, ffp.qual, f"state[{key}] receives the sample of the field of the same name", fields == {key}, what_bad=f"state variable {key} receives the sample of {sorted(fields) or '?'}", what_ok="same name", loc=ffp.loc(n))


def sampling_on_every_path(prog: Program, rep: Report, rule: str) -> None:
    """Must-pass-through: every path of Forcing.update that returns normally computes the level
    lookup (z2s) and samples the fields at the particles (force_particles) - also at the last frame,
    also on the between-frames path."""
    from ..paths import enumerate_paths as _paths, path_calls
    from ..program import inline_helpers

    fi = inline_helpers(prog, prog.role_func("forcing", "update"))
    missing = []
    n = 0
    for p_ in _paths(fi.node.body):
        if p_.exit == "raise":
            continue
        n += 1
        calls = [unparse(c.func) for c in path_calls(p_)]
        need = [("z2s", any(c.split(".")[-1] == "z2s" for c in calls)), ("force_particles", any(c.endswith("force_particles") for c in calls))]
        for name, ok in need:
            if not ok:
                missing.append((name, p_.describe()))
    names = sorted({m_[0] for m_ in missing})
    rep.check(rule, fi.qual, "every returning path computes the level lookup and samples the fields at the particles", not missing and n > 0, what_bad=f"{len(missing)} path(s) leave update without {names} (first: {missing[0][1] if missing else ''}): on that step the particles keep the levels / forcing values of the previous step", what_ok=f"{n} path(s)", loc=fi.loc())


def forcing_state_stores(prog: Program):
    """Stores into the model state made by Forcing.force_particles: [(stmt, key text, {keys of
    self.fields the stored value was sampled from})], temporaries and the intermediate
    self.variables[...] entry expanded along each path."""
    import re as _re

    from ..program import path_records

    ffp = prog.role_func("forcing", "force_particles")
    out = []
    seen = set()
    bodies = [ffp.node.body] + [n.body for n in walk_no_nested(ffp.node) if isinstance(n, ast.For)]
    for body in bodies:
        for p, conds, stores in path_records(body):
            var_store = {}
            for t, v, st in stores:
                m = _re.fullmatch(r"self\.variables\[(.+)\]", t)
                if m:
                    var_store[m.group(1)] = v
                m2 = _re.fullmatch(r"self\.modules\['state'\]\[(.+)\]", t) or _re.fullmatch(r"self\.modules\['state'\]\.variables\[(.+)\]", t)
                if m2 and (getattr(st, 'lineno', 0), m2.group(1)) not in seen:
                    seen.add((getattr(st, 'lineno', 0), m2.group(1)))
                    key = m2.group(1)
                    val = v
                    mv = _re.fullmatch(r"self\.variables\[(.+)\]", val)
                    if mv and mv.group(1) in var_store:
                        val = var_store[mv.group(1)]
                    elif mv:
                        val = f"self.fields[{mv.group(1)}]" if False else val
                    fields = set(_re.findall(r"self\.fields\[([^\]]+)\]", val))
                    if mv and not fields:
                        fields = {"variables:" + mv.group(1)}
                    out.append((st, key, fields))
    return out


def z2s_call(prog: Program, rep: Report, rule: str) -> None:
    """Forcing.update computes (K, A) from z_r at the particle's own cell: z2s(z_r, X - i0, Y - j0, Z),
    and what it stores in self.K / self.A is that result. Evaluated abstractly, so local aliases
    (grid = self.grid; K, A = z2s(...); self.K = K) are read like the direct spelling."""
    fi = prog.role_func("forcing", "update")
    dom = NFDomain(scalars={"grid.i0", "grid.j0"})
    calls = []

    def hook(node, fr, it):
        fn = unparse(node.func)
        if fn == "z2s":
            zf = it.prog.func("ROMS.z2s")
            b = bind_args(zf, node)
            vals = [it.eval(b[p], fr) for p in zf.params[:4]]
            calls.append((node, vals))
            return Tup([NF.atom(f"z2s#{len(calls)}.K"), NF.atom(f"z2s#{len(calls)}.A")])
        if isinstance(node.func, ast.Attribute) and node.func.attr in ("_read_velocity", "_read_field", "force_particles", "index"):
            return Ref(f"call:{fn}")
        return NotImplemented

    it = Interp(prog, dom, depth=0, call_hook=hook)
    for k in ("X", "Y", "Z"):
        it.objenv[f"state.{k}"] = NF.atom(k)
    it.objenv["grid.i0"] = NF.atom("grid.i0")
    it.objenv["grid.j0"] = NF.atom("grid.j0")
    try:
        it.run(fi, {}, "forcing")
    except Exception as e:  # noqa: BLE001
        rep.add(rule, fi.qual, "level lookup z2s(z_r, X - i0, Y - j0, Z) stored in (K, A)", None, f"Forcing.update could not be evaluated: {type(e).__name__}: {e}"[:200], fi.loc())
        return
    if not calls:
        rep.bad(rule, fi.qual, "level lookup z2s(z_r, X - i0, Y - j0, Z) stored in (K, A)", "Forcing.update does not call z2s", fi.loc())
        return
    i0, j0 = NF.atom("grid.i0"), NF.atom("grid.j0")
    for n, (node, vals) in enumerate(calls, 1):
        ok = (
            len(vals) == 4
            and vtext(vals[0]) in ("grid.z_r", "forcing.grid.z_r")
            and it.num(vals[1]) == NF.atom("X") - i0
            and it.num(vals[2]) == NF.atom("Y") - j0
            and it.num(vals[3]) == NF.atom("Z")
        )
        K, A = it.objenv.get("forcing.K"), it.objenv.get("forcing.A")
        stored = isinstance(K, NF) and isinstance(A, NF) and K == NF.atom(f"z2s#{n}.K") and A == NF.atom(f"z2s#{n}.A")
        rep.check(rule, fi.qual, "level lookup z2s(z_r, X - i0, Y - j0, Z) stored in (K, A)", ok and stored, what_bad=f"level lookup must use the rho-level depths at (X - i0, Y - j0, Z) and store (K, A); got args {[vtext(v) for v in vals]}, self.K = {vtext(K)}, self.A = {vtext(A)}", what_ok="z2s(z_r, X - i0, Y - j0, Z)", loc=fi.loc(node))
    z2s = prog.func("ROMS.z2s")
    dom = NFDomain()
    captured = {}

    def hook(node, fr, it):
        if unparse(node.func) == "z2s_kernel":
            captured["args"] = [it.eval(a, fr) for a in node.args]
            return Tup([NF.atom("K"), NF.atom("A")])
        return NotImplemented

    it = Interp(prog, dom, depth=1, call_hook=hook)
    it.run(z2s, dict(z_rho=NF.atom("z_rho"), X=NF.atom("X"), Y=NF.atom("Y"), Z=NF.atom("Z")))
    a = captured.get("args")
    kz = prog.func("ROMS.z2s_kernel")
    ok = False
    if a and len(a) == 4:
        byname = dict(zip(kz.params, a))
        ok = (
            it.num(byname.get("I")) == NF.atom("int(round(X))")
            and it.num(byname.get("J")) == NF.atom("int(round(Y))")
            and it.num(byname.get("Z")) == NF.atom("Z")
            and it.num(byname.get("z_rho")) == NF.atom("z_rho")
        )
    rep.check(rule, z2s.qual, "z2s -> z2s_kernel(I, J, Z, z_rho)", ok, what_bad=f"kernel must receive the rounded cell indices (I from X, J from Y), the depth and the level depths; got {[vtext(v) for v in a] if a else None}", what_ok="I = round(X), J = round(Y)", loc=z2s.loc())



def _scaled(conds) -> bool:
    """Does this arm belong to packed storage?  (`self.scaled[..]` true, or `not self.scaled[..]` false)"""
    for t, taken in conds:
        if "scaled" in t:
            tt = t.strip()
            neg = tt.startswith("not ") or tt.startswith("not(")
            return taken != neg
    return False


def masking(prog: Program, rep: Report, rule: str) -> None:
    fi = prog.role_func("forcing", "_read_velocity")
    dom = NFDomain()
    it = Interp(prog, dom, depth=0)
    res, fr = it.run(fi, dict(time_step=NF.atom("step")), "forcing")
    if not (isinstance(res, Tup) and len(res.items) == 2):
        rep.bad(rule, fi.qual, "return value", f"expected (U, V), got {res!r}", fi.loc())
        return
    for comp, mask, val in (("u", "grid.Mu", res.items[0]), ("v", "grid.Mv", res.items[1])):
        arms = roms.flatten_phi(val)
        for conds, leaf in arms:
            leaf = it.num(leaf)
            cdesc = " and ".join(f"{t}={'T' if k else 'F'}" for t, k in conds) or "always"
            raw = [a for a in leaf.atoms() if ".variables['" in a or ".variables[" in a]
            raw_ok = len(raw) == 1 and f"variables['{comp}']" in raw[0]
            rep.check(rule, fi.qual, f"{comp} ({cdesc}): source variable", raw_ok, what_bad=f"returned {comp}-component is built from {raw}", what_ok=f"file variable {comp!r}", loc=fi.loc())
            masked = mask in leaf.atoms() and leaf.subst({mask: NF.const(0)}).is_zero() and leaf.degree(mask) == 1
            rep.check(rule, fi.qual, f"{comp} ({cdesc}): multiplied by the land mask {mask.split('.')[-1]}", masked, what_bad=f"returned value {leaf} does not vanish where {mask} is 0: velocity through land faces", what_ok="masked", loc=fi.loc())
            # packing
            sf = [a for a in leaf.atoms() if "scale_factor" in a]
            scaled_arm = _scaled(conds)
            if scaled_arm:
                rep.check("R02.5", fi.qual, f"{comp}: packed storage uses scale_factor[{comp!r}]", sf == [f"forcing.scale_factor['{comp}']"], what_bad=f"scale factor(s) applied: {sf}", what_ok=sf[0] if sf else "", loc=fi.loc())
            else:
                rep.check("R02.5", fi.qual, f"{comp}: float storage is used unscaled ({cdesc})", not sf, what_bad=f"scale factor applied although the variable is not packed: {sf}", what_ok="raw", loc=fi.loc())
    # frame index used is frame_idx[time_step]
    fr_v = fr.env.get("frame")
    rep.check(rule, fi.qual, "frame index", vtext(fr_v) in ("forcing.frame_idx[step]", "item:self.frame_idx[time_step]") or "frame_idx" in vtext(fr_v), what_bad=f"record read is {vtext(fr_v)}", what_ok="frame_idx[time_step]", loc=fi.loc())
    # _read_field packing
    ff = prog.role_func("forcing", "_read_field")
    dom2 = NFDomain()
    it2 = Interp(prog, dom2, depth=0, call_hook=lambda n, f, i: None if unparse(n.func).endswith("_select_file") else NotImplemented)
    res2, fr2 = it2.run(ff, dict(name=Ref("name"), n=NF.atom("step")), "forcing")
    arms = roms.flatten_phi(res2)
    n_scaled = n_raw = 0
    for conds, leaf in arms:
        leaf = it2.num(leaf)
        raw = [a for a in leaf.atoms() if ".variables[" in a]
        scaled_arm = _scaled(conds)
        if len(raw) != 1:
            rep.bad("R02.5", ff.qual, "scalar read", f"value built from {raw}", ff.loc())
            continue
        r = NF.atom(raw[0])
        if scaled_arm:
            n_scaled += 1
            want = NF.atom("forcing.add_offset[name]") + NF.atom("forcing.scale_factor[name]") * r
            rep.check("R02.5", ff.qual, "packed scalar = add_offset[name] + scale_factor[name]*raw", leaf == want, what_bad=f"got {leaf}", what_ok="affine unpacking with the variable's own attributes", loc=ff.loc())
        else:
            n_raw += 1
            rep.check("R02.5", ff.qual, "float scalar is used as stored", leaf == r, what_bad=f"got {leaf}", what_ok="raw", loc=ff.loc())
    rep.check("R02.5", ff.qual, "both storage kinds handled", n_scaled >= 1 and n_raw >= 1, what_bad=f"{n_scaled} packed arm(s), {n_raw} float arm(s)", what_ok="packed and float", loc=ff.loc())


def packing_per_file(prog: Program, rep: Report) -> None:
    """R02.5: the packing attributes belong to the file that is open: every path through
    open_forcing_file that installs a dataset also rebuilds scaled / scale_factor / add_offset from it."""
    from ..paths import enumerate_paths
    from ..program import xunparse, single_defs

    rule = "R02.5"
    fi = prog.role_func("forcing", "open_forcing_file")
    defs = single_defs(fi.node)
    n = 0
    for p in enumerate_paths(fi.node.body, unroll=(1,)):
        if p.exit == "raise":
            continue
        stmts = p.stmts()
        installs = [st for st in stmts if isinstance(st, ast.Assign) and unparse(st.targets[0]) == "self._nc"]
        if not installs:
            continue
        n += 1
        reset = any(isinstance(st, ast.Assign) and unparse(st.targets[0]) == "self.scaled" for st in stmts)
        per_key = [st for st in stmts if isinstance(st, ast.Assign) and unparse(st.targets[0]).startswith("self.scaled[")]
        ok = reset and bool(per_key)
        # a variable marked as packed on this path gets both of its own attributes from the dataset
        marked = any(isinstance(st, ast.Assign) and unparse(st.targets[0]).startswith("self.scaled[") and unparse(st.value) == "True" for st in stmts) or any("scale_factor" in unparse(t) and taken for t, taken in p.conds())
        if marked:
            both = all(any(isinstance(st, ast.Assign) and unparse(st.targets[0]).startswith(f"self.{a}[") and a in unparse(st.value) for st in stmts) for a in ("scale_factor", "add_offset"))
            rep.check(rule, fi.qual, f"path {p.describe()}: a packed variable gets its scale_factor and add_offset", both, what_bad="a variable is marked as packed but its scale_factor / add_offset are not read from the file: the unpacking has nothing (or another file's values) to work with", what_ok="both read", loc=fi.loc())
        rep.check(rule, fi.qual, f"path {p.describe()}: packing info rebuilt for the file just opened", ok, what_bad="a forcing file is installed without reading its own scale_factor/add_offset: fields of a later file in a multi-file run are decoded with another file's packing (files repacked separately, packed and float files mixed)", what_ok="scaled / scale_factor / add_offset rebuilt", loc=fi.loc())
    if n == 0:
        raise AnalysisError("open_forcing_file: no path installs self._nc")
    # the attributes are read from the dataset that is installed
    ds = [xunparse(st.value, fi.node, defs) for st in walk_no_nested(fi.node) if isinstance(st, ast.Assign) and unparse(st.targets[0]) == "self._nc"]
    reads = [nn for nn in walk_no_nested(fi.node) if isinstance(nn, ast.Attribute) and nn.attr in ("scale_factor", "add_offset") and isinstance(nn.ctx, ast.Load) and unparse(nn.value) != "self"]
    srcs = {xunparse(r.value, fi.node, defs).split(".variables")[0] for r in reads}
    rep.check(rule, fi.qual, "scale_factor / add_offset are read from the dataset that was opened", bool(reads) and len(ds) == 1 and srcs == {ds[0]}, what_bad=f"installed dataset {ds}, attributes read from {sorted(srcs)}", what_ok="same dataset", loc=fi.loc())
    loops = [nn for nn in walk_no_nested(fi.node) if isinstance(nn, ast.For) and any("self.scaled[" in unparse(x) for x in ast.walk(nn))]
    it = xunparse(loops[0].iter, fi.node, defs) if loops else ""
    rep.check(rule, fi.qual, "every forcing variable (u, v and the extra fields) gets packing info", "'u'" in it and "'v'" in it and "extra_forcing" in it, what_bad=f"loop over {it}", what_ok="u, v, *extra_forcing", loc=fi.loc())


def mask_construction(prog: Program, rep: Report, rule: str) -> None:
    """Mu interior = product of the two rho-masks adjacent along x; Mv along y."""
    from ..program import normalized

    # locals that only carry an array to its attribute are read as the attribute (self.Mu), whatever they are called
    fi = normalized(prog, prog.role_func("grid", "__init__"))
    stores = {"Mu": [], "Mv": []}
    shapes = {}
    alias = {}

    def mask_name(e):
        """Mu / Mv for the local or the attribute of that name"""
        t = unparse(e)
        t = t[5:] if t.startswith("self.") else t
        return t if t in stores else None

    for node in walk_no_nested(fi.node):
        if isinstance(node, ast.Assign) and len(node.targets) == 1:
            t = node.targets[0]
            if isinstance(t, (ast.Name, ast.Attribute)) and isinstance(node.value, ast.Call) and unparse(node.value.func) in ("np.zeros", "np.ones", "np.empty") and mask_name(t):
                shapes[mask_name(t)] = node.value.args[0]
            if isinstance(t, ast.Subscript) and mask_name(t.value):
                stores[mask_name(t.value)].append(node)
            if isinstance(t, ast.Name) and unparse(node.value) == "self.M":
                alias[t.id] = "M"
    def start(sl):
        """start offset of a slice / index along one axis: int, or ('end', n) for negative."""
        if isinstance(sl, ast.Slice):
            if sl.lower is None:
                return 0
            v = ast.literal_eval(sl.lower)
            return v if v >= 0 else ("end", v)
        v = ast.literal_eval(sl)
        return v if v >= 0 else ("end", v)
    def full(sl):
        return isinstance(sl, ast.Slice) and sl.lower is None and sl.upper is None
    for name, axis in (("Mu", 1), ("Mv", 0)):
        if not stores[name]:
            raise AnalysisError(f"Grid.__init__: no stores into {name}")
        interior = edge_lo = edge_hi = False
        for node in stores[name]:
            t = node.targets[0]
            tsl = list(t.slice.elts) if isinstance(t.slice, ast.Tuple) else [t.slice]
            if len(tsl) != 2 or not full(tsl[1 - axis]):
                rep.bad(rule, fi.qual, short(node), f"{name} must be filled along axis {axis} only", fi.loc(node))
                continue
            terms = []
            def collect(e):
                if isinstance(e, ast.BinOp) and isinstance(e.op, ast.Mult):
                    collect(e.left); collect(e.right)
                else:
                    terms.append(e)
            collect(node.value)
            shifts = []
            good = True
            for e in terms:
                if not (isinstance(e, ast.Subscript) and (unparse(e.value) == "self.M" or (isinstance(e.value, ast.Name) and alias.get(e.value.id, e.value.id) == "M"))):
                    good = False
                    break
                esl = list(e.slice.elts) if isinstance(e.slice, ast.Tuple) else [e.slice]
                if len(esl) != 2 or not full(esl[1 - axis]):
                    good = False
                    break
                a, c = start(tsl[axis]), start(esl[axis])
                if isinstance(a, tuple) or isinstance(c, tuple):
                    shifts.append(("end", (c[1] if isinstance(c, tuple) else c) - (a[1] if isinstance(a, tuple) else a)) if isinstance(a, tuple) and isinstance(c, tuple) else None)
                else:
                    shifts.append(c - a)
            if not good:
                rep.bad(rule, fi.qual, short(node), f"{name} must be a product of rho-mask values shifted along axis {axis} ({'x' if axis == 1 else 'y'})", fi.loc(node))
                continue
            a = start(tsl[axis])
            if isinstance(tsl[axis], ast.Slice):
                ok = sorted(s for s in shifts if isinstance(s, int)) == [-1, 0] and len(shifts) == 2 and a == 1
                interior = interior or ok
                rep.check(rule, fi.qual, short(node), ok, what_bad=f"interior faces must be M[m-1]*M[m] along {'x' if axis == 1 else 'y'}; shifts {shifts} from start {a}", what_ok="product of the two adjacent rho-masks", loc=fi.loc(node))
            else:
                ok = len(shifts) == 1 and shifts[0] in (0, ("end", 0))
                if a == 0:
                    edge_lo = edge_lo or ok
                else:
                    edge_hi = edge_hi or ok
                rep.check(rule, fi.qual, short(node), ok, what_bad=f"edge faces take the mask of the adjacent interior rho-cell; got shifts {shifts}", what_ok="edge face = adjacent cell", loc=fi.loc(node))
        rep.check(rule, fi.qual, f"{name}: interior and both edges filled", interior and edge_lo and edge_hi, what_bad=f"interior={interior} low edge={edge_lo} high edge={edge_hi}", what_ok="complete", loc=fi.loc())
        shp = shapes.get(name)
        want = "(self.jmax, self.imax + 1)" if name == "Mu" else "(self.jmax + 1, self.imax)"
        from .c07 import _nf_of

        def same_shape(a: ast.expr, want_text: str) -> bool:
            # element-wise arithmetic equality (1 + self.imax is self.imax + 1)
            w = ast.parse(want_text, mode="eval").body
            return isinstance(a, (ast.Tuple, ast.List)) and len(a.elts) == len(w.elts) and all(_nf_of(x, {}) == _nf_of(y, {}) for x, y in zip(a.elts, w.elts))

        rep.check(rule, fi.qual, f"{name} shape {unparse(shp) if shp is not None else '?'}", shp is not None and same_shape(shp, want), what_bad=f"must be {want} to match the {name[1]}-block read from the file", what_ok=want, loc=fi.loc())


def run(prog: Program, rep: Report, tier: str) -> None:
    rep.level = "other"
    rep.explanation = (
        "Abstract interpretation (rational normal forms) of trilinear, z2s_kernel, Forcing.velocity/force_particles -> "
        "sample3DUV -> sample3D, _read_velocity and _read_field: node weights are compared with the tensor-product weights "
        "as polynomial identities, sampling indices with X - (slice start + stagger) derived from Grid.__init__'s slices and "
        "the read statements, returned velocities must carry the land-mask factor. Decides the structural clauses, not "
        "numerical agreement on real files."
    )
    rep.assumptions = [
        "ROMS C-grid convention: u(xi) lies half a cell east of rho(xi), v(eta) half a cell north (tabulated)",
        "numpy/netCDF4 slicing semantics (appendix A.1)",
        "not decided: values on real files, float32 rounding",
    ]
    rep.trusted_base = ["CPython ast", "Fraction arithmetic", "sa/nf.py, sa/interp.py, sa/weights.py, sa/roms.py"]
    rep.rule("R02.1", "index frames: every sampling site indexes an array in the frame it was cut in (stagger, subgrid offset, axis order)", 20)
    rep.rule("R02.2", "trilinear weights: 8-node stencil, partition of unity, linear precision, tensor-product (convex) weights", 14)
    rep.rule("R02.3", "level lookup: per k-region the (K, A) pair interpolates -Z linearly / holds the end level", 6)
    rep.rule("R02.4", "land faces: returned u, v are multiplied by Mu, Mv built from adjacent rho-masks along the matching axis", 12)
    rep.rule("R02.5", "packing: scale_factor (and add_offset for scalars) of the variable's own key, only when packed", 6)
    rep.rule("R02.6", "the per-particle level index and weight (K, A) are recomputed from the current positions in every forcing update before they are used (shared with C14 R14.6)", 2)
    from . import c14

    c14.step_attribute_freshness(prog, rep, "R02.6", roles=("forcing",))
    sampling_on_every_path(prog, rep, "R02.6")
    rep.rule("R02.7", "the positions handed to the samplers and the cached level index / weight belong to the same particle list (shared with C14 R14.7)", 1)
    from . import align

    align.report(prog, rep, "R02.7", "positions, K and A of one particle are paired")
    trilinear_weights(prog, rep, "R02.2")
    z2s_analysis(prog, rep, "R02.3")
    z2s_call(prog, rep, "R02.3")
    frames(prog, rep, "R02.1")
    masking(prog, rep, "R02.4")
    packing_per_file(prog, rep)
    mask_construction(prog, rep, "R02.4")
    from ..share import share

    share(prog, rep, "C01", ("R01.1", "R01.4"), "R02.8", "the schemes hand the particle's own (x, y, z) to the velocity sampler, in that order", 3)
    share(prog, rep, "C17", ("R17.1",), "R02.9", "the grid arrays are read at the particle's own cell (row from y, column from x, subgrid offsets of the same axis)", 10, only=lambda o: "ROMS.Grid." in o.func or "ROMS.Forcing.update" in o.construct or "z2s" in o.func)
    rep.rule("R02.10", "the particle's (X, Y, Z) reach the schemes and the samplers in that order (shared with C01 R01.9)", 10)
    align.argument_order(prog, rep, "R02.10")



from ..selftest import Mut  # noqa: E402

R = "ladim/ROMS.py"
AUDIT = [
    Mut("tri-swap-f01-f10", R, "            + p * (1 - q) * f10\n            + (1 - p) * q * f01", "            + p * (1 - q) * f01\n            + (1 - p) * q * f10", rule="R02.2"),
    Mut("tri-level-weight", R, "f01 = a * F[k - 1, j + 1, i] + (1 - a) * F[k, j + 1, i]", "f01 = (1 - a) * F[k - 1, j + 1, i] + a * F[k, j + 1, i]", rule="R02.2"),
    Mut("tri-wrong-node", R, "f11 = a * F[k - 1, j + 1, i + 1] + (1 - a) * F[k, j + 1, i + 1]", "f11 = a * F[k - 1, j + 1, i + 1] + (1 - a) * F[k, j, i + 1]", rule="R02.2"),
    Mut("tri-axes-swapped", R, "f00 = a * F[k - 1, j, i] + (1 - a) * F[k, j, i]", "f00 = a * F[k - 1, i, j] + (1 - a) * F[k, i, j]", rule="R02.2"),
    Mut("tri-frac-from-round", R, "        i, j = int(X[n]), int(Y[n])\n        p, q = X[n] - i, Y[n] - j\n        k, a", "        i, j = int(X[n]), int(Y[n])\n        p, q = X[n] - i, X[n] - i\n        k, a", rule="R02.2"),
    Mut("uv-stagger-sign", R, "sample3D(U, X + 0.5, Y, K, A, method=method)", "sample3D(U, X - 0.5, Y, K, A, method=method)", rule="R02.1"),
    Mut("v-stagger-missing", R, "sample3D(V, X, Y + 0.5, K, A, method=method)", "sample3D(V, X, Y, K, A, method=method)", rule="R02.1"),
    Mut("velocity-no-i0", R, "return sample3DUV(U, V, X - i0, Y - j0, self.K, self.A, method=method)", "return sample3DUV(U, V, X, Y - j0, self.K, self.A, method=method)", rule="R02.1"),
    Mut("velocity-i0-j0-swapped", R, "        i0 = self.grid.i0\n        j0 = self.grid.j0\n        # K, A = z2s(self.grid.z_r, X - i0, Y - j0, Z)\n        if fractional_step", "        i0 = self.grid.j0\n        j0 = self.grid.i0\n        # K, A = z2s(self.grid.z_r, X - i0, Y - j0, Z)\n        if fractional_step", rule="R02.1"),
    Mut("iu-slice-shift", R, "self.Iu = slice(self.i0 - 1, self.i1)", "self.Iu = slice(self.i0, self.i1 + 1)", rule="R02.1"),
    Mut("jv-slice-short", R, "self.Jv = slice(self.j0 - 1, self.j1)", "self.Jv = slice(self.j0, self.j1)", rule="R02.1"),
    Mut("read-u-with-v-slices", R, 'U = self._nc.variables["u"][frame, :, self.grid.Ju, self.grid.Iu]', 'U = self._nc.variables["u"][frame, :, self.grid.Jv, self.grid.Iv]', rule="R02.1"),
    Mut("nearest-truncates", R, '        I = X.round().astype("int")\n        J = Y.round().astype("int")\n        result = F[K, J, I]', '        I = X.astype("int")\n        J = Y.astype("int")\n        result = F[K, J, I]', rule="R02.1"),
    Mut("nearest-axes", R, "        result = F[K, J, I]", "        result = F[K, I, J]", rule="R02.1"),
    Mut("z2s-weight", R, "A[n] = (zr[k] + Z[n]) / (zr[k] - zr[k - 1])", "A[n] = (zr[k - 1] + Z[n]) / (zr[k] - zr[k - 1])", rule="R02.3"),
    Mut("z2s-weight-sign", R, "A[n] = (zr[k] + Z[n]) / (zr[k] - zr[k - 1])", "A[n] = (zr[k] - Z[n]) / (zr[k] - zr[k - 1])", rule="R02.3"),
    Mut("z2s-top-index", R, "            K[n] = k - 1\n            A[n] = 0", "            K[n] = k - 1\n            A[n] = 1", rule="R02.3"),
    Mut("z2s-cell-swapped", R, "zr = z_rho[:, J[n], I[n]]", "zr = z_rho[:, I[n], J[n]]", rule="R02.3"),
    Mut("z2s-depth-sign", R, "k = np.searchsorted(zr, -Z[n])", "k = np.searchsorted(zr, Z[n])", rule="R02.3"),
    Mut("z2s-update-no-offset", R, "self.K, self.A = z2s(self.grid.z_r, X - self.grid.i0, Y - self.grid.j0, Z)", "self.K, self.A = z2s(self.grid.z_r, X, Y, Z)", rule="R02.3"),
    Mut("no-u-mask", R, "        np.multiply(U, self.grid.Mu, out=U)\n", "", rule="R02.4"),
    Mut("v-masked-by-mu", R, "np.multiply(V, self.grid.Mv, out=V)", "np.multiply(V, self.grid.Mv, out=U)", rule="R02.4"),
    Mut("mu-along-y", R, "Mu[:, 1:-1] = M[:, :-1] * M[:, 1:]", "Mu[:, 1:-1] = M[:, 1:] * M[:, 1:]", rule="R02.4"),
    Mut("mv-interior", R, "Mv[1:-1, :] = M[:-1, :] * M[1:, :]", "Mv[1:-1, :] = M[:-1, :]", rule="R02.4"),
    Mut("scale-v-with-u", R, 'V = self.scale_factor["v"] * V', 'V = self.scale_factor["u"] * V', rule="R02.5"),
    Mut("scalar-no-offset", R, "F: Field = self.add_offset[name] + self.scale_factor[name] * F0", "F: Field = self.scale_factor[name] * F0", rule="R02.5"),
    Mut("scalar-always-scaled", R, "        else:\n            F = F0\n        return F", "        else:\n            F = self.scale_factor[name] * F0\n        return F", rule="R02.5"),
    Mut("packing-once", R, "        self._nc_file = self.file_idx[time_step]\n", "        self._nc_file = self.file_idx[time_step]\n        if not self._first_read:\n            return\n", rule="R02.5"),
    Mut("benign-tri-reorder", R, "            (1 - p) * (1 - q) * f00\n            + p * (1 - q) * f10\n            + (1 - p) * q * f01\n            + p * q * f11", "            (1 - q) * ((1 - p) * f00 + p * f10)\n            + q * ((1 - p) * f01 + p * f11)", expect="silent"),
    Mut("benign-z2s-weight-form", R, "A[n] = (zr[k] + Z[n]) / (zr[k] - zr[k - 1])", "A[n] = 1 - (-Z[n] - zr[k - 1]) / (zr[k] - zr[k - 1])", expect="silent"),
    Mut("benign-offset-local", R, "        return sample3DUV(U, V, X - i0, Y - j0, self.K, self.A, method=method)", "        Xr = X - i0\n        Yr = Y - j0\n        return sample3DUV(U, V, Xr, Yr, self.K, self.A, method=method)", expect="silent"),
    Mut("benign-z2s-ge", R, "        if k == zr.size:", "        if k >= zr.size:", expect="silent"),
]
