"""C14 - particles are independent; runs are reproducible and time-shift invariant.

Decided: (R14.1) per-particle caches of the forcing object (level index/weight, sampled variables)
are not used across an operation that changes the number of particles; (R14.2) per-index
independence inside the compiled kernels and absence of cross-particle reductions on the numeric
update path; (R14.3) sources of nondeterminism are enumerated and confined (RNG behind the diffusion
flags, wall clock only into the history attribute / log, glob results sorted, set iteration only
where order is irrelevant); (R14.4) the per-step modules read the clock through the step number only.
Not decided: bit-for-bit equality of paired runs.
"""

from __future__ import annotations

import ast

from ..program import AnalysisError, FuncInfo, Program, unparse, short, walk_no_nested, xunparse
from ..report import Report
from ..words import words, role_label
from .. import statefx

REDUCTIONS = {"sum", "cumsum", "cumprod", "sort", "argsort", "roll", "mean", "median", "average", "std", "var", "amax", "amin", "nanmax", "nanmin", "nanmean", "ptp", "flip", "shuffle", "permutation", "unique", "dot", "diff", "argmax", "argmin", "lexsort", "partition"}


def particle_derived(prog: Program, fi: FuncInfo, extra_seed=()) -> tuple[set, set]:
    """(local names, self attributes) whose value derives from the per-particle state arrays
    (flow-insensitive closure over the assignments of one function)."""
    env = prog.type_env(fi)
    part = set(statefx.local_state_aliases(prog, fi)) | set(extra_seed)

    def mentions(e) -> bool:
        for x in ast.walk(e):
            if isinstance(x, ast.Name) and x.id in part:
                return True
            if isinstance(x, ast.Attribute) and isinstance(x.value, ast.Name) and env.get(x.value.id) == "state":
                return True
            if isinstance(x, ast.Attribute) and isinstance(x.value, ast.Name) and x.value.id == "self" and ("self." + x.attr) in attrs:
                return True
        return False

    attrs: set = set()
    changed = True
    while changed:
        changed = False
        for st in walk_no_nested(fi.node):
            if isinstance(st, (ast.Assign, ast.AnnAssign, ast.AugAssign)) and st.value is not None and mentions(st.value):
                for t in st.targets if isinstance(st, ast.Assign) else [st.target]:
                    for el in t.elts if isinstance(t, (ast.Tuple, ast.List)) else [t]:
                        if isinstance(el, ast.Name) and el.id not in part:
                            part.add(el.id)
                            changed = True
                        base = el
                        while isinstance(base, ast.Subscript):
                            base = base.value
                        if isinstance(base, ast.Attribute) and isinstance(base.value, ast.Name) and base.value.id == "self" and base.attr != "modules":
                            k = "self." + base.attr
                            if k not in attrs:
                                attrs.add(k)
                                changed = True
    return part, attrs


def forcing_cache_attrs(prog: Program) -> tuple[set[str], dict[str, str]]:
    """Attributes of the forcing object assigned in update / force_particles from values that depend
    on the particle positions (per-particle caches)."""
    out: set[str] = set()
    where: dict[str, str] = {}
    for meth in ("update", "force_particles"):
        fi = prog.role_func("forcing", meth)
        seed = {p for p in fi.params if p in ("X", "Y", "Z")}
        _, attrs = particle_derived(prog, fi, seed | ({"self.K", "self.A"} if meth == "force_particles" else set()))
        # reads of the level caches make a value per-particle as well
        for node in walk_no_nested(fi.node):
            if isinstance(node, ast.Assign) and any(unparse(a) in ("self.K", "self.A") for a in ast.walk(node.value) if isinstance(a, ast.Attribute)):
                for t in node.targets[0].elts if isinstance(node.targets[0], ast.Tuple) else node.targets:
                    b = t
                    while isinstance(b, ast.Subscript):
                        b = b.value
                    if isinstance(b, ast.Attribute) and unparse(b.value) == "self" and b.attr != "modules":
                        attrs.add("self." + b.attr)
        for a in attrs:
            out.add(a[5:])
            where.setdefault(a[5:], fi.qual)
    return out, where


def reads_cache(prog: Program, fi: FuncInfo, cache: set[str], depth: int = 6, _seen=None):
    """Call chain from fi to a read of a forcing cache attribute, or None."""
    _seen = _seen if _seen is not None else set()
    if fi.qual in _seen or depth < 0:
        return None
    _seen.add(fi.qual)
    env = prog.type_env(fi)
    is_forcing = fi.cls == prog.role_class.get("forcing") and fi.module.name == prog.role_module.get("forcing")
    for node in walk_no_nested(fi.node):
        if isinstance(node, ast.Attribute) and isinstance(node.ctx, ast.Load) and node.attr in cache:
            recv = unparse(node.value)
            if (recv == "self" and is_forcing) or env.get(recv) == "forcing" or prog._expr_role(node.value, env) == "forcing":
                return [fi.qual, f"reads {recv}.{node.attr}"]
    for c in prog.calls_in(fi):
        for g in prog.resolve_call(fi, c, env):
            if g.name == "__init__":
                continue
            sub = reads_cache(prog, g, cache, depth - 1, _seen)
            if sub:
                return [fi.qual] + sub
    return None


def cache_coherence(prog: Program, rep: Report) -> None:
    rule = "R14.1"
    cache, where = forcing_cache_attrs(prog)
    if not {"K", "A"} <= cache:
        raise AnalysisError(f"Forcing.update: per-particle caches K, A not found (found {sorted(cache)})")
    rep.ok(rule, "ROMS.Forcing.update", f"per-particle caches of the forcing object: {sorted(cache)}", "derived from assignments that depend on the particle positions", "ladim/ROMS.py")

    def classify_word(fi: FuncInfo, body=None):
        out = []
        for w in words(prog, fi, body=body, depth=2):
            evs = []
            for e in w.events:
                if e.kind != "call":
                    continue
                lab = e.label
                role, _, meth = lab.partition(".")
                if role not in prog.role_class and lab != "warm_start()":
                    continue
                tags = set()
                chain_len = chain_use = None
                if lab == "warm_start()":
                    tags.add("LEN")
                    chain_len = ["warm_start.warm_start"]
                else:
                    try:
                        g = prog.role_func(role, meth)
                    except AnalysisError:
                        continue
                    cl = statefx.changes_length(prog, g)
                    if role == "state" and meth in statefx.LEN_CHANGERS:
                        cl = [g.qual]
                    if cl:
                        tags.add("LEN")
                        chain_len = cl
                    if role == "forcing" and meth == "update":
                        tags.add("DEF")
                    else:
                        cu = reads_cache(prog, g, cache)
                        if cu:
                            tags.add("USE")
                            chain_use = cu
                evs.append((lab, tags, chain_len, chain_use))
            out.append((w, evs))
        return out

    def check_words(fi, body, ctx):
        seen = set()
        n = 0
        for w, evs in classify_word(fi, body):
            last_def = None
            lens_since = []
            for lab, tags, cl, cu in evs:
                if "USE" in tags and last_def is not None and lens_since:
                    for l_lab, l_chain in lens_since:
                        construct = f"{last_def} -> {l_lab} -> {lab}"
                        if construct in seen:
                            continue
                        seen.add(construct)
                        n += 1
                        rep.bad(rule, fi.qual, construct, f"{ctx}: the caches {sorted(cache)} computed by {last_def} for the particle list at that moment are used by {' -> '.join(cu)} after {' -> '.join(l_chain)} changed the number of particles: one particle's death/removal shifts every other particle's cached level and forcing values", fi.loc())
                if "DEF" in tags:
                    last_def = lab
                    lens_since = []
                if "LEN" in tags and last_def is not None and "DEF" not in tags:
                    lens_since.append((lab, cl))
                if "USE" in tags and last_def is None:
                    construct = f"(no {sorted(cache)} yet) -> {lab}"
                    if construct not in seen:
                        seen.add(construct)
                        rep.bad(rule, fi.qual, construct, f"{ctx}: {' -> '.join(cu)} before the forcing caches were computed in this step", fi.loc())
            key = tuple(l for l, *_ in evs)
            if key not in seen:
                seen.add(key)
                if not any(c.startswith(key[0] if key else "") and "->" in c for c in seen if isinstance(c, str)):
                    pass
        return n

    upd = prog.view("model.Model.update")
    nbad = check_words(upd, None, "step protocol")
    if nbad == 0:
        rep.ok(rule, upd.qual, "no length-changing call between forcing.update and the users of its caches", "all paths", upd.loc())
    init = prog.view("model.Model.__init__")
    block = [n for n in init.node.body if isinstance(n, ast.If) and "warm_start" in unparse(n.test)]
    if not block:
        raise AnalysisError("Model.__init__: warm block not found")

    def classify(f, call, env):
        if isinstance(call.func, ast.Name) and call.func.id == "warm_start":
            return "warm_start()"
        return None

    # reuse words with the warm_start classifier
    from ..words import words as _w

    global words
    orig = words
    words = lambda prog_, fi_, body=None, depth=2: orig(prog_, fi_, body=body, depth=depth, classify=classify)
    try:
        nb = check_words(init, block[0].body, "warm-start catch-up step")
    finally:
        words = orig
    if nb == 0:
        rep.ok(rule, init.qual, "warm block: caches defined after the last length change", "warm_start, release, then forcing.update, tracker, ibm", init.loc())


def step_attribute_freshness(prog: Program, rep: Report, rule: str, roles=("tracker",)) -> None:
    """A per-particle value kept in an attribute of a per-step module is (re)computed in every step
    before that step reads it. The particle list changes between steps (release, compactify), so a
    per-particle array surviving from the previous step belongs to other particles."""
    from ..defassign import selfattr_key, stale_reads

    for role in roles:
        fi = prog.role_func(role, "update")
        al = set(statefx.local_state_aliases(prog, fi))
        env = prog.type_env(fi)
        # particle-derived local names (flow-insensitive closure)
        part = set(al)
        changed = True

        def mentions_particles(e) -> bool:
            for x in ast.walk(e):
                if isinstance(x, ast.Name) and x.id in part:
                    return True
                if isinstance(x, ast.Attribute) and isinstance(x.value, ast.Name) and env.get(x.value.id) == "state":
                    return True
            return False

        while changed:
            changed = False
            for st in walk_no_nested(fi.node):
                if isinstance(st, (ast.Assign, ast.AnnAssign)) and st.value is not None and mentions_particles(st.value):
                    for t in st.targets if isinstance(st, ast.Assign) else [st.target]:
                        for el in t.elts if isinstance(t, (ast.Tuple, ast.List)) else [t]:
                            if isinstance(el, ast.Name) and el.id not in part:
                                part.add(el.id)
                                changed = True
        tracked = set()
        for st in walk_no_nested(fi.node):
            if isinstance(st, (ast.Assign, ast.AnnAssign, ast.AugAssign)) and st.value is not None and mentions_particles(st.value):
                for t in st.targets if isinstance(st, ast.Assign) else [st.target]:
                    for el in t.elts if isinstance(t, (ast.Tuple, ast.List)) else [t]:
                        k = selfattr_key(el)
                        if k:
                            tracked.add(k)
        cls_funcs = {f.name: f for f in prog.all_functions() if f.module is fi.module and f.cls == fi.cls}

        def attrs_read(name: str, seen=()) -> set:
            f = cls_funcs.get(name)
            if f is None or name in seen:
                return set()
            out = set()
            for x in walk_no_nested(f.node):
                k = selfattr_key(x)
                if k and isinstance(x.ctx, ast.Load):
                    out.add(k)
                if isinstance(x, ast.Call) and isinstance(x.func, ast.Attribute) and isinstance(x.func.value, ast.Name) and x.func.value.id == "self":
                    out |= attrs_read(x.func.attr, seen + (name,))
            return out

        def call_reads(c: ast.Call):
            if isinstance(c.func, ast.Attribute) and isinstance(c.func.value, ast.Name) and c.func.value.id == "self":
                return attrs_read(c.func.attr)
            return ()

        bad = stale_reads(fi.node.body, tracked, selfattr_key, call_reads)
        for k in sorted(tracked):
            node = bad.get(k)
            rep.check(rule, fi.qual, f"per-particle attribute {k} is assigned in the step before the step reads it", node is None, what_bad=f"`{short(node) if node is not None else ''}` can read {k} as left by an earlier step: its rows belong to the particle list of that step (releases and compactification change the list in between)", what_ok="recomputed every step", loc=fi.loc(node) if node is not None else fi.loc())
        if not tracked:
            rep.ok(rule, fi.qual, "no per-particle value is kept in an attribute across the step", "none", fi.loc(), nontrivial=False)


def call_attribute_freshness(prog: Program, rep: Report, rule: str, roles=("grid", "forcing")) -> None:
    """A sampler that stores a value derived from its particle arguments in an attribute and reads that attribute
    in the same call must have stored it on every path of that call: a store that is skipped on some path (a memo
    keyed on the number of particles, on one of the coordinates, on "first call") hands a particle the value that was
    computed for whichever particle had its row in an earlier call."""
    from ..defassign import selfattr_key, stale_reads

    n = 0
    for role in roles:
        if role not in prog.role_module:
            continue
        mod = prog.module(prog.role_module[role])
        for fi in mod.functions.values():
            if fi.cls != prog.role_class[role] or fi.name.startswith("__"):
                continue
            params = set(fi.params) - {"self"}
            if not params:
                continue
            part = set(params)
            changed = True

            def mentions(e, part=part) -> bool:
                return any(isinstance(x, ast.Name) and x.id in part for x in ast.walk(e))

            while changed:
                changed = False
                for st in walk_no_nested(fi.node):
                    if isinstance(st, (ast.Assign, ast.AnnAssign)) and st.value is not None and mentions(st.value):
                        for t in st.targets if isinstance(st, ast.Assign) else [st.target]:
                            for el in t.elts if isinstance(t, (ast.Tuple, ast.List)) else [t]:
                                if isinstance(el, ast.Name) and el.id not in part:
                                    part.add(el.id)
                                    changed = True
            tracked = set()
            for st in walk_no_nested(fi.node):
                if isinstance(st, (ast.Assign, ast.AnnAssign)) and st.value is not None and mentions(st.value):
                    for t in st.targets if isinstance(st, ast.Assign) else [st.target]:
                        for el in t.elts if isinstance(t, (ast.Tuple, ast.List)) else [t]:
                            k = selfattr_key(el)
                            if k:
                                tracked.add(k)
            n += 1
            if not tracked:
                rep.ok(rule, fi.qual, "no argument-derived value is kept in an attribute", "none", fi.loc(), nontrivial=False)
                continue
            bad = stale_reads(fi.node.body, tracked, selfattr_key)
            for k in sorted(tracked):
                node = bad.get(k)
                rep.check(rule, fi.qual, f"argument-derived attribute {k} is stored on every path of the call before the call reads it", node is None, what_bad=f"`{short(node) if node is not None else ''}` can read {k} as left by an earlier call with other particles in the rows (the store is skipped on some path: a memo keyed on less than the arguments)", what_ok="stored before read on every path", loc=fi.loc(node) if node is not None else fi.loc())
    if n == 0:
        rep.add(rule, "grid/forcing", "samplers with particle arguments", None, "no methods found", "")


def loop_carried(lp: ast.For) -> set:
    """Names assigned in the body of `lp` that can be read in an iteration before that iteration has
    assigned them (definite-assignment analysis of one iteration starting from the empty set)."""
    from ..defassign import name_key, stale_reads, stored_keys

    stored = stored_keys(lp.body, name_key) - {x.id for x in ast.walk(lp.target) if isinstance(x, ast.Name)}
    return set(stale_reads(lp.body, stored, name_key))


def kernel_independence(prog: Program, rep: Report) -> None:
    rule = "R14.2"
    n = 0
    for fi in prog.all_functions():
        if fi.module.name in statefx.SKIP_MODULES or not fi.is_kernel:
            continue
        ann = fi.param_annotations()
        loops = [x for x in walk_no_nested(fi.node) if isinstance(x, ast.For) and isinstance(x.iter, ast.Call) and unparse(x.iter.func) in ("numba.prange", "prange", "range")]
        if not loops:
            continue
        part = {p for p, a in ann.items() if a.split("[")[0].endswith("ParticleArray")}
        for lp in loops:
            var = unparse(lp.target)
            # outputs allocated per particle
            outs = set()
            for node in walk_no_nested(fi.node):
                if isinstance(node, ast.Assign) and isinstance(node.value, ast.Call) and unparse(node.value.func) in ("np.empty", "np.ones", "np.zeros", "np.full") and isinstance(node.targets[0], ast.Name):
                    outs.add(node.targets[0].id)
            bad = []
            cnt = 0
            for node in ast.walk(lp):
                if isinstance(node, ast.Subscript) and isinstance(node.value, ast.Name) and node.value.id in (part | outs):
                    cnt += 1
                    if unparse(node.slice) != var:
                        bad.append(node)
            carried = loop_carried(lp)
            rep.check(rule, fi.qual, f"loop over {var}: no value carried from one particle's iteration to the next", not carried, what_bad=f"{sorted(carried)} assigned in the loop and read before being assigned in the same iteration: particle {var} sees a value left by another particle", what_ok="every local is (re)assigned before it is read", loc=fi.loc(lp))
            n += 1
            rep.check(rule, fi.qual, f"loop over {var}: {cnt} per-particle subscripts all indexed by {var}", not bad, what_bad=f"{[short(b) for b in bad]}: particle {var} reads or writes another particle's element", what_ok="own element only", loc=fi.loc(lp))
    if n == 0:
        raise AnalysisError("no looping @njit kernel found")
    # vectorised code on the numeric update path
    roots = [prog.func("tracker.Tracker.update"), prog.role_func("forcing", "update"), prog.role_func("forcing", "velocity"), prog.role_func("forcing", "force_particles")]
    reach = prog.reachable(roots)
    for q, fi in sorted(reach.items()):
        if fi.module.name in ("state",) or fi.name in ("_read_velocity", "_read_field", "open_forcing_file", "_select_file"):
            continue
        bad = []
        for node in walk_no_nested(fi.node):
            if isinstance(node, ast.Call):
                fn = unparse(node.func)
                last = fn.split(".")[-1]
                if last in REDUCTIONS and (fn.startswith(("np.", "numpy.")) or isinstance(node.func, ast.Attribute)):
                    bad.append(node)
                if fn in ("sum", "sorted", "reversed") and node.args:
                    bad.append(node)
                if fn in ("max", "min") and len(node.args) == 1:
                    bad.append(node)
            if isinstance(node, ast.Subscript) and isinstance(node.slice, ast.Slice) and node.slice.step is not None and isinstance(node.ctx, ast.Load):
                bad.append(node)
        # any()/all() over the particles deciding work that is not masked by the same array
        from ..interp import any_guard_is_redundant, any_mask_of

        for node in walk_no_nested(fi.node):
            if isinstance(node, ast.If):
                red = [x for x in ast.walk(node.test) if isinstance(x, ast.Call) and ((isinstance(x.func, ast.Attribute) and x.func.attr in ("any", "all") and not x.args) or unparse(x.func) in ("np.any", "np.all", "any", "all"))]
                if not red:
                    continue
                only_stops = all(isinstance(b, ast.Raise) or (isinstance(b, ast.Expr) and isinstance(b.value, ast.Call) and unparse(b.value.func).split(".")[0] in ("logger", "logging")) or (isinstance(b, ast.If) and all(isinstance(c, (ast.Raise, ast.Expr)) for c in b.body + b.orelse)) for b in node.body + node.orelse)
                if any_guard_is_redundant(node) or only_stops:
                    continue
                bad.append(node.test)
        rep.check(rule, q, "no cross-particle reduction / permutation on the numeric update path", not bad, what_bad=f"{[short(b) for b in bad]}: a particle's result would depend on the other particles", what_ok="element-wise only", loc=fi.loc())


def nondeterminism(prog: Program, rep: Report) -> None:
    rule = "R14.3"
    n_clock = n_glob = n_set = 0
    for fi in prog.all_functions():
        if fi.module.name in statefx.SKIP_MODULES or fi.module.name.startswith("ibms"):
            continue
        for st in walk_no_nested(fi.node):
            if not isinstance(st, ast.stmt):
                continue
            for node in ast.iter_child_nodes(st):
                pass
        for node in walk_no_nested(fi.node):
            if isinstance(node, ast.Call):
                fn = unparse(node.func)
                if _is_clock_call(node):
                    n_clock += 1
                if isinstance(node.func, ast.Attribute) and node.func.attr in ("glob", "rglob", "iterdir") or fn in ("glob.glob", "os.listdir", "os.scandir"):
                    n_glob += 1
                    stmt = _enclosing_stmt(fi, node)
                    ok = _sorted_use(fi, stmt, node)
                    rep.check(rule, fi.qual, short(stmt if stmt is not None else node), ok, what_bad="directory listing used in file-system order: the file sequence (and the default grid file) depends on the platform", what_ok="sorted before use", loc=fi.loc(node))
            if isinstance(node, ast.For):
                it = unparse(node.iter)
                in_state = fi.cls == prog.role_class.get("state") and fi.module.name == prog.role_module.get("state")
                setlike = (in_state and it in ("self.instance_variables", "self.particle_variables")) or it.startswith("set(") or it.startswith("{")
                if isinstance(node.iter, ast.Name):
                    for d in walk_no_nested(fi.node):
                        tgt = val = None
                        if isinstance(d, ast.Assign) and len(d.targets) == 1:
                            tgt, val = d.targets[0], d.value
                        elif isinstance(d, ast.AnnAssign) and d.value is not None:
                            tgt, val = d.target, d.value
                        if tgt is not None and unparse(tgt) == it:
                            sv = unparse(val)
                            if sv.startswith(("set(", "{")) and not isinstance(val, ast.Dict) or ".union(" in sv or ".intersection(" in sv or ".difference(" in sv:
                                setlike = True
                if setlike:
                    n_set += 1
                    var = unparse(node.target)
                    bad = []
                    for sub in node.body:
                        for x in ast.walk(sub):
                            if isinstance(x, ast.Assign):
                                for t in x.targets:
                                    if isinstance(t, ast.Subscript):
                                        keyed = any(isinstance(q, ast.Subscript) and unparse(q.slice) == var for q in ast.walk(t))
                                        if not keyed:
                                            bad.append(x)
                                    elif isinstance(t, ast.Name):
                                        pass  # locals recomputed per iteration
                                    else:
                                        bad.append(x)
                            if isinstance(x, ast.AugAssign):
                                bad.append(x)
                            if isinstance(x, ast.Call) and isinstance(x.func, ast.Attribute) and x.func.attr in ("append", "extend", "write"):
                                bad.append(x)
                    rep.check(rule, fi.qual, f"iteration over the set {it}", not bad, what_bad=f"order-dependent effect inside a loop over an unordered set: {[short(b) for b in bad]}", what_ok=f"each iteration only touches entry [{var}]", loc=fi.loc(node))
    clock_taint(prog, rep, rule)
    if n_clock < 1 or n_glob < 2:
        raise AnalysisError(f"nondeterminism sources: found {n_clock} clock and {n_glob} glob sites, fewer than confirmed by hand")
    # RNG: only the tracker owns one, guarded by the diffusion flags (R11.4)
    owners = []
    for fi in prog.all_functions():
        if fi.module.name in statefx.SKIP_MODULES or fi.module.name.startswith("ibms"):
            continue
        for node in walk_no_nested(fi.node):
            if isinstance(node, ast.Call):
                parts = unparse(node.func).split(".")
                # np.random.<f>(...), random.<f>(...), numpy.random.default_rng(...), default_rng(...), RandomState(...)
                if (len(parts) >= 2 and parts[0] in ("np", "numpy") and parts[1] == "random") or parts[0] == "random" or parts[-1] in ("default_rng", "RandomState", "SeedSequence"):
                    owners.append((fi, node))
    for fi, node in owners:
        rep.check(rule, fi.qual, short(node), fi.qual == "tracker.Tracker.__init__", what_bad="a random generator outside the tracker: randomness that the diffusion switches do not control", what_ok="the tracker's generator (uses are guarded by the diffusion flags, see C11 R11.4)", loc=fi.loc(node))
    from .c01 import update_normal_form

    for adv in (True,):
        it, fr, draws = update_normal_form(prog, dict(advection=adv, diffusion=False, vertdiff=False, vertical_advection=True))
        rep.check(rule, "tracker.Tracker.update", "no random draw with diffusion and vertdiff off", not draws, what_bad=f"{len(draws)} draws", what_ok="deterministic", loc="ladim/tracker.py")


CLOCK_FUNCS = ("time.time", "time.perf_counter", "time.monotonic", "time.process_time", "time.time_ns", "os.getpid", "uuid.uuid4", "uuid.uuid1", "os.urandom", "os.times")


def _is_clock_call(node: ast.AST) -> bool:
    if not isinstance(node, ast.Call):
        return False
    fn = unparse(node.func)
    return fn.split(".")[-1] in ("today", "now", "utcnow") or fn in CLOCK_FUNCS


def _is_log_call(node: ast.AST) -> bool:
    return isinstance(node, ast.Call) and unparse(node.func).split(".")[0] in ("logger", "logging", "print", "warnings")


def clock_taint(prog: Program, rep: Report, rule: str) -> None:
    """Wall-clock / process-dependent values may only reach log messages and the history attribute.

    Taint: the clock calls; propagated through assignments to local names (per function) and to
    `self.<attr>` (by attribute name, program-wide). Every load of a tainted name or attribute must sit
    (a) inside a log call, (b) on the right-hand side of an assignment that itself only taints a local
    name / a self attribute / a target named *history*, or (c) in the test of an `if` whose body is
    log calls only. Anything else (a state or output variable, a return value, an index, a branch that
    does work) makes two runs differ."""
    funcs = [fi for fi in prog.all_functions() if fi.module.name not in statefx.SKIP_MODULES and not fi.module.name.startswith("ibms")]
    tattr: set[str] = set()  # tainted attribute names
    tloc: dict[str, set[str]] = {fi.qual: set() for fi in funcs}

    def tainted_expr(e: ast.AST, fi) -> bool:
        for x in ast.walk(e):
            if _is_clock_call(x):
                return True
            if isinstance(x, ast.Name) and isinstance(x.ctx, ast.Load) and x.id in tloc[fi.qual]:
                return True
            if isinstance(x, ast.Attribute) and isinstance(x.ctx, ast.Load) and x.attr in tattr:
                return True
        return False

    def targets_of(st):
        if isinstance(st, ast.Assign):
            return st.targets
        if isinstance(st, (ast.AugAssign, ast.AnnAssign)):
            return [st.target]
        return []

    from ..program import bind_args

    fquals = {f.qual for f in funcs}
    handed_on: set[int] = set()  # id of argument expressions judged in the callee

    def repo_callee(fi, call):
        try:
            ts = prog.resolve_call(fi, call)
        except AnalysisError:
            return None
        return ts[0] if len(ts) == 1 and ts[0].qual in fquals and ts[0].name != "__init__" else None

    changed = True
    while changed:
        changed = False
        for fi in funcs:
            # a tainted argument taints the parameter of the repository function it is passed to
            in_log = {id(y) for l in walk_no_nested(fi.node) if _is_log_call(l) for y in ast.walk(l)}
            for c in walk_no_nested(fi.node):
                if isinstance(c, ast.Call) and id(c) not in in_log and any(tainted_expr(a, fi) for a in list(c.args) + [k.value for k in c.keywords]):
                    # (a call whose result only feeds a log message is judged at the log call, as before)
                    g = repo_callee(fi, c)
                    if g is None:
                        continue
                    try:
                        bound = bind_args(g, c)
                    except Exception:  # noqa: BLE001
                        continue
                    for pname, expr in bound.items():
                        if any(expr is a for a in list(c.args) + [k.value for k in c.keywords]) and tainted_expr(expr, fi):
                            handed_on.add(id(expr))
                            if pname not in tloc[g.qual]:
                                tloc[g.qual].add(pname)
                                changed = True
            for st in walk_no_nested(fi.node):
                if isinstance(st, (ast.Assign, ast.AugAssign, ast.AnnAssign)) and st.value is not None and tainted_expr(st.value, fi):
                    for t in targets_of(st):
                        for el in (t.elts if isinstance(t, (ast.Tuple, ast.List)) else [t]):
                            if isinstance(el, ast.Name) and el.id not in tloc[fi.qual]:
                                tloc[fi.qual].add(el.id)
                                changed = True
                            elif isinstance(el, ast.Attribute) and isinstance(el.value, ast.Name) and el.value.id == "self" and "history" not in el.attr and el.attr not in tattr:
                                tattr.add(el.attr)
                                changed = True
    # now judge every tainted use
    for fi in funcs:
        parents: dict[int, ast.AST] = {}
        for n in ast.walk(fi.node):
            for c in ast.iter_child_nodes(n):
                parents[id(c)] = n

        def chain(n):
            out = []
            while id(n) in parents:
                n = parents[id(n)]
                out.append(n)
            return out

        seen_stmt = set()
        for x in walk_no_nested(fi.node):
            is_src = _is_clock_call(x)
            is_use = (isinstance(x, ast.Name) and isinstance(x.ctx, ast.Load) and x.id in tloc[fi.qual]) or (isinstance(x, ast.Attribute) and isinstance(x.ctx, ast.Load) and x.attr in tattr)
            if not (is_src or is_use):
                continue
            up = chain(x)
            stmt = next((u for u in up if isinstance(u, ast.stmt)), None)
            if stmt is None or id(stmt) in seen_stmt:
                continue
            ok, why = False, "value used in " + type(stmt).__name__
            if any(_is_log_call(u) for u in up):
                ok = True
            elif id(x) in handed_on or any(id(u) in handed_on for u in up):
                ok = True  # an argument of a repository function: the parameter is tainted and judged there
            elif isinstance(stmt, (ast.Assign, ast.AugAssign, ast.AnnAssign)):
                tg = [el for t in targets_of(stmt) for el in (t.elts if isinstance(t, (ast.Tuple, ast.List)) else [t])]
                ok = all(isinstance(el, ast.Name) or (isinstance(el, ast.Attribute) and isinstance(el.value, ast.Name) and el.value.id == "self") or "history" in unparse(el) for el in tg)
                why = f"stored into {[unparse(el) for el in tg]}"
            elif isinstance(stmt, ast.If) and any(x is y for y in ast.walk(stmt.test)):
                body = stmt.body + stmt.orelse
                ok = all(isinstance(b, ast.Pass) or (isinstance(b, ast.Expr) and _is_log_call(b.value)) for b in body)
                why = "decides a branch that does more than logging"
            seen_stmt.add(id(stmt))
            rep.check(rule, fi.qual, short(stmt), ok, what_bad=f"wall-clock / process-dependent value flows into something other than the history attribute or a log message ({why}): repeated runs differ", what_ok="history / log only", loc=fi.loc(stmt))


def _enclosing_stmt(fi: FuncInfo, node: ast.AST):
    best = None
    for st in ast.walk(fi.node):
        if isinstance(st, ast.stmt) and not isinstance(st, (ast.FunctionDef, ast.If, ast.For, ast.While, ast.With, ast.Try)):
            for x in ast.walk(st):
                if x is node:
                    best = st
    return best


def _sorted_use(fi: FuncInfo, stmt, call) -> bool:
    # wrapped anywhere up the expression (also in a `for ... in sorted(<glob>)` header): sorted(<glob>)
    for x in ast.walk(fi.node):
        if isinstance(x, ast.Call) and unparse(x.func) == "sorted" and any(y is call for a in x.args for y in ast.walk(a)):
            return True
    for x in ast.walk(stmt) if stmt is not None else []:
        if isinstance(x, ast.Call) and unparse(x.func) == "sorted" and any(y is call for a in x.args for y in ast.walk(a)):
            return True
    # assigned to a name whose every later use is sorted(name) / truth test / len
    if isinstance(stmt, ast.Assign) and isinstance(stmt.targets[0], ast.Name):
        name = stmt.targets[0].id
        uses = []
        for node in walk_no_nested(fi.node):
            if isinstance(node, ast.Name) and node.id == name and isinstance(node.ctx, ast.Load):
                uses.append(node)
        parents = {}
        for p in ast.walk(fi.node):
            for c in ast.iter_child_nodes(p):
                parents[id(c)] = p
        for u in uses:
            p = parents.get(id(u))
            if isinstance(p, ast.Call) and unparse(p.func) in ("sorted", "len", "bool") and u in p.args:
                continue
            if isinstance(p, ast.If) and p.test is u:
                continue
            return False
        return bool(uses)
    return False


def clock_access(prog: Program, rep: Report) -> None:
    rule = "R14.4"
    sites = [("forcing", "update"), ("forcing", "velocity"), ("forcing", "force_particles"), ("release", "update"), ("release", "__next__"), ("tracker", "update"), ("output", "update")]
    for role, meth in sites:
        fi = prog.role_func(role, meth)
        env = prog.type_env(fi)
        bad = []
        cnt = 0
        for node in walk_no_nested(fi.node):
            if isinstance(node, ast.Attribute) and (env.get(unparse(node.value)) == "time" or prog._expr_role(node.value, env) == "time"):
                cnt += 1
                if node.attr not in ("step", "dt", "dtsec"):
                    st = _enclosing_stmt(fi, node)
                    in_log = isinstance(st, ast.Expr) and isinstance(st.value, ast.Call) and unparse(st.value.func).split(".")[0] in ("logger", "logging")
                    if not in_log:
                        bad.append(node)
        rep.check(rule, fi.qual, f"clock read through the step number ({cnt} access(es))", not bad, what_bad=f"absolute time enters the per-step computation: {[unparse(b) for b in bad]} - shifting the whole set-up in time would change the result", what_ok="step / dt only", loc=fi.loc())


def fields_independent_of_particles(prog: Program, rep: Report) -> None:
    """R14.5: the gridded forcing (self.fields, file position) evolves independently of the particle list."""
    rule = "R14.5"
    fi = prog.lview(prog.role_func("forcing", "update"), keep=("_read_velocity", "_read_field", "_select_file"))
    env = prog.type_env(fi)
    part = set(statefx.local_state_aliases(prog, fi))  # X, Y, Z ...
    for node in walk_no_nested(fi.node):
        if isinstance(node, ast.Assign) and isinstance(node.targets[0], ast.Name) and (env.get(unparse(node.value)) == "state" or prog._expr_role(node.value, env) == "state"):
            part.add(node.targets[0].id)
    part |= {"state"}

    def mentions_particles(e: ast.AST) -> bool:
        for n in ast.walk(e):
            if isinstance(n, ast.Name) and n.id in part:
                return True
            if isinstance(n, ast.Attribute) and unparse(n) in ("self.K", "self.A"):
                return True
        return False

    def touches_fields(nodes) -> list:
        out = []
        for s in nodes:
            for n in ast.walk(s):
                if isinstance(n, (ast.Assign, ast.AugAssign)):
                    tg = n.targets if isinstance(n, ast.Assign) else [n.target]
                    for t in tg:
                        for tt in (t.elts if isinstance(t, ast.Tuple) else [t]):
                            if xunparse(tt, fi.node).startswith("self.fields["):
                                out.append(n)
                if isinstance(n, ast.Call) and unparse(n.func) in ("self._read_velocity", "self._read_field", "self.open_forcing_file", "self._select_file") and n not in out:
                    out.append(n)
        return out

    all_field_stmts = touches_fields(fi.node.body)
    if not all_field_stmts:
        raise AnalysisError("Forcing.update: no store to self.fields found")
    n = 0
    for node in walk_no_nested(fi.node):
        if isinstance(node, ast.If) and mentions_particles(node.test):
            n += 1
            inner = touches_fields(node.body + node.orelse)
            leaves = [x for s in node.body + node.orelse for x in ast.walk(s) if isinstance(x, (ast.Return, ast.Raise, ast.Break, ast.Continue))]
            later = [f for f in all_field_stmts if f.lineno > node.lineno]
            bad = bool(inner) or (bool(leaves) and bool(later))
            rep.check(rule, fi.qual, f"branch on the particle list: `{short(node.test, 60)}`", not bad, what_bad="the time evolution of the gridded fields (hand-over, increments, reads) is control-dependent on the particle list: a particle's forcing then depends on which other particles exist", what_ok="does not control the gridded fields", loc=fi.loc(node))
    for f in all_field_stmts:
        if isinstance(f, (ast.Assign, ast.AugAssign)):
            rep.check(rule, fi.qual, short(f, 80), not mentions_particles(f.value), what_bad="a gridded field is computed from per-particle values", what_ok="gridded values only", loc=fi.loc(f))
    # the early part of update (level lookup) and the final sampling may depend on particles; nothing else
    rep.ok(rule, fi.qual, f"{len(all_field_stmts)} field stores/reads, {n} branch(es) on particle data inspected", "", fi.loc())


def run(prog: Program, rep: Report, tier: str) -> None:
    rep.level = "other"
    rep.explanation = (
        "Effect analysis over the resolved call graph: per-particle caches of the forcing object (derived from assignments "
        "depending on particle positions) must not be used after a length-changing operation (append / compactify / warm start, "
        "closed over callees) on any path of Model.update or the warm block; kernels index per-particle arrays by the loop "
        "variable only; no cross-particle reduction on the numeric update path; clock, glob, RNG and set-iteration sites are "
        "enumerated and confined. Decides these structural clauses, not bit-for-bit equality of paired runs."
    )
    rep.assumptions = ["plug-in IBMs are per-particle and deterministic", "numpy element-wise operations are per-index independent"]
    rep.trusted_base = ["CPython ast", "role-typed call resolution (sa/program.py)", "sa/statefx.py, sa/words.py"]
    rep.rule("R14.1", "cache coherence: no length-changing call between the definition and a use of the forcing's per-particle caches", 3)
    rep.rule("R14.2", "per-index independence: kernels index per-particle arrays by the loop variable; no cross-particle reduction on the update path", 8)
    rep.rule("R14.3", "nondeterminism sources enumerated and confined (clock, glob, RNG, set iteration)", 8)
    rep.rule("R14.4", "per-step modules read the clock through step/dt only", 7)
    rep.rule("R14.6", "per-particle attributes of the tracker are recomputed in every step before they are read", 3)
    step_attribute_freshness(prog, rep, "R14.6", roles=("tracker", "forcing"))
    rep.rule("R14.12", "samplers of the grid and the forcing do not answer from a per-particle value memoised in an earlier call: an argument-derived attribute is stored on every path before it is read", 8)
    call_attribute_freshness(prog, rep, "R14.12")
    rep.rule("R14.7", "per-particle arrays paired element by element (arithmetic, masked stores, compiled kernels) are indexed by the same particle list: no particle is given another particle's level, metric or depth", 1)
    from . import align

    align.report(prog, rep, "R14.7", "a particle's update uses only its own rows")
    rep.rule("R14.5", "the gridded forcing fields evolve independently of the particle list (no control or data dependence)", 5)
    cache_coherence(prog, rep)
    kernel_independence(prog, rep)
    nondeterminism(prog, rep)
    clock_access(prog, rep)
    fields_independent_of_particles(prog, rep)
    from ..share import share

    share(prog, rep, "C06", ("R06.6",), "R14.8", "the row of a particle does not depend on deaths of other particles: compactification only under the sparse layout", 1, only=lambda o: "compactif" in o.construct or "call site" in o.construct)
    share(prog, rep, "C05", ("R05.2",), "R14.9", "a new particle's identifier does not depend on which other particles have died", 2, only=lambda o: "identifier" in o.construct or "npid" in o.construct or "counter" in o.construct)
    share(prog, rep, "C13", ("R13.7",), "R14.10", "shifting the set-up by whole steps shifts every instant by the same amount: no instant is truncated to a coarser unit", 4)



from ..selftest import Mut  # noqa: E402

RO = "ladim/ROMS.py"
TR = "ladim/tracker.py"
MO = "ladim/model.py"
ON = "ladim/out_netcdf.py"
RL = "ladim/release.py"
AUDIT = [
    Mut("advect-compressed-positions", TR, "            Uadv, Vadv = self.advect(X, Y, Z, force)\n", "            act = state.active\n            Uadv, Vadv = np.zeros_like(X), np.zeros_like(Y)\n            Uadv[act], Vadv[act] = self.advect(X[act], Y[act], Z[act], force)\n", rule="R14.7"),
    Mut("depth-of-live-subset", TR, "            h = grid.depth(X, Y)\n", "            h = grid.depth(X[state.alive], Y[state.alive])\n", rule="R14.7"),
    Mut("seabed-index-array", TR, "                below_seabed = Z > h\n", "                below_seabed = np.flatnonzero(Z > h)\n", expect="silent", rule="R14.7"),
    Mut("reflect-live-subset-consistently", TR, "                below_seabed = Z > h\n                Z[below_seabed] = 2 * h[below_seabed] - Z[below_seabed]\n", "                live = state.alive\n                Zl, hl = Z[live], h[live]\n                deep = Zl > hl\n                Zl[deep] = 2 * hl[deep] - Zl[deep]\n                Z[live] = Zl\n", expect="silent", rule="R14.7"),
    Mut("tri-neighbour-level", RO, "        k, a = K[n], A[n]\n", "        k, a = K[n - 1], A[n]\n", rule="R14.2"),
    Mut("rkstep-first-velocity", TR, "        Xp[i] = X[i] + frac * U[i] * dtdx[i]", "        Xp[i] = X[i] + frac * U[0] * dtdx[i]", rule="R14.2"),
    Mut("tracker-demean", TR, "            U += Uadv\n", "            U += Uadv - Uadv.mean()\n", rule="R14.2"),
    Mut("tracker-roll", TR, "        X1 = X + U * self.dt / self.dx\n", "        X1 = X + np.roll(U, 1) * self.dt / self.dx\n", rule="R14.2"),
    Mut("release-after-forcing", MO, "        self.release.update()\n        self.force.update()\n\n        # self.state.compactify()", "        self.force.update()\n        self.release.update()\n\n        # self.state.compactify()", rule="R14.1"),
    Mut("ibm-before-forcing-use", MO, "        self.tracker.update()\n        self.ibm.update()\n\n    def finish", "        self.state.compactify()\n        self.tracker.update()\n        self.ibm.update()\n\n    def finish", rule="R14.1"),
    Mut("glob-unsorted", RO, "    files = sorted(directory.glob(fname))", "    files = list(directory.glob(fname))", rule="R14.3"),
    Mut("v2-first-unsorted", "ladim/configure.py", "                filename = sorted(flist)[0]", "                filename = flist[0]", rule="R14.3"),
    Mut("today-in-filename", ON, "            self.filename = Path(filename)\n            self.numrec = 999999", "            self.filename = Path(str(filename) + str(date.today()))\n            self.numrec = 999999", rule="R14.3"),
    Mut("release-shuffle", RL, "        V0 = V0.repeat(V.mult)\n", "        V0 = V0.repeat(V.mult)\n        np.random.shuffle(V0)\n", rule="R14.3"),
    Mut("forcing-absolute-time", RO, '        step = self.modules["time"].step\n\n        # Local depth level', '        step = self.modules["time"].time2step(self.modules["time"].time)\n\n        # Local depth level', rule="R14.4"),
    Mut("forcing-skip-when-empty", RO, "        # Read from config?\n        interpolate_velocity_in_time = True", "        if len(X) == 0:\n            return\n        interpolate_velocity_in_time = True", rule="R14.5"),
    Mut("forcing-increment-if-particles", RO, "            if interpolate_velocity_in_time:\n                self.fields[\"u\"] += self.fields[\"dU\"]", "            if interpolate_velocity_in_time and len(X) > 0:\n                self.fields[\"u\"] += self.fields[\"dU\"]", rule="R14.5"),
    # compactifying before the forcing update repairs the cache cross-talk (R14.1) but, done for both layouts,
    # shifts the rows of the dense output when another particle dies: a violation of R14.8
    Mut("compactify-early-both-layouts", MO, "        self.release.update()\n        self.force.update()\n\n        # self.state.compactify()", "        self.release.update()\n        self.state.compactify()\n        self.force.update()\n\n        # self.state.compactify()", rule="R14.8"),
    Mut("clock-seeds-rng", "ladim/main.py", "    logger.info(\"Cleaning up\")\n    model.finish()", "    np.random.seed(wall_clock_start.microsecond)\n    logger.info(\"Cleaning up\")\n    model.finish()", rule="R14.3"),
    Mut("clock-through-attribute", TR, "        self.rng = np.random.default_rng()\n", "        import time\n        self._t0 = time.time()\n        self.rng = np.random.default_rng(int(self._t0))\n", rule="R14.3"),
    Mut("clock-decides-work", MO, "        self.release.update()\n        self.force.update()\n\n        # self.state.compactify()", "        import time\n        t = time.time()\n        self.release.update()\n        if t % 2 < 1:\n            self.force.update()\n\n        # self.state.compactify()", rule="R14.3"),
    Mut("benign-clock-attribute-logged", TR, "        self.rng = np.random.default_rng()\n", "        import time\n        self._t0 = time.perf_counter()\n        logger.debug('tracker set up at %s', self._t0)\n        self.rng = np.random.default_rng()\n", expect="silent"),
    Mut("metric-cached-across-steps", TR, "        self.dx, self.dy = grid.metric(X, Y)\n", "        if not hasattr(self, 'dx') or len(self.dx) != len(X):\n            self.dx, self.dy = grid.metric(X, Y)\n", rule="R14.6"),
    Mut("inactive-reset-under-any-guard", TR, "        state.alive[out_of_grid] = False\n        state.active[out_of_grid] = False  # Not necessary if they are removed\n\n        # Do not move inactive particles\n        inactive = ~state.active\n        X1[inactive] = X[inactive]\n        Y1[inactive] = Y[inactive]\n", "        if out_of_grid.any():\n            state.alive[out_of_grid] = False\n            state.active[out_of_grid] = False\n            inactive = ~state.active\n            X1[inactive] = X[inactive]\n            Y1[inactive] = Y[inactive]\n", rule="R14.2"),
    Mut("benign-kill-under-any-guard", TR, "        state.alive[out_of_grid] = False\n        state.active[out_of_grid] = False  # Not necessary if they are removed\n", "        if out_of_grid.any():\n            state.alive[out_of_grid] = False\n            state.active[out_of_grid] = False\n", expect="silent"),
    Mut("benign-log-time", RO, "        # Local depth level and interpolation coefficient", "        logger.debug('time %s', self.modules['time'].time)", expect="silent"),
]
