"""C20 - impossible set-ups are refused before the simulation starts.

Decided: every fault class of the property has a guard that (R20.2) compares the right operands,
(R20.1) terminates - a critical/error log is followed by a raise on all paths, (R20.3) sits on the
start-up call graph (configure or a role constructor) while records are written only from
Model.update, and (R20.4) is not swallowed by an enclosing handler.
Not decided: faults outside the listed classes; errors raised by libraries.
"""

from __future__ import annotations

import ast
from typing import Callable, Optional

from ..paths import enumerate_paths
from ..program import AnalysisError, FuncInfo, Program, unparse, short, walk_no_nested, bool_table, expand_locals, single_defs, xunparse, inline_helpers
from ..report import Report
from ..words import cmp_norm
from .. import statefx

ANCHORED = ("timekeeper", "ROMS", "release", "configure", "model", "warm_start", "out_netcdf", "state", "tracker", "main")


def parent_map(fn: ast.AST) -> dict[int, ast.AST]:
    pm = {}
    for p in ast.walk(fn):
        for c in ast.iter_child_nodes(p):
            pm[id(c)] = p
    return pm


def block_of(pm, node: ast.stmt):
    """(statement list that contains node, index, owner compound statement)."""
    p = pm.get(id(node))
    for attr in ("body", "orelse", "finalbody", "handlers"):
        lst = getattr(p, attr, None)
        if isinstance(lst, list) and node in lst:
            return lst, lst.index(node), p
    return None, None, p


def terminates_after(fi: FuncInfo, pm, stmt: ast.stmt) -> tuple[bool, str]:
    """On all paths from `stmt` the function is left by `raise` (before anything else runs on
    the normal path of an enclosing loop)."""
    cur = stmt
    while True:
        lst, i, owner = block_of(pm, cur)
        if lst is None:
            return False, "statement not found in a block"
        rest = lst[i + 1 :]
        paths = enumerate_paths(rest) if rest else None
        if paths:
            exits = {p.exit for p in paths}
            if exits <= {"raise"}:
                return True, "raise on all paths"
            if "return" in exits or "break" in exits or "continue" in exits:
                return False, f"a path leaves by {sorted(exits - {'raise'})}"
            # some path falls through: continue after the owner
        if isinstance(owner, (ast.FunctionDef, ast.Module)):
            return False, "falls off the end of the function"
        if isinstance(owner, (ast.For, ast.While)):
            return False, "falls back into the enclosing loop"
        if isinstance(owner, ast.ExceptHandler):
            cur = pm.get(id(owner))
            continue
        cur = owner


def guards_terminate(prog: Program, rep: Report) -> None:
    rule = "R20.1"
    n = 0
    for fi in prog.all_functions():
        if fi.module.name not in ANCHORED:
            continue
        pm = None
        for node in walk_no_nested(fi.node):
            if isinstance(node, ast.Expr) and isinstance(node.value, ast.Call) and isinstance(node.value.func, ast.Attribute) and node.value.func.attr in ("critical",):
                pm = pm or parent_map(fi.node)
                ok, why = terminates_after(fi, pm, node)
                n += 1
                rep.check(rule, fi.qual, short(node, 90), ok, what_bad=f"a critical error is logged but the run goes on: {why}", what_ok=why, loc=fi.loc(node))
            if isinstance(node, ast.Expr) and isinstance(node.value, ast.Call) and isinstance(node.value.func, ast.Attribute) and node.value.func.attr == "error" and unparse(node.value.func.value) in ("logger", "logging"):
                pm = pm or parent_map(fi.node)
                ok, why = terminates_after(fi, pm, node)
                n += 1
                rep.check(rule, fi.qual, short(node, 90), ok, what_bad=f"an error is logged but the run goes on: {why}", what_ok=why, loc=fi.loc(node))
    if n < 20:
        raise AnalysisError(f"only {n} critical/error log sites found (24 confirmed by hand)")


def find_ifs(fi: FuncInfo, pred: Callable[[ast.expr], bool]) -> list[ast.If]:
    return [n for n in walk_no_nested(fi.node) if isinstance(n, ast.If) and pred(n.test)]


def raises_in(node: ast.If) -> bool:
    return any(isinstance(x, ast.Raise) for s in node.body for x in ast.walk(s))


def guard(rep: Report, prog: Program, rule: str, fi: FuncInfo, name: str, ifs: list[ast.If], what_missing: str) -> None:
    pm = parent_map(fi.node)
    good = []
    for g in ifs:
        # the body must terminate
        r = [x for s in g.body for x in ast.walk(s) if isinstance(x, ast.Raise)]
        if not r:
            continue
        paths = enumerate_paths(g.body)
        if all(p.exit == "raise" for p in paths):
            good.append(g)
        else:
            # the raise may follow an inner if/else with logs: check termination from the last statement
            ok, _ = terminates_after(fi, pm, g.body[-1]) if g.body else (False, "")
            if ok:
                good.append(g)
    rep.check(rule, fi.qual, f"fault class: {name}", bool(good), what_bad=what_missing, what_ok=f"guarded at line {good[0].lineno}: `{short(good[0].test, 70)}`" if good else "", loc=fi.loc(good[0]) if good else fi.loc())


def position_guard(cp: FuncInfo):
    """A raise in clean_position that is reached exactly when (X or Y missing) and (lon or lat missing):
    path conditions of every raising path are and-ed and compared by truth table."""
    defs = single_defs(cp.node)

    def atom(n):
        if isinstance(n, ast.Compare) and len(n.ops) == 1 and isinstance(n.ops[0], (ast.In, ast.NotIn)) and isinstance(n.left, ast.Constant) and unparse(n.comparators[0]).endswith(".columns"):
            return (f"has_{n.left.value}", isinstance(n.ops[0], ast.NotIn))
        return None

    found = None
    for p in enumerate_paths(cp.node.body):
        if p.exit != "raise":
            continue
        if any(s[0] == "except" for s in p.steps):
            continue
        conds = []
        for t, taken in p.conds():
            e = expand_locals(t, cp.node, defs)
            conds.append(e if taken else ast.UnaryOp(op=ast.Not(), operand=e))
        if not conds:
            continue
        test = conds[0] if len(conds) == 1 else ast.BoolOp(op=ast.And(), values=conds)
        tb = bool_table(ast.fix_missing_locations(test), atom)
        if tb is None:
            continue
        atoms, table = tb
        if set(atoms) != {"has_X", "has_Y", "has_lat", "has_lon"}:
            continue
        ok = True
        for asg, val in table.items():
            d = dict(zip(atoms, asg))
            want = (not (d["has_X"] and d["has_Y"])) and (not (d["has_lon"] and d["has_lat"]))
            ok = ok and (val == want)
        if ok:
            found = p.exit_node.lineno
    return found is not None, found



class _NormUnknown(Exception):
    pass


def subgrid_normalisation(prog: Program, rep: Report, rule: str, gi, guards) -> None:
    """What the sanity check sees must be the configured limit itself (>= 0) or extent + limit (< 0):
    any other mapping (a modulo, a clip) turns some illegal specification into a legal one before the
    check looks at it. The statements between `limits = ...` and the check are evaluated on symbolic
    limits L0..L3 for all 16 sign combinations."""
    import itertools

    from ..nf import NF

    body = gi.node.body
    start = next((i for i, st in enumerate(body) if isinstance(st, (ast.Assign, ast.AnnAssign)) and unparse(st.targets[0] if isinstance(st, ast.Assign) else st.target) == "limits"), None)
    end = next((i for i, st in enumerate(body) if guards and st is guards[0]), None)
    if start is None or end is None or end <= start:
        rep.add(rule, gi.qual, "subgrid limits reach the sanity check unchanged (negative ones counted from the far edge)", None, "`limits = ...` followed by the sanity check was not found at the top level of Grid.__init__", gi.loc())
        return
    stmts = body[start + 1 : end]
    ext = {0: NF.atom("imax0"), 1: NF.atom("imax0"), 2: NF.atom("jmax0"), 3: NF.atom("jmax0")}
    problems, unknown = [], []
    for signs in itertools.product((True, False), repeat=4):  # True: limit >= 0
        raw = [NF.atom(f"L{k}") for k in range(4)]
        lim = list(raw)
        env: dict = {}

        def ev(e):
            if isinstance(e, ast.Constant) and isinstance(e.value, (int, float)) and not isinstance(e.value, bool):
                return NF.const(e.value)
            if isinstance(e, ast.Name):
                if e.id in env:
                    return env[e.id]
                if e.id in ("imax0", "jmax0"):
                    return NF.atom(e.id)
                raise _NormUnknown(e.id)
            if isinstance(e, ast.Subscript) and unparse(e.value) == "limits":
                i = ev(e.slice)
                if isinstance(i, int):
                    return lim[i]
                if isinstance(i, NF) and not i.atoms():
                    return lim[int(i.const_value())]
                raise _NormUnknown(unparse(e))
            if isinstance(e, ast.BinOp):
                a, b = ev(e.left), ev(e.right)
                if isinstance(a, int):
                    a = NF.const(a)
                if isinstance(b, int):
                    b = NF.const(b)
                if isinstance(e.op, ast.Add):
                    return a + b
                if isinstance(e.op, ast.Sub):
                    return a - b
                if isinstance(e.op, ast.Mod):
                    return NF.atom(f"mod({a.canon()};{b.canon()})")
                raise _NormUnknown(unparse(e))
            if isinstance(e, ast.IfExp):
                return ev(e.body) if test(e.test) else ev(e.orelse)
            if isinstance(e, ast.Call) and unparse(e.func) in ("int",) and len(e.args) == 1:
                return ev(e.args[0])
            raise _NormUnknown(unparse(e))

        def test(t):
            if isinstance(t, ast.Compare) and len(t.ops) == 1:
                a, b = ev(t.left), ev(t.comparators[0])
                a = NF.const(a) if isinstance(a, int) else a
                b = NF.const(b) if isinstance(b, int) else b
                for x, y, flip in ((a, b, False), (b, a, True)):
                    ks = [k for k in range(4) if x == raw[k]]
                    if ks and not y.atoms() and y == NF.const(0):
                        nonneg = signs[ks[0]]
                        op = type(t.ops[0])
                        if flip:
                            op = {ast.Lt: ast.Gt, ast.LtE: ast.GtE, ast.Gt: ast.Lt, ast.GtE: ast.LtE}.get(op, op)
                        if op is ast.Lt:
                            return not nonneg
                        if op is ast.GtE:
                            return nonneg
                raise _NormUnknown(unparse(t))
            if isinstance(t, ast.UnaryOp) and isinstance(t.op, ast.Not):
                return not test(t.operand)
            raise _NormUnknown(unparse(t))

        def indices(sl):
            if isinstance(sl, ast.Slice) and sl.step is None:
                lo = 0 if sl.lower is None else int(ast.literal_eval(sl.lower))
                hi = 4 if sl.upper is None else int(ast.literal_eval(sl.upper))
                return list(range(lo, hi))
            raise _NormUnknown("slice")

        def run(sts):
            for st in sts:
                if isinstance(st, (ast.Expr, ast.Pass)):
                    continue
                if isinstance(st, ast.For) and isinstance(st.target, ast.Name) and not st.orelse:
                    it_ = st.iter
                    if isinstance(it_, (ast.List, ast.Tuple)) and all(isinstance(x, ast.Constant) for x in it_.elts):
                        vals = [x.value for x in it_.elts]
                    elif isinstance(it_, ast.Call) and unparse(it_.func) == "range" and all(isinstance(a, ast.Constant) for a in it_.args):
                        vals = list(range(*[a.value for a in it_.args]))
                    else:
                        raise _NormUnknown(unparse(it_))
                    for v in vals:
                        env[st.target.id] = v
                        run(st.body)
                    continue
                if isinstance(st, ast.If):
                    run(st.body if test(st.test) else st.orelse)
                    continue
                if isinstance(st, ast.Assign) and len(st.targets) == 1:
                    t = st.targets[0]
                    if isinstance(t, ast.Subscript) and unparse(t.value) == "limits":
                        if isinstance(t.slice, ast.Slice):
                            idx = indices(t.slice)
                            v = st.value
                            if isinstance(v, ast.ListComp) and len(v.generators) == 1 and isinstance(v.generators[0].target, ast.Name) and not v.generators[0].ifs and isinstance(v.generators[0].iter, ast.Subscript) and unparse(v.generators[0].iter.value) == "limits" and indices(v.generators[0].iter.slice) == idx:
                                new = []
                                for k in idx:
                                    env[v.generators[0].target.id] = lim[k]
                                    new.append(ev(v.elt))
                                for k, nv in zip(idx, new):
                                    lim[k] = nv
                                continue
                            raise _NormUnknown(short(st))
                        i = ev(t.slice)
                        lim[i if isinstance(i, int) else int(i.const_value())] = ev(st.value)
                        continue
                    if isinstance(t, ast.Name) and t.id != "limits":
                        try:
                            env[t.id] = ev(st.value)
                        except _NormUnknown:
                            env.pop(t.id, None)  # a temporary that does not feed the limits (e.g. limits_ok = ...)
                        continue
                    raise _NormUnknown(short(st))
                if isinstance(st, ast.AugAssign) and isinstance(st.target, ast.Subscript) and unparse(st.target.value) == "limits" and isinstance(st.op, ast.Add):
                    i = ev(st.target.slice)
                    i = i if isinstance(i, int) else int(i.const_value())
                    lim[i] = lim[i] + ev(st.value)
                    continue
                raise _NormUnknown(short(st))

        try:
            run(stmts)
        except _NormUnknown as e:
            unknown.append(str(e))
            continue
        except Exception as e:  # noqa: BLE001
            unknown.append(f"{type(e).__name__}: {e}")
            continue
        for k in range(4):
            want = raw[k] if signs[k] else ext[k] + raw[k]
            if not (isinstance(lim[k], NF) and lim[k] == want):
                problems.append(f"limit {k} ({'>= 0' if signs[k] else '< 0'}) reaches the check as {lim[k]}, must be {want}")
    label = "subgrid limits reach the sanity check unchanged (negative ones counted from the far edge)"
    if problems:
        rep.bad(rule, gi.qual, label, "; ".join(sorted(set(problems))[:3]) + ": an out-of-range limit can be mapped onto a legal one before the check sees it, and the run starts on another subgrid", gi.loc(stmts[0]) if stmts else gi.loc())
    elif unknown:
        rep.add(rule, gi.qual, label, None, f"normalisation outside the evaluator: {unknown[0]}", gi.loc())
    else:
        rep.ok(rule, gi.qual, label, "16 sign combinations", gi.loc())


def fault_table(prog: Program, rep: Report) -> None:
    rule = "R20.2"
    # (a) missing start / stop / dt
    from ..program import unroll_literal_loops

    from ..program import reading_view

    tk = reading_view(prog, prog.role_func("time", "__init__"))  # table-driven checks read like repeated ifs, named tests like their definition
    params = [p for p in tk.params if p not in ("self", "modules")]
    for want in ("start", "stop", "dt"):
        if want not in params:
            raise AnalysisError(f"TimeKeeper.__init__: parameter {want} not found")
        ifs = find_ifs(tk, lambda t, w=want: (isinstance(t, ast.UnaryOp) and isinstance(t.op, ast.Not) and unparse(t.operand) == w) or unparse(t) in (f"{w} is None", f"{w} == ''", f"{w} == 0", f"{w} in ('', None)"))
        guard(rep, prog, rule, tk, f"missing {want}", ifs, f"no guard refuses an empty/zero `{want}`: the run starts with a meaningless clock")
    # (b) direction
    ifs = find_ifs(tk, lambda t: "time_reversal" in unparse(t) and "duration" in unparse(t) and isinstance(t, ast.Compare) and isinstance(t.ops[0], ast.NotEq))
    ok_operand = False
    for g in ifs:
        # the flag is compared with (duration < 0), whichever of the two stands on the left
        for side in (g.test.left, g.test.comparators[0]):
            n = cmp_norm(side) if isinstance(side, ast.Compare) else None
            if n and n[0] == "duration" and n[1] == "<":
                ok_operand = True
    guard(rep, prog, rule, tk, "stop on the wrong side of start for the chosen direction", ifs if ok_operand else [], "no guard `time_reversal != (stop - start < 0)`")
    dur = [n for n in walk_no_nested(tk.node) if isinstance(n, ast.Assign) and unparse(n.targets[0]) == "duration"]
    rep.check(rule, tk.qual, "duration = stop - start", bool(dur) and unparse(dur[0].value) == "self.stop_time - self.start_time", what_bad=f"duration is {unparse(dur[0].value) if dur else None}", what_ok="stop - start", loc=tk.loc())
    # (c) coverage
    fs = prog.func("ROMS.forcing_steps")
    defs = {unparse(n.targets[0]): unparse(n.value) for n in walk_no_nested(fs.node) if isinstance(n, ast.Assign) and isinstance(n.targets[0], ast.Name)}
    def frame_of(name):
        v = defs.get(name, "")
        if v.startswith("all_frames[0]"):
            return "first"
        if v.startswith("all_frames[-1]"):
            return "last"
        return None
    def cov(which, tattr, op_ok):
        def pred(t):
            n = cmp_norm(t)
            if not n:
                return False
            l, op, r = n
            flip = {"<": ">", "<=": ">=", ">": "<", ">=": "<="}
            if r.endswith(tattr) and frame_of(l) == which:
                return op in op_ok
            if l.endswith(tattr) and frame_of(r) == which:
                return flip.get(op) in op_ok
            return False
        return pred
    guard(rep, prog, rule, fs, "forcing starts after the earliest simulated time", find_ifs(fs, cov("first", ".min_time", (">",))), "no guard compares the first forcing frame with timer.min_time using `>`: the run would extrapolate before the first frame")
    guard(rep, prog, rule, fs, "forcing ends before the latest simulated time", find_ifs(fs, cov("last", ".max_time", ("<",))), "no guard compares the last forcing frame with timer.max_time using `<`: the run would run on with stale data after the last frame")
    mm = {unparse(n.targets[0]): unparse(n.value) for n in walk_no_nested(tk.node) if isinstance(n, ast.Assign) and unparse(n.targets[0]) in ("self.min_time", "self.max_time")}
    rep.check(rule, tk.qual, "min_time / max_time are min / max of start and stop", mm.get("self.min_time") == "min(self.start_time, self.stop_time)" and mm.get("self.max_time") == "max(self.start_time, self.stop_time)", what_bad=f"{mm}", what_ok="ok", loc=tk.loc())
    # (d) frame order
    from ..program import reading_view as _rv

    sc = _rv(prog, prog.func("ROMS.scan_file_times"))
    order = None
    for n in walk_no_nested(sc.node):
        if isinstance(n, ast.Compare) and len(n.ops) == 1:
            l, r = unparse(n.left), unparse(n.comparators[0])
            if l.endswith("[1:]") and r.endswith("[:-1]") and l[:-4] == r[:-5]:
                order = (n, type(n.ops[0]).__name__, "later-vs-earlier")
            if l.endswith("[:-1]") and r.endswith("[1:]") and l[:-5] == r[:-4]:
                order = (n, type(n.ops[0]).__name__, "earlier-vs-later")
    ok = order is not None and ((order[2] == "later-vs-earlier" and order[1] == "LtE") or (order[2] == "earlier-vs-later" and order[1] == "GtE"))
    rep.check(rule, sc.qual, "frame order test is non-strict (duplicates count as out of order)", ok, what_bad=f"adjacent frames are compared with {order[1] if order else 'nothing'}: frames duplicated across files would pass and make the step tables ambiguous", what_ok="frames[1:] <= frames[:-1]", loc=sc.loc(order[0]) if order else sc.loc())
    mask_name = None
    for n in walk_no_nested(sc.node):
        if isinstance(n, ast.Assign) and order and any(x is order[0] for x in ast.walk(n.value)):
            mask_name = unparse(n.targets[0])
    masks = [m_ for m_ in (mask_name, unparse(order[0]) if order else None, f"({unparse(order[0])})" if order else None) if m_]
    any_forms = {f for m_ in masks for f in (f"np.any({m_})", f"{m_}.any()", f"any({m_})", f"np.any({m_.strip('()')})")}
    guard(rep, prog, rule, sc, "forcing frames out of order or duplicated", find_ifs(sc, lambda t: unparse(t) in any_forms), "the out-of-order mask is never tested")
    # all files are scanned: frames.extend inside the loop over files
    ext = [n for n in walk_no_nested(sc.node) if isinstance(n, ast.For) and unparse(n.iter) == "files" and any(isinstance(x, ast.Call) and unparse(x.func).endswith(".extend") for x in ast.walk(n))]
    rep.check(rule, sc.qual, "frames of all files are collected before the order test", bool(ext), what_bad="frames are not accumulated over all files", what_ok="extend per file", loc=sc.loc())
    # (e) empty release window
    rl = __import__("sa.program", fromlist=["release_init_view"]).release_init_view(prog)
    empties = find_ifs(rl, lambda t: "len(self._df) == 0" in unparse(t))
    after_stop = [g for g in empties if unparse(g.test) == "len(self._df) == 0"]
    after_start = [g for g in empties if "warm_start_file" in unparse(g.test)]
    stop_filters = [n for n in walk_no_nested(rl.node) if isinstance(n, ast.Assign) and "stop_time" in unparse(n.value) and unparse(n.targets[0]) == "self._df"]
    start_filters = [n for n in walk_no_nested(rl.node) if isinstance(n, ast.Assign) and "self.start_time]" in unparse(n.value) and unparse(n.targets[0]) == "self._df"]
    guard(rep, prog, rule, rl, "no release before the stop time", [g for g in after_stop if stop_filters and g.lineno > max(f.lineno for f in stop_filters)], "no `len(self._df) == 0` guard after the stop-time filter")
    guard(rep, prog, rule, rl, "no release inside the window (cold start)", [g for g in after_start if start_filters and g.lineno > max(f.lineno for f in start_filters)], "no `len(self._df) == 0 and not warm_start_file` guard after the start-time filter")
    for g in after_start:
        conj = {unparse(v) for v in (g.test.values if isinstance(g.test, ast.BoolOp) and isinstance(g.test.op, ast.And) else [g.test])}
        rep.check(rule, rl.qual, short(g.test), conj == {"len(self._df) == 0", "not warm_start_file"}, what_bad="only a warm start may begin with an empty release table", what_ok="cold start only", loc=rl.loc(g))
    guard(rep, prog, rule, rl, "missing release file name", find_ifs(rl, lambda t: unparse(t) in ("release_file == ''", "not release_file")), "an empty release file name is not refused")
    # (f) missing position
    cp = prog.role_func("release", "clean_position")
    ok_pos, where = position_guard(cp)
    rep.check(rule, cp.qual, "fault class: release rows without a position", ok_pos, what_bad="no guard stops the run exactly when (X or Y missing) and (lon or lat missing)", what_ok=f"guarded at line {where}" if where else "", loc=cp.loc())
    called = any(isinstance(n, ast.Call) and unparse(n.func) == "self.clean_position" for n in walk_no_nested(rl.node))
    rep.check(rule, rl.qual, "clean_position is called by the constructor", called, what_bad="the position guard is never executed at start-up", what_ok="called", loc=rl.loc())
    # (g) missing files
    def handler_guard(fi, exc_names, call_pat, name):
        ok = False
        where = None
        for n in walk_no_nested(fi.node):
            if isinstance(n, ast.Try) and any(call_pat in unparse(s) for s in n.body):
                for h in n.handlers:
                    hn = unparse(h.type) if h.type is not None else ""
                    if any(e in hn for e in exc_names) and any(isinstance(x, ast.Raise) for x in ast.walk(h)):
                        paths = enumerate_paths(h.body)
                        if all(p.exit == "raise" for p in paths):
                            ok, where = True, h
        rep.check(rule, fi.qual, f"fault class: {name}", ok, what_bad=f"no handler turns a failed `{call_pat}` into a stop", what_ok=f"except {unparse(where.type)} -> raise" if where else "", loc=fi.loc(where) if where else fi.loc())
    handler_guard(prog.role_func("grid", "__init__"), ("OSError", "FileNotFoundError"), "Dataset(", "missing grid file")
    handler_guard(prog.func("release.ParticleReleaser.read_release_file"), ("FileNotFoundError", "OSError"), "read_csv(", "missing release file")
    handler_guard(prog.func("release.ParticleReleaser.read_release_file"), ("ValueError",), "read_csv(", "unreadable release file")
    handler_guard(prog.func("configure.configure_v2"), ("FileNotFoundError", "OSError"), "Dataset(", "missing warm start file (configuration)")
    handler_guard(prog.func("warm_start.warm_start"), ("FileNotFoundError", "OSError"), "Dataset(", "missing warm start file")
    fo = prog.role_func("forcing", "__init__")
    from ..program import emptiness_subject

    guard(rep, prog, rule, fo, "missing forcing files", find_ifs(fo, lambda t: "files" in (emptiness_subject(t, fo.node) or "")), "no guard refuses an empty list of forcing files")
    cf = inline_helpers(prog, prog.func("configure.configure"))
    guard(rep, prog, rule, cf, "missing configuration file", find_ifs(cf, lambda t: unparse(t) in ("not confile.exists()", "not confile.is_file()")), "a missing configuration file is not refused")
    handler_guard(cf, ("TOMLDecodeError",), "tomli.load(", "invalid TOML configuration")
    handler_guard(cf, ("YAMLError",), "safe_load(", "invalid YAML configuration")
    # (h) mandatory sections
    c2 = prog.func("configure.configure_v2")
    handler_guard(cf, ("KeyError",), "configure_v2(", "missing mandatory section (KeyError -> stop)")
    for sec in ("time", "tracker", "release", "output", "forcing"):
        hard = []
        for n in walk_no_nested(c2.node):
            if isinstance(n, ast.Subscript) and unparse(n.value) == "config" and isinstance(n.slice, ast.Constant) and n.slice.value == sec and isinstance(n.ctx, ast.Load):
                hard.append(n)
        defaulted = any(isinstance(n, ast.If) and unparse(n.test) == f"'{sec}' not in config" for n in walk_no_nested(c2.node))
        rep.check(rule, c2.qual, f"mandatory section {sec!r} is dereferenced (KeyError if missing)", bool(hard) and not defaulted, what_bad=f"section {sec!r} is {'defaulted' if defaulted else 'never subscripted'}: a configuration without it starts anyway", what_ok=f"config[{sec!r}]", loc=c2.loc())
    disp = [n for n in walk_no_nested(cf.node) if isinstance(n, ast.If) and "version" in unparse(n.test) and "'2'" in unparse(n.test)]
    okv = False
    for n in disp:
        tail = n.orelse
        while len(tail) == 1 and isinstance(tail[0], ast.If):
            tail = tail[0].orelse
        if tail and all(p.exit == "raise" for p in enumerate_paths(tail)):
            okv = True
    rep.check(rule, cf.qual, "fault class: unknown configuration version", okv, what_bad="the version dispatch has no final else-branch that stops", what_ok="else: critical + raise", loc=cf.loc())
    # (i) subgrid bounds
    gi = prog.lview(prog.role_func("grid", "__init__"))
    def chain_atom(n):
        """1 <= limits[0] < limits[1] <= imax0 - 1 -> "A"; the j-chain -> "B" (split chains are and-ed leaves)."""
        if isinstance(n, ast.Compare):
            parts = [unparse(n.left)] + [unparse(x) for x in n.comparators]
            ops = [type(o).__name__ for o in n.ops]
            if parts == ["1", "limits[0]", "limits[1]", "imax0 - 1"] and ops == ["LtE", "Lt", "LtE"]:
                return "A"
            if parts == ["1", "limits[2]", "limits[3]", "jmax0 - 1"] and ops == ["LtE", "Lt", "LtE"]:
                return "B"
        return None

    sg = []
    for g in [n for n in walk_no_nested(gi.node) if isinstance(n, ast.If) and "limits[0]" in xunparse(n.test, gi.node) and "limits[2]" in xunparse(n.test, gi.node)]:
        tb = bool_table(expand_locals(g.test, gi.node), chain_atom)
        okc = tb is not None and tb[0] == ["A", "B"] and all(val == (not (asg[0] and asg[1])) for asg, val in tb[1].items())
        rep.check(rule, gi.qual, "subgrid test is true exactly when not (1 <= i0 < i1 <= imax-1 and 1 <= j0 < j1 <= jmax-1)", okc, what_bad=f"test is `{short(g.test, 120)}`: every legal subgrid lies strictly inside the rho grid with at least one cell on both axes", what_ok="both axes, interior cells only", loc=gi.loc(g))
        if okc:
            sg.append(g)
    guard(rep, prog, rule, gi, "illegal subgrid", sg, "no sanity check of the subgrid limits that stops the run")
    subgrid_normalisation(prog, rep, rule, gi, sg)
    shp = [n for n in walk_no_nested(gi.node) if isinstance(n, ast.Assign) and unparse(n.targets[0]) in ("(jmax0, imax0)", "jmax0, imax0")]
    rep.check(rule, gi.qual, "jmax0, imax0 = shape of h (y first)", len(shp) == 1, what_bad="grid extent unpacked in the wrong order", what_ok="ok", loc=gi.loc())


def startup_reachability(prog: Program, rep: Report) -> None:
    rule = "R20.3"
    roots = [prog.func("configure.configure")]
    for role in prog.role_class:
        try:
            roots.append(prog.role_func(role, "__init__"))
        except AnalysisError:
            pass
    roots.append(prog.view("model.Model.__init__"))
    reach = prog.reachable(roots)
    # every function holding a critical log is reachable at start-up
    for fi in prog.all_functions():
        if fi.module.name not in ANCHORED or fi.module.name == "main":
            continue
        has = any(isinstance(n, ast.Call) and isinstance(n.func, ast.Attribute) and n.func.attr == "critical" for n in walk_no_nested(fi.node))
        if has:
            rep.check(rule, fi.qual, "guard function is on the start-up call graph", fi.qual in reach, what_bad="the guard is only reachable from the time loop (or not at all): the fault is detected after output has been written", what_ok="reachable from configure / a constructor", loc=fi.loc())
    # records are written only from Model.update
    wr = prog.role_func("output", "write")
    rep.check(rule, wr.qual, "no record is written during start-up", wr.qual not in reach, what_bad="Output.write is reachable from a constructor / configure: a record may exist before a later guard stops the run", what_ok="reachable from Model.update only", loc=wr.loc())
    rep.check(rule, "model.Model.__init__", "output is constructed last", prog.role_order and prog.role_order[-1] == "output", what_bad=f"construction order {prog.role_order}: the output file is created before a later constructor can refuse the set-up", what_ok="last", loc="ladim/model.py")
    # main: configure and Model() precede the loop (R19.2) - reuse
    mn = inline_helpers(prog, prog.func("main.main"))
    order = [unparse(n.func) for n in walk_no_nested(mn.node) if isinstance(n, ast.Call) and unparse(n.func) in ("configure", "Model", "model.update", "model.finish")]
    rep.check(rule, mn.qual, "main: configure, Model, then the time loop", order[:3] == ["configure", "Model", "model.update"], what_bad=f"order {order}", what_ok="ok", loc=mn.loc())


def not_swallowed(prog: Program, rep: Report) -> None:
    rule = "R20.4"
    n = 0
    for fi in prog.all_functions():
        if fi.module.name not in ANCHORED:
            continue
        for node in walk_no_nested(fi.node):
            if isinstance(node, ast.ExceptHandler):
                n += 1
                t = unparse(node.type) if node.type is not None else "<bare>"
                broad = node.type is None or any(k in t for k in ("BaseException", "SystemExit"))
                exc_any = "Exception" in t.replace("BaseException", "") and "Exception" == t.strip("()").split(",")[0].strip()
                reraises = all(p.exit == "raise" for p in enumerate_paths(node.body))
                ok = not broad and (not exc_any or reraises)
                rep.check(rule, fi.qual, f"except {t}", ok, what_bad=f"handler `except {t}` can swallow the SystemExit of a start-up guard (re-raises on all paths: {reraises})", what_ok="specific exception" if not exc_any else "re-raises", loc=fi.loc(node))
            if isinstance(node, ast.With):
                for it in node.items:
                    if "suppress" in unparse(it.context_expr) and any(k in unparse(it.context_expr) for k in ("SystemExit", "BaseException", "Exception")):
                        rep.bad(rule, fi.qual, short(it.context_expr), "contextlib.suppress swallows the stop", fi.loc(node))
    if n < 8:
        raise AnalysisError(f"only {n} exception handlers found")


def run(prog: Program, rep: Report, tier: str) -> None:
    rep.level = "other"
    rep.explanation = (
        "For each fault class of the property a guard is located by the operands of its condition (not by text), its body "
        "must leave the function by raise on all paths, the guard's function must be reachable from configure or a role "
        "constructor in the resolved call graph while Output.write is reachable only from Model.update, and no enclosing "
        "handler may swallow SystemExit. Decides presence, operands, termination and placement of the guards; not faults "
        "outside the listed classes."
    )
    rep.assumptions = ["SystemExit propagates to the caller of main (no handler in main)", "library calls raise on missing/unreadable files (OSError/FileNotFoundError/ValueError)"]
    rep.trusted_base = ["CPython ast", "resolved call graph (sa/program.py)", "sa/paths.py"]
    rep.rule("R20.1", "every critical/error log is followed by a raise on all paths", 20)
    rep.rule("R20.2", "fault-class table: each listed fault has a terminating guard with the right operands", 30)
    rep.rule("R20.3", "guards are reachable at start-up; records are written only from Model.update; output constructed last", 8)
    rep.rule("R20.4", "no handler swallows the stop", 8)
    guards_terminate(prog, rep)
    fault_table(prog, rep)
    startup_reachability(prog, rep)
    not_swallowed(prog, rep)


from ..selftest import Mut  # noqa: E402

TK = "ladim/timekeeper.py"
RO = "ladim/ROMS.py"
RL = "ladim/release.py"
CF = "ladim/configure.py"
MO = "ladim/model.py"
AUDIT = [
    Mut("no-raise-missing-dt", TK, '            logger.critical("Missing time step, dt")\n            raise SystemExit(3)', '            logger.critical("Missing time step, dt")', rule="R20"),
    Mut("direction-guard-removed", TK, "        if time_reversal != (duration < np.timedelta64(0)):", "        if False:", rule="R20.2"),
    Mut("direction-duration-sign", TK, "        duration = self.stop_time - self.start_time", "        duration = self.start_time - self.stop_time", rule="R20.2"),
    Mut("coverage-wrong-bound", RO, "    if time0 > timer.min_time:", "    if time0 > timer.max_time:", rule="R20.2"),
    Mut("coverage-end-removed", RO, '    if time1 < timer.max_time:\n        logger.critical("No forcing at maximum time")\n        raise SystemExit(3)\n', "", rule="R20.2"),
    Mut("coverage-end-first-frame", RO, '    time1 = all_frames[-1].astype("M8[s]")', '    time1 = all_frames[0].astype("M8[s]")', rule="R20.2"),
    Mut("order-strict", RO, "    I = all_frames[1:] <= all_frames[:-1]", "    I = all_frames[1:] < all_frames[:-1]", rule="R20.2"),
    Mut("order-warn-only", RO, '        logger.critical("Forcing time frames not strictly sorted")\n        raise SystemExit(4)', '        logger.critical("Forcing time frames not strictly sorted")', rule="R20"),
    Mut("empty-window-accepted", RL, '        if len(self._df) == 0 and not warm_start_file:\n            logger.critical("All particles released before simulation start")\n            raise SystemExit(3)\n', "", rule="R20.2"),
    Mut("empty-after-stop-accepted", RL, '        if len(self._df) == 0:  # All release after simulation time\n            logger.critical("All particles released after simulation stop")\n            raise SystemExit(3)\n', "", rule="R20.2"),
    Mut("position-and", RL, '            if "lon" not in df.columns or "lat" not in df.columns:', '            if "lon" not in df.columns and "lat" not in df.columns:', rule="R20.2"),
    Mut("no-forcing-files-accepted", RO, '        if numfiles == 0:\n            logger.error("No forcing file: %s", filename)\n            raise SystemExit(3)\n', "", rule="R20.2"),
    Mut("grid-open-swallowed", RO, '        except OSError as err:\n            logger.critical("Could not open grid file %s", filename)\n            raise SystemExit(1) from err', '        except OSError as err:\n            logger.critical("Could not open grid file %s", filename)', rule="R20"),
    Mut("subgrid-limits-modulo", RO, "        for i in [0, 1]:\n            if limits[i] < 0:\n                limits[i] = imax0 + limits[i]\n        for i in [2, 3]:\n            if limits[i] < 0:\n                limits[i] = jmax0 + limits[i]\n", "        limits[:2] = [i % imax0 for i in limits[:2]]\n        limits[2:] = [j % jmax0 for j in limits[2:]]\n", rule="R20.2"),
    Mut("subgrid-negative-wrong-extent", RO, "                limits[i] = jmax0 + limits[i]\n", "                limits[i] = imax0 + limits[i]\n", rule="R20.2"),
    Mut("benign-subgrid-comprehension", RO, "        for i in [0, 1]:\n            if limits[i] < 0:\n                limits[i] = imax0 + limits[i]\n        for i in [2, 3]:\n            if limits[i] < 0:\n                limits[i] = jmax0 + limits[i]\n", "        limits[:2] = [i + imax0 if i < 0 else i for i in limits[:2]]\n        limits[2:] = [j + jmax0 if j < 0 else j for j in limits[2:]]\n", expect="silent"),
    Mut("subgrid-le", RO, "        if (not 1 <= limits[0] < limits[1] <= imax0 - 1) or (", "        if (not 1 <= limits[0] <= limits[1] <= imax0 - 1) or (", rule="R20.2"),
    Mut("subgrid-and", RO, "        if (not 1 <= limits[0] < limits[1] <= imax0 - 1) or (\n            not 1 <= limits[2] < limits[3] <= jmax0 - 1\n        ):", "        if (not 1 <= limits[0] < limits[1] <= imax0 - 1) and (\n            not 1 <= limits[2] < limits[3] <= jmax0 - 1\n        ):", rule="R20.2"),
    Mut("tracker-section-defaulted", CF, '    # tracker is mandatory, raise KeyError if missing\n    if config["tracker"] is None:', '    if "tracker" not in config:\n        config["tracker"] = dict()\n    if config["tracker"] is None:', rule="R20.2"),
    Mut("keyerror-swallowed", CF, '        except KeyError as err:\n            logger.critical("Missing key %s in configuration file", err)\n            raise SystemExit(3) from err', '        except KeyError as err:\n            logger.critical("Missing key %s in configuration file", err)', rule="R20"),
    Mut("init-module-swallows", MO, "        for name in module_names:\n            self.modules[name] = init_module(name, config[name], self.modules)", "        for name in module_names:\n            try:\n                self.modules[name] = init_module(name, config[name], self.modules)\n            except BaseException:\n                self.modules[name] = None", rule="R20.4"),
    Mut("output-before-ibm", MO, '            "ibm",\n            "output",\n        ]', '            "output",\n            "ibm",\n        ]', rule="R20.3"),
    Mut("benign-reword", TK, 'logger.critical("Missing start time")', 'logger.critical("No start time given")', expect="silent"),
    Mut("benign-coverage-flipped", RO, "    if time0 > timer.min_time:", "    if timer.min_time < time0:", expect="silent"),
    Mut("benign-exit-code", RO, "        raise SystemExit(4)", "        raise SystemExit(5)", expect="silent"),
]
