"""C09 - particles stay in the water inside the domain; the dead stay dead.

Inductive invariant: alive => ingrid(X, Y) and atsea(X, Y) and finite.  Decided by exhaustive case
analysis of the abstract value Tracker.update stores (every combination of: candidate in grid?,
particle active?, land test true/false), plus writer enumeration for alive and positions.
"""

from __future__ import annotations

import ast
from itertools import product

from ..interp import Interp, Phi, Ref, Tup, vtext
from ..nf import NF
from ..nfdomain import NFDomain
from ..program import AnalysisError, Program, unparse, short, walk_no_nested
from ..report import Report
from .. import roms, statefx
from .c01 import update_normal_form, moved_arm


class CaseEval:
    """Evaluate masks / Phi trees under a truth assignment of the base predicates."""

    def __init__(self, dom: NFDomain, assign: dict[str, bool]):
        self.dom = dom
        self.assign = assign
        self.queried: list[str] = []

    def truth(self, v):
        if isinstance(v, bool):
            return v
        if isinstance(v, Phi):
            c = self.truth(v.cond) if v.cond is not None else None
            if c is None:
                return None
            return self.truth(v.a if c else v.b)
        if isinstance(v, Ref):
            v = NF.atom(v.path)
        if isinstance(v, NF):
            if v.is_const():
                return v.const_value() != 0
            name = v.canon()
            info = self.dom.bool_info.get(name)
            if info is not None:
                if info[0] == "not":
                    t = self.truth(info[1])
                    return None if t is None else not t
                if info[0] in ("and", "or"):
                    a, b = self.truth(info[1]), self.truth(info[2])
                    if a is None or b is None:
                        return None
                    return (a and b) if info[0] == "and" else (a or b)
                if info[0] == "pred":
                    self.queried.append(name)
                    return self.assign.get(name)
            if name in self.assign:
                return self.assign[name]
        return None

    def value(self, v):
        while isinstance(v, Phi):
            c = self.truth(v.cond) if v.cond is not None else None
            if c is None:
                return v
            v = v.a if c else v.b
        return v


def case_analysis(prog: Program, rep: Report) -> None:
    rule = "R09.1"
    fi = prog.func("tracker.Tracker.update")
    for diff in (False, True):
        flags = dict(advection=True, diffusion=diff, vertdiff=False, vertical_advection=False)
        it, fr, draws = update_normal_form(prog, flags)
        dom: NFDomain = it.dom_ref
        X, Y = NF.atom("X"), NF.atom("Y")
        sx, sy = it.objenv.get("state.X"), it.objenv.get("state.Y")
        mx, _ = moved_arm(sx, X)
        my, _ = moved_arm(sy, Y)
        tag = f"diffusion {'on' if diff else 'off'}"
        if not (isinstance(mx, NF) and isinstance(my, NF)):
            rep.bad(rule, fi.qual, f"stored position ({tag})", f"cannot isolate the candidate position: {vtext(mx)[:80]}", fi.loc())
            continue
        preds = {n: info for n, info in dom.bool_info.items() if info[0] == "pred"}
        ingrids = [n for n, i in preds.items() if i[1] == "ingrid"]
        seas = [n for n, i in preds.items() if i[1] in ("atsea", "onland")]
        rep.check(rule, fi.qual, f"grid test on the raw candidate ({tag})", len(ingrids) == 1 and [vtext(a) for a in preds[ingrids[0]][2]] == [mx.canon(), my.canon()], what_bad=f"ingrid must be evaluated once, on the candidate (X + U*dt/dx, Y + V*dt/dy); got {[(n[:60]) for n in ingrids]}", what_ok="ingrid(X1, Y1)", loc=fi.loc())
        if len(ingrids) != 1:
            continue
        ig = ingrids[0]
        rep.check(rule, fi.qual, f"land test present ({tag})", len(seas) >= 1, what_bad="no atsea/onland test of the candidate", what_ok=f"{len(seas)} call(s)", loc=fi.loc())
        alive_v, active_v = it.objenv.get("state.alive"), it.objenv.get("state.active")
        n_cases = 0
        for in_grid, active in product((True, False), repeat=2):
            for sea_vals in product((True, False), repeat=len(seas)):
                assign = {ig: in_grid, "state.active": active, "state.alive": True}
                for n, t in zip(seas, sea_vals):
                    # onland(x) is the negation of atsea(x)
                    assign[n] = t
                ce = CaseEval(dom, assign)
                fx, fy = ce.value(sx), ce.value(sy)
                desc = f"in grid={in_grid}, active={active}, land tests={list(sea_vals)} ({tag})"
                n_cases += 1
                # which land test looks at the candidate in this case?
                def sea_true(name):
                    info = preds[name]
                    return assign[name] if info[1] == "atsea" else not assign[name]
                cand_tests = []
                for n in seas:
                    args = [ce.value(a) for a in preds[n][2]]
                    a0, a1 = (it.num(args[0]) if not isinstance(args[0], Phi) else args[0]), (it.num(args[1]) if not isinstance(args[1], Phi) else args[1])
                    raw = isinstance(a0, NF) and isinstance(a1, NF) and a0 == mx and a1 == my
                    old = isinstance(a0, NF) and isinstance(a1, NF) and a0 == X and a1 == Y
                    if not (raw or old):
                        rep.bad("R09.2", fi.qual, f"land test arguments, {desc}", f"atsea is evaluated at the mixed position ({vtext(a0)[:50]}, {vtext(a1)[:50]}): x and y must be restored together", fi.loc(preds[n][3]))
                    if raw and not in_grid:
                        rep.bad(rule, fi.qual, f"land test on a candidate outside the grid, {desc}", "atsea indexes the land mask with a position outside the arrays (wraps or crashes): the out-of-grid rows must be restored before the land test", fi.loc(preds[n][3]))
                    if raw:
                        cand_tests.append(n)
                if in_grid and active:
                    if not cand_tests:
                        rep.bad(rule, fi.qual, f"land test of the candidate, {desc}", "an active particle inside the grid moves without its new position being tested against land", fi.loc())
                        continue
                    want_move = all(sea_true(n) for n in cand_tests)
                else:
                    want_move = False
                wx, wy = (mx, my) if want_move else (X, Y)
                ok = isinstance(fx, NF) and isinstance(fy, NF) and fx == wx and fy == wy
                rep.check(rule, fi.qual, f"stored position, {desc}", ok, what_bad=f"stores ({vtext(fx)[:60]}, {vtext(fy)[:60]}); must be {'the candidate' if want_move else 'the old position (kill / inactive / land cancel)'}", what_ok="moved" if want_move else "kept", loc=fi.loc())
                # alive / active flags
                ce2 = CaseEval(dom, assign)
                al = ce2.value(alive_v) if alive_v is not None else NF.atom("state.alive")
                al_t = ce2.truth(al) if not (isinstance(al, NF) and al == NF.atom("state.alive")) else True
                want_alive = in_grid
                rep.check("R09.3", fi.qual, f"alive flag, {desc}", al_t == want_alive, what_bad=f"alive becomes {vtext(al)[:40]}; a particle whose move leaves the grid must die, every other particle keeps its flag", what_ok="dead" if not want_alive else "unchanged", loc=fi.loc())
        rep.note(f"R09.1: {n_cases} cases enumerated ({tag})")


def writers(prog: Program, rep: Report) -> None:
    st_mod, st_cls = prog.role_module["state"], prog.role_class["state"]
    owners = (f"{st_mod}.{st_cls}.", "warm_start.warm_start")
    for w in statefx.state_writes(prog):
        if w.fi.qual.startswith(owners[0]) or w.fi.qual == owners[1]:
            continue
        if w.key == "alive":
            v = w.value
            ok = (isinstance(v, ast.Constant) and v.value is False) or (isinstance(v, ast.BinOp) and isinstance(v.op, ast.BitAnd) and "alive" in unparse(v))
            if isinstance(w.node, ast.AugAssign) and isinstance(w.node.op, ast.BitAnd):
                ok = True
            rep.check("R09.3", w.fi.qual, short(w.node), ok, what_bad="alive may only be cleared (False) or and-ed: a dead particle must never become alive again", what_ok="clears only", loc=w.fi.loc(w.node))
        if w.key in ("X", "Y"):
            rep.check("R09.4", w.fi.qual, short(w.node), prog.effective_owners(w.fi.qual) == {"tracker.Tracker.update"}, what_bad="horizontal positions are written outside Tracker.update / State.append / warm_start: the land and grid tests are bypassed", what_ok="tracker", loc=w.fi.loc(w.node))
    # in-place modification of the state position arrays through local aliases
    for fi in prog.all_functions():
        if fi.module.name in statefx.SKIP_MODULES or fi.module.name.startswith("ibms"):
            continue
        al = statefx.local_state_aliases(prog, fi)
        pos_alias = {a for a, k in al.items() if k in ("X", "Y")}
        if not pos_alias:
            continue
        bad = []
        for node in walk_no_nested(fi.node):
            if isinstance(node, ast.AugAssign) and isinstance(node.target, ast.Name) and node.target.id in pos_alias:
                bad.append(node)
            if isinstance(node, (ast.Assign, ast.AugAssign)):
                tg = node.targets if isinstance(node, ast.Assign) else [node.target]
                for t in tg:
                    if isinstance(t, ast.Subscript) and isinstance(t.value, ast.Name) and t.value.id in pos_alias:
                        bad.append(node)
            if isinstance(node, ast.Call) and unparse(node.func) in ("clip", "np.clip") and any(isinstance(a, ast.Name) and a.id in pos_alias for a in node.args[:2]) and (unparse(node.func) == "clip" or any(k.arg == "out" for k in node.keywords)):
                bad.append(node)
        rep.check("R09.4", fi.qual, f"aliases {sorted(pos_alias)} of the state position arrays are not modified in place", not bad, what_bad=f"in-place writes {[short(b) for b in bad]} change state.X/Y without the grid and land tests", what_ok="read only", loc=fi.loc())


def region_definitions(prog: Program, rep: Report) -> None:
    rule = "R09.5"
    fi = prog.role_func("grid", "ingrid")
    dom = NFDomain()
    it = Interp(prog, dom, depth=0)
    it.objenv.update(roms.limits_objenv(prog))
    res, fr = it.run(fi, dict(X=NF.atom("X"), Y=NF.atom("Y")), "grid")
    # collect the comparisons of the conjunction
    cmps = []
    def collect(v):
        if isinstance(v, NF) and len(v.atoms()) == 1 and v == NF.atom(next(iter(v.atoms()))):
            info = dom.bool_info.get(v.canon())
            if info is None:
                return False
            if info[0] == "and":
                return collect(info[1]) and collect(info[2])
            if info[0] == "cmp":
                cmps.append(info)
                return True
        return False
    ok = isinstance(res, NF) and collect(res)
    bounds = {}
    for _, op, a, b in cmps:
        # normalise to  var > lower  /  var < upper
        if op in ("lt", "le"):
            lo, hi = a, b
        else:
            lo, hi = b, a
        strict = op in ("lt", "gt")
        for var in ("X", "Y"):
            if hi == NF.atom(var):
                bounds[(var, "lower")] = (lo, strict)
            if lo == NF.atom(var):
                bounds[(var, "upper")] = (hi, strict)
    rep.check(rule, fi.qual, "ingrid is a conjunction of four comparisons", ok and len(cmps) == 4 and len(bounds) == 4, what_bad=f"got {vtext(res)[:200]}", what_ok="4 bounds", loc=fi.loc())
    want = {("X", "lower"): "xmin", ("X", "upper"): "xmax", ("Y", "lower"): "ymin", ("Y", "upper"): "ymax"}
    margins = {}
    for key, lim in want.items():
        b = bounds.get(key)
        if b is None:
            rep.bad(rule, fi.qual, f"{key[0]} {key[1]} bound", "missing", fi.loc())
            continue
        m = (b[0] - NF.atom(lim)) if key[1] == "lower" else (NF.atom(lim) - b[0])
        okb = m.is_const() and m.const_value() >= 0 and b[1]
        margins[key] = m
        rep.check(rule, fi.qual, f"{key[0]} {key[1]} bound: strictly inside {lim} by a non-negative margin", okb, what_bad=f"bound is {b[0]} ({'strict' if b[1] else 'non-strict'}): the valid region must lie strictly inside [{want[(key[0], 'lower')]}, {want[(key[0], 'upper')]}] where velocities are defined (NaN fails every comparison, so non-finite candidates are rejected)", what_ok=f"margin {m}", loc=fi.loc())
    if len(margins) == 4:
        vals = {str(v) for v in margins.values()}
        rep.check(rule, fi.qual, "same margin on all four sides", len(vals) == 1, what_bad=f"margins {margins}", what_ok=vals.pop(), loc=fi.loc())
    # atsea: M[J, I] > 0 at the particle's own cell
    for meth, opwant in (("atsea", "gt"), ("onland", "lt")):
        g = prog.role_func("grid", meth)
        dom2 = NFDomain()
        it2 = Interp(prog, dom2, depth=2)
        it2.objenv["grid.i0"] = NF.atom("i0")
        it2.objenv["grid.j0"] = NF.atom("j0")
        it2.objenv["grid.M"] = NF.atom("M")
        res, fr = it2.run(g, dict(X=NF.atom("X"), Y=NF.atom("Y")), "grid")
        info = dom2.bool_info.get(res.canon()) if isinstance(res, NF) else None
        okm = False
        detail = vtext(res)[:120]
        if info and info[0] == "cmp":
            _, op, a, b = info
            el = [x for x in a.atoms() if x in dom2.elem_info]
            if len(el) == 1:
                arr, idx = dom2.elem_info[el[0]]
                wi = NF.atom("int(round(X))") - NF.atom("i0")
                wj = NF.atom("int(round(Y))") - NF.atom("j0")
                thr = b.const_value() if b.is_const() else None
                okm = arr == "M" and len(idx) == 2 and idx[0] == wj and idx[1] == wi and ((op == "gt" and thr == 0) or (op == "ge" and thr == 1) or (meth == "onland" and ((op == "lt" and thr == 1) or (op == "le" and thr == 0) or (op == "eq" and thr == 0))))
        rep.check(rule, g.qual, f"{meth}: mask of the particle's own cell M[round(Y) - j0, round(X) - i0]", okm, what_bad=f"got {detail}", what_ok="own cell", loc=g.loc())
    # margins used by the tracker for RK stages lie inside [xmin, xmax] (C17 proves the index ranges)


def run(prog: Program, rep: Report, tier: str) -> None:
    rep.level = "proof"
    rep.explanation = (
        "Tracker.update is evaluated abstractly; the stored position, alive and active flags are case-analysed over every "
        "combination of (candidate in grid, particle active, land-test outcomes): the stored value must be the candidate exactly "
        "when the particle is active, its candidate is inside the grid and at sea, else the old position; the land mask is never "
        "indexed with a raw out-of-grid candidate; alive is only cleared; writers of alive and of X/Y are enumerated over ladim/."
    )
    rep.assumptions = [
        "release positions are in sea cells of the valid region (the property's quantifier); warm-start files were written by the model",
        "plug-in IBMs only clear alive and do not move particles horizontally",
        "ingrid / atsea are the predicates defined in the grid class (their definitions are checked by R09.5)",
    ]
    rep.trusted_base = ["CPython ast", "numpy masked assignment A[m] = B[m] is element-wise", "sa/interp.py, sa/nfdomain.py, this rule module"]
    rep.rule("R09.1", "ordering: kill -> restore -> land test on the restored candidate -> store (case analysis of the stored value)", 16)
    rep.rule("R09.2", "x and y are tested / restored together (twins)", 0)
    rep.rule("R09.3", "alive is only ever cleared; out-of-grid candidates die", 16)
    rep.rule("R09.4", "horizontal positions are written only by Tracker.update (release and warm start aside); no in-place writes through aliases", 3)
    rep.rule("R09.5", "valid region = strict box inside [xmin, xmax] x [ymin, ymax]; atsea = land mask of the particle's own cell", 7)
    rep.rule("R09.7", "a dead particle appears in no later sparse record: State.compactify removes the dead whenever the state holds any (shared with C05 R05.3)", 1)
    from . import c05

    c05.dead_removed(prog, rep, "R09.7")
    rep.rule("R09.6", "a dead particle cannot reappear in a dense-layout record: the state is compactified only under the sparse layout (shared with C06 R06.6)", 1)
    from . import c06

    sub = Report(pid="C09")
    c06.compactify_sites(prog, sub)
    for o in sub.obligations:
        rep.add("R09.6", o.func, f"[{o.rule}] {o.construct}", o.verdict == "ok" if o.verdict != "undecided" else None, o.what, o.loc)
    case_analysis(prog, rep)
    writers(prog, rep)
    region_definitions(prog, rep)


from ..selftest import Mut  # noqa: E402

TR = "ladim/tracker.py"
RO = "ladim/ROMS.py"
AUDIT = [
    Mut("land-test-before-restore", TR, "        # Do not move inactive particles\n        inactive = ~state.active\n        X1[inactive] = X[inactive]\n        Y1[inactive] = Y[inactive]\n\n        # Land, boundary treatment. Do not move the particles onto land\n        # Consider a sequence of different actions\n        onland = ~grid.atsea(X1, Y1)\n        X1[onland] = X[onland]\n        Y1[onland] = Y[onland]\n", "        onland = ~grid.atsea(X1, Y1)\n        X1[onland] = X[onland]\n        Y1[onland] = Y[onland]\n        inactive = ~state.active\n        X1[inactive] = X[inactive]\n        Y1[inactive] = Y[inactive]\n", rule="R09.1"),
    Mut("active-not-cleared", TR, "        state.active[out_of_grid] = False  # Not necessary if they are removed\n", "", rule="R09.1"),
    Mut("alive-not-cleared", TR, "        state.alive[out_of_grid] = False\n", "", rule="R09.3"),
    Mut("land-test-old-position", TR, "        onland = ~grid.atsea(X1, Y1)", "        onland = ~grid.atsea(X, Y)", rule="R09.1"),
    Mut("restore-x-only", TR, "        X1[onland] = X[onland]\n        Y1[onland] = Y[onland]\n", "        X1[onland] = X[onland]\n", rule="R09"),
    Mut("inactive-restore-x-only", TR, "        X1[inactive] = X[inactive]\n        Y1[inactive] = Y[inactive]\n", "        X1[inactive] = X[inactive]\n", rule="R09"),
    Mut("no-land-cancel", TR, "        X1[onland] = X[onland]\n        Y1[onland] = Y[onland]\n", "", rule="R09.1"),
    Mut("ingrid-old-position", TR, "        out_of_grid = ~grid.ingrid(X1, Y1)", "        out_of_grid = ~grid.ingrid(X, Y)", rule="R09.1"),
    Mut("revive", TR, "        state.alive[out_of_grid] = False\n", "        state.alive[out_of_grid] = False\n        state.alive[~out_of_grid] = True\n", rule="R09.3"),
    Mut("store-raw", TR, '        state["X"] = X1\n', '        state["X"] = X + U * self.dt / self.dx\n', rule="R09.1"),
    Mut("ingrid-nonstrict-outside", RO, "            (self.xmin + 0.5 < X)\n            & (X < self.xmax - 0.5)\n            & (self.ymin + 0.5 < Y)\n            & (Y < self.ymax - 0.5)\n        )\n        return cond", "            (self.xmin - 0.5 < X)\n            & (X < self.xmax - 0.5)\n            & (self.ymin + 0.5 < Y)\n            & (Y < self.ymax - 0.5)\n        )\n        return cond", rule="R09.5"),
    Mut("ingrid-missing-side", RO, "            & (Y < self.ymax - 0.5)\n        )\n        return cond", "        )\n        return cond", rule="R09.5"),
    Mut("atsea-truncates", RO, "        I = X.round().astype(int) - self.i0\n        J = Y.round().astype(int) - self.j0\n        # return self.M[J, I] > 0", "        I = X.astype(int) - self.i0\n        J = Y.round().astype(int) - self.j0\n        # return self.M[J, I] > 0", rule="R09.5"),
    Mut("atsea-axes", RO, "        cond: ParticleArray = self.M[J, I] > 0", "        cond: ParticleArray = self.M[I, J] > 0", rule="R09.5"),
    Mut("rk2-clips-state", TR, "        clip(X1, Y1, self.xmin, self.xmax, self.ymin, self.ymax)\n\n        return force.velocity(X1, Y1, Z, fractional_step=0.5)", "        clip(X1, Y1, self.xmin, self.xmax, self.ymin, self.ymax)\n        X += 0.0\n\n        return force.velocity(X1, Y1, Z, fractional_step=0.5)", expect="silent"),
    Mut("update-inplace-x", TR, "        X1 = X + U * self.dt / self.dx\n", "        X += U * self.dt / self.dx\n        X1 = X\n", rule="R09"),
    Mut("benign-fused-restore", TR, "        inactive = ~state.active\n        X1[inactive] = X[inactive]\n        Y1[inactive] = Y[inactive]\n", "        inactive = ~state.active\n        keep = inactive\n        X1[keep] = X[keep]\n        Y1[keep] = Y[keep]\n", expect="silent"),
    Mut("benign-onland-method", TR, "        onland = ~grid.atsea(X1, Y1)", "        onland = grid.onland(X1, Y1)", expect="silent"),
]
