"""C17 - compiled sampling kernels never read outside the forcing arrays.

Symbolic interval proof: for every subscript reached from the model's entry points (Forcing.update,
force_particles, Tracker.update, EF/RK2/RK4 -> Forcing.velocity -> sample3DUV -> sample3D -> trilinear,
z2s -> z2s_kernel, Grid.metric/depth/atsea) and every array axis, 0 <= index <= length - 1, with array
shapes, slices, the valid region, the tracker's margins and clip's effect all derived from the source.
"""

from __future__ import annotations

import ast
from fractions import Fraction

from ..interp import Interp, Phi, Ref, Tup, vtext, make_flag_decide
from ..interval import Aff, Arr, Facts, IntervalDomain, Iv, MaskV, nf_to_aff
from ..nf import NF
from ..program import AnalysisError, Program, unparse, short, walk_no_nested
from ..report import Report
from .. import roms


def setup(prog: Program, kmin: int = 2):
    """Facts, shapes and the valid region, all derived from the source."""
    ga = roms.grid_attrs(prog)
    subst = {
        "grid.i0": Aff.sym("i0"),
        "grid.j0": Aff.sym("j0"),
        "grid.i1": Aff.sym("i0") + Aff.sym("imax"),
        "grid.j1": Aff.sym("j0") + Aff.sym("jmax"),
    }
    facts = Facts(lower={"imax": 3, "jmax": 3, "kmax": kmin, "i0": 1, "j0": 1, "npart": 1}, integer={"imax", "jmax", "kmax", "i0", "j0", "npart"})
    attrs = {}
    for k, v in ga.items():
        if isinstance(v, NF):
            a = nf_to_aff(v, subst)
            if a is not None:
                attrs[k] = a
        elif isinstance(v, Tup) and len(v.items) == 2 and all(isinstance(x, NF) for x in v.items):
            a, b = nf_to_aff(v.items[0], subst), nf_to_aff(v.items[1], subst)
            if a is not None and b is not None:
                attrs[k] = (a, b)
    # the extents every shape is expressed in: imax = i1 - i0, jmax = j1 - j0 (as Grid.__init__ defines them)
    for k, want in (("imax", Aff.sym("imax")), ("jmax", Aff.sym("jmax"))):
        if k not in attrs or not (attrs[k] == want):
            raise AnalysisError(f"Grid.__init__: self.{k} is not the number of cells between the subgrid limits ({'i1 - i0' if k == 'imax' else 'j1 - j0'}); got {attrs.get(k)}")
    need = ("xmin", "xmax", "ymin", "ymax", "I", "J", "Iu", "Ju", "Iv", "Jv")
    for k in need:
        if k not in attrs:
            raise AnalysisError(f"Grid.__init__: attribute {k} is not an affine function of the subgrid limits")
    def length(sl):
        return sl[1] - sl[0]
    kmax = Aff.sym("kmax")
    shapes = {}
    for r in roms.read_layouts(prog):
        if r.yslice in attrs and r.xslice in attrs and len(r.axes) == 4 and r.axes[1] == ":":
            shapes[r.field] = [kmax, length(attrs[r.yslice]), length(attrs[r.xslice])]
    for f in ("u", "v", "<scalar>"):
        if f not in shapes:
            raise AnalysisError(f"shape of the {f} block cannot be derived from the read statements")
    g2 = {}
    for name, (ys, xs) in roms.grid_2d_arrays(prog).items():
        if ys in attrs and xs in attrs:
            g2[name] = [length(attrs[ys]), length(attrs[xs])]
    # valid region in full-grid coordinates
    vr = roms.valid_region(prog)
    lim = {"xmin": attrs["xmin"], "xmax": attrs["xmax"], "ymin": attrs["ymin"], "ymax": attrs["ymax"]}
    def bound(key):
        nf, strict = vr[key]
        a = nf_to_aff(nf, lim)
        if a is None:
            raise AnalysisError(f"Grid.ingrid: bound {nf} is not affine in the grid limits")
        return a, strict
    xlo, xls = bound(("X", "lower"))
    xhi, xhs = bound(("X", "upper"))
    ylo, yls = bound(("Y", "lower"))
    yhi, yhs = bound(("Y", "upper"))
    valid = {"X": Iv(xlo, xhi, xls, xhs), "Y": Iv(ylo, yhi, yls, yhs)}
    return facts, attrs, shapes, g2, valid


def make_interp(prog: Program, facts, attrs, shapes, g2, valid):
    dom = IntervalDomain(facts)

    def hook(node, fr, it):
        fn = unparse(node.func)
        dom.context = fr.fi.qual
        if fn == "self._read_velocity":
            return Tup([Arr("u", shapes["u"]), Arr("v", shapes["v"])])
        if fn == "self._read_field":
            return Arr("field", shapes["<scalar>"])
        if fn in ("self.advect",):
            return Tup([Iv.top(), Iv.top()])
        if fn in ("self.diffuse",):
            return Tup([Iv.top(), Iv.top()])
        if fn == "self.diffuse_vert":
            return Iv.top()
        if isinstance(node.func, ast.Attribute):
            recv = it.path_of(node.func.value, fr)
            if recv == "grid" and node.func.attr == "ingrid":
                return MaskV("ingrid", None, None)
            if recv == "grid" and node.func.attr in ("atsea", "onland") and prog.effective_owners(fr.fi.qual) == {"tracker.Tracker.update"}:
                # Lemma (C09 R09.1): the land test only ever sees a restored position or an in-grid candidate
                g = prog.role_func("grid", node.func.attr)
                it.trace.append((fr.fi.qual, node))
                try:
                    it.run(g, dict(X=valid["X"], Y=valid["Y"]), "grid", depth=fr.depth + 1)
                finally:
                    it.trace.pop()
                return MaskV("atsea", None, None)
            if node.func.attr == "normal":
                return Iv.top()
        return NotImplemented

    it = Interp(prog, dom, depth=6, call_hook=hook)
    kmax = Aff.sym("kmax")
    env = {
        "grid.i0": Iv.point(Aff.sym("i0")),
        "grid.j0": Iv.point(Aff.sym("j0")),
        "grid.xmin": Iv.point(attrs["xmin"]),
        "grid.xmax": Iv.point(attrs["xmax"]),
        "grid.ymin": Iv.point(attrs["ymin"]),
        "grid.ymax": Iv.point(attrs["ymax"]),
        "grid.z_r": Arr("z_r", shapes["<scalar>"]),
        "state.X": valid["X"],
        "state.Y": valid["Y"],
        "state.Z": Iv.top(),
        "state.alive": MaskV("pred", None, None),
        "state.active": MaskV("pred", None, None),
        "tracker.dt": Iv.top(),
    }
    for name, shp in g2.items():
        env[f"grid.{name}"] = Arr(name, shp)
    for k, f in (("u", "u"), ("v", "v"), ("u_new", "u"), ("v_new", "v"), ("dU", "u"), ("dV", "v")):
        env[f"forcing.fields['{k}']"] = Arr(k, shapes[f])
    env["forcing.fields"] = Arr("scalar field", shapes["<scalar>"])
    it.objenv.update(env)
    return it, dom


def analyse(prog: Program, kmin: int = 2):
    facts, attrs, shapes, g2, valid = setup(prog, kmin)
    it, dom = make_interp(prog, facts, attrs, shapes, g2, valid)
    entries = []
    # entry A: Forcing.update (level lookup, force_particles)
    fu = prog.role_func("forcing", "update")
    dom.context = fu.qual
    it.run(fu, {}, "forcing")
    entries.append(fu.qual)
    K = it.objenv.get("forcing.K")
    # entry B: Tracker.update (metric, depth, atsea; defines the stage margins)
    tu = prog.func("tracker.Tracker.update")
    it.decide_hook = make_flag_decide(dict(advection=True, diffusion=True, vertdiff=True, vertical_advection=True))
    it.run(tu, {}, "tracker")
    it.decide_hook = None
    entries.append(tu.qual)
    margins = {k: it.objenv.get(f"tracker.{k}") for k in ("xmin", "xmax", "ymin", "ymax")}
    # entry C: the advection schemes
    names = prog.dynamic_attr_names(tu, "advect")
    for n in names:
        fi = prog.func(f"tracker.Tracker.{n}")
        it.run(fi, dict(X=valid["X"], Y=valid["Y"], Z=Iv.top(), force=Ref("forcing")), "tracker")
        entries.append(fi.qual)
    return dom, it, entries, dict(facts=facts, attrs=attrs, shapes=shapes, g2=g2, valid=valid, K=K, margins=margins, schemes=names)


def run(prog: Program, rep: Report, tier: str) -> None:
    rep.level = "proof"
    rep.explanation = (
        "Abstract interpretation in a symbolic-interval domain (endpoints affine in i0, imax, jmax, kmax; inequalities decided "
        "from imax, jmax >= 3, kmax >= 2) of every call chain from the model's entry points into the compiled kernels and the "
        "numpy fancy reads of the grid: for every subscript and axis the index range must lie in [0, length-1]. Array shapes come "
        "from the slices in Grid.__init__ and the read statements, the valid region from Grid.ingrid, the stage region from the "
        "tracker's margins and the body of clip, the level range from the branches of z2s_kernel."
    )
    rep.assumptions = [
        "A1: every particle in the state lies in the valid region - inductive: release positions valid (assumed), preserved by Tracker.update (R17.4, shared with C09)",
        "A2: forcing files have as many levels as the grid (shapes use one symbol kmax)",
        "A3: at least two levels (kmax >= 2) - not enforced at start-up, see the known finding",
        "Lemma L1 (C09 R09.1): the land test in Tracker.update only sees restored positions or in-grid candidates",
        "integer truncation/rounding and min/max transfer functions of DESIGN A.2",
    ]
    rep.trusted_base = ["CPython ast", "interval transfer functions (sa/interval.py)", "sa/interp.py, sa/roms.py", "numba semantics: no bounds checking, negative indices wrap"]
    rep.rule("R17.1", "every subscript of a gridded array reached from the model's entry points is within bounds on every axis", 60)
    rep.rule("R17.2", "facts derived from the source: block shapes, valid region inside the velocity domain, stage margins inside it, level range", 8)
    rep.rule("R17.3", "assumption audit: the level-count assumption is enforced at start-up", 1)
    rep.rule("R17.4", "assumption A1 discharged: the tracker stores a position only if it lies in the valid region, else the old one (C09's case analysis, writers and region rules)", 20)
    from . import c09

    sub = Report(pid="C17")
    c09.case_analysis(prog, sub)
    c09.writers(prog, sub)
    c09.region_definitions(prog, sub)
    for o in sub.obligations:
        rep.add("R17.4", o.func, f"[{o.rule}] {o.construct}", o.verdict == "ok" if o.verdict != "undecided" else None, o.what, o.loc)
    dom, it, entries, info = analyse(prog)
    facts = info["facts"]
    # R17.2 derived facts
    shapes, attrs, valid = info["shapes"], info["attrs"], info["valid"]
    imax, jmax = Aff.sym("imax"), Aff.sym("jmax")
    rep.check("R17.2", "ROMS.Grid.__init__", f"u block shape {shapes['u']}", shapes["u"][1:] == [jmax, imax + 1], what_bad=f"u block is {shapes['u'][1:]}, a C-grid u block over the subgrid is [jmax, imax+1]", what_ok="(kmax, jmax, imax+1)", loc="ladim/ROMS.py")
    rep.check("R17.2", "ROMS.Grid.__init__", f"v block shape {shapes['v']}", shapes["v"][1:] == [jmax + 1, imax], what_bad=f"v block is {shapes['v'][1:]}", what_ok="(kmax, jmax+1, imax)", loc="ladim/ROMS.py")
    rep.check("R17.2", "ROMS.Grid.__init__", f"rho block shape {shapes['<scalar>']}", shapes["<scalar>"][1:] == [jmax, imax], what_bad=f"rho block is {shapes['<scalar>'][1:]}", what_ok="(kmax, jmax, imax)", loc="ladim/ROMS.py")
    for ax, lo, hi in (("X", "xmin", "xmax"), ("Y", "ymin", "ymax")):
        v = valid[ax]
        ok = facts.le(attrs[lo], v.lo) and facts.le(v.hi, attrs[hi])
        rep.check("R17.2", "ROMS.Grid.ingrid", f"valid region {ax} in {v} lies inside [{lo}, {hi}] = [{attrs[lo]}, {attrs[hi]}]", ok, what_bad="the valid region extends beyond the region where velocities are defined", what_ok="inside", loc="ladim/ROMS.py")
    for k, v in info["margins"].items():
        lim = attrs["xmin" if k.startswith("x") else "ymin"], attrs["xmax" if k.startswith("x") else "ymax"]
        ok = isinstance(v, Iv) and v.is_point() and facts.le(lim[0], v.lo) and facts.le(v.hi, lim[1])
        rep.check("R17.2", "tracker.Tracker.update", f"stage margin self.{k} = {v}", ok, what_bad=f"the Runge-Kutta stage positions are clipped to a bound outside [{lim[0]}, {lim[1]}]", what_ok="inside the velocity domain", loc="ladim/tracker.py")
    K = info["K"]
    okK = isinstance(K, Iv) and K.lo is not None and K.hi is not None and facts.le(Aff(None, 1), K.lo) and facts.le(K.hi, Aff.sym("kmax") - 1)
    rep.check("R17.2", "ROMS.z2s_kernel", f"level index range K in {K}", okK, what_bad="K must satisfy 1 <= K <= kmax-1 so that F[K-1] and F[K] exist", what_ok="[1, kmax-1]", loc="ladim/ROMS.py")
    rep.check("R17.2", "tracker.Tracker", f"advection schemes analysed: {info['schemes']}", set(info["schemes"]) >= {"EF", "RK2", "RK4"}, what_bad="a scheme is missing from the analysis", what_ok="all", loc="ladim/tracker.py")
    # R17.1 obligations
    seen = set()
    n_kernel = 0
    for o in dom.obligations:
        key = (o.func, o.construct, o.array, o.axis, o.index, o.chain.split(" -> ")[0] if o.chain else "")
        if key in seen:
            continue
        seen.add(key)
        entry = o.chain.split("@")[0] if o.chain else o.func
        if o.func in ("ROMS.trilinear", "ROMS.z2s_kernel"):
            n_kernel += 1
        rep.check("R17.1", o.func, f"{o.construct} axis {o.axis} [{o.array}] via {entry}: index {o.index}", o.ok, what_bad=f"{o.what}; call chain {o.chain}", what_ok=f"within [0, {o.dim} - 1]", loc=f"ladim/{'tracker' if o.func.startswith('tracker') else 'ROMS'}.py:{o.line}")
    if n_kernel < 30:
        raise AnalysisError(f"only {n_kernel} kernel subscript obligations generated (trilinear/z2s_kernel): the call chains were not followed")
    # R17.3 assumption audit: is kmax >= 2 enforced at start-up?
    gi = prog.role_func("grid", "__init__")
    enforced = False
    for n in walk_no_nested(gi.node):
        if isinstance(n, ast.If) and any(isinstance(x, ast.Raise) for x in ast.walk(n)):
            t = unparse(n.test)
            if ("self.N" in t or "len(self.Cs_r)" in t) and any(op in t for op in ("< 2", "<= 1", "== 1")):
                enforced = True
    # which obligations depend on it
    dom1, _, _, _ = analyse(prog, kmin=1)
    dep = sorted({f"{o.func}: {o.construct} axis {o.axis}" for o in dom1.obligations if not o.ok})
    rep.check("R17.3", gi.qual, "level count >= 2 not enforced at start-up", enforced, what_bad=f"with a single s-level (N = 1) the proof fails for {len(dep)} subscript(s), e.g. {dep[:2]}: a particle below the level gets K = 1 and trilinear reads F[1] outside the array", what_ok="guarded", loc=gi.loc())
    from ..share import share

    share(prog, rep, "C12", ("R12.4",), "R17.5", "the level arrays handed to the kernels have the lengths the kernels index (rho levels N, w levels N+1)", 4)
    share(prog, rep, "C15", ("R15.5",), "R17.7", "grid arrays are read at [row from Y, column from X] in every grid class, so the index of an axis stays within that axis", 8)
    share(prog, rep, "C16", ("R16.1", "R16.4"), "R17.6", "positions released by longitude / latitude come back in (x, y) order and in full-grid coordinates, i.e. inside the arrays the kernels index", 6)



from ..selftest import Mut  # noqa: E402

T = "ladim/tracker.py"
R = "ladim/ROMS.py"
AUDIT = [
    Mut("margin-outside", T, "        self.xmin = grid.xmin + 0.01", "        self.xmin = grid.xmin - 0.01", rule="R17"),
    Mut("rk4-unclipped-stage", T, "        X3, Y3 = RKstep(X, Y, U3, V3, 1.0, dtdx, dtdy)\n        clip(X3, Y3, xmin, xmax, ymin, ymax)\n", "        X3, Y3 = RKstep(X, Y, U3, V3, 1.0, dtdx, dtdy)\n", rule="R17.1"),
    Mut("rk2-clips-inputs", T, "        clip(X1, Y1, self.xmin, self.xmax, self.ymin, self.ymax)", "        clip(X, Y, self.xmin, self.xmax, self.ymin, self.ymax)", rule="R17.1"),
    Mut("clip-x-with-ymax", T, "        X[p] = max(min(X[p], xmax), xmin)", "        X[p] = max(min(X[p], ymax), xmin)", rule="R17.1"),
    Mut("clip-lower-missing", T, "        Y[p] = max(min(Y[p], ymax), ymin)", "        Y[p] = min(Y[p], ymax)", rule="R17.1"),
    Mut("iu-short", R, "        self.Iu = slice(self.i0 - 1, self.i1)", "        self.Iu = slice(self.i0, self.i1)", rule="R17"),
    Mut("z2s-top-k", R, "            K[n] = k - 1\n            A[n] = 0", "            K[n] = k\n            A[n] = 0", rule="R17"),
    Mut("z2s-bottom-k0", R, "    K = np.ones(N, dtype=np.int64)", "    K = np.zeros(N, dtype=np.int64)", rule="R17"),
    Mut("tri-round", R, "        i, j = int(X[n]), int(Y[n])", "        i, j = int(X[n] + 0.5), int(Y[n])", rule="R17.1"),
    Mut("tri-i-plus-2", R, "f11 = a * F[k - 1, j + 1, i + 1] + (1 - a) * F[k, j + 1, i + 1]", "f11 = a * F[k - 1, j + 1, i + 2] + (1 - a) * F[k, j + 1, i + 1]", rule="R17.1"),
    Mut("ingrid-wider", R, "            (self.xmin + 0.5 < X)\n            & (X < self.xmax - 0.5)", "            (self.xmin + 0.5 < X)\n            & (X < self.xmax + 0.5)", rule="R17"),
    Mut("xmax-i1", R, "        self.xmax = float(self.i1 - 1)", "        self.xmax = float(self.i1)", rule="R17"),
    Mut("uv-stagger-larger", R, "        sample3D(U, X + 0.5, Y, K, A, method=method),", "        sample3D(U, X + 1.5, Y, K, A, method=method),", rule="R17.1"),
    Mut("velocity-no-offset", R, "        return sample3DUV(U, V, X - i0, Y - j0, self.K, self.A, method=method)", "        return sample3DUV(U, V, X, Y - j0, self.K, self.A, method=method)", rule="R17.1"),
    Mut("metric-no-offset", R, "        I = X.round().astype(int) - self.i0\n        J = Y.round().astype(int) - self.j0\n\n        # Metric is conform", "        I = X.round().astype(int)\n        J = Y.round().astype(int) - self.j0\n\n        # Metric is conform", rule="R17.1"),
    Mut("benign-margin", T, "        self.xmin = grid.xmin + 0.01", "        self.xmin = grid.xmin + 0.02", expect="silent"),
    Mut("benign-rint", R, '    I = np.around(X).astype("int")', '    I = np.rint(X).astype("int")', expect="silent"),
    Mut("benign-npclip", T, "        X[p] = max(min(X[p], xmax), xmin)", "        X[p] = min(max(X[p], xmin), xmax)", expect="silent"),
]
