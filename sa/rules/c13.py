"""C13 - clock arithmetic: steps/times convert consistently; period spellings agree.

Decided: the clock invariant time == step2time(step) is established by __init__ and preserved by
update in both directions (normal forms); Nsteps = floor(|stop - start| / dt); time2step(step2time(n))
= n on the lattice; step2nctime / nctime are (instant - reference)/unit; the unit letters of the ISO
pattern and of unit_table denote the numpy codes of the same meaning; normalize_period is total
(returns a timedelta expression or raises ValueError on every path).
Not decided: calendar arithmetic inside numpy.
"""

from __future__ import annotations

import ast
import re

from ..interp import Interp, Phi, Ref, Tup, vtext
from ..nf import NF
from ..nfdomain import NFDomain
from ..paths import enumerate_paths
from ..program import AnalysisError, Program, unparse, short, walk_no_nested
from ..report import Report

ATOMS = {
    "time.start_time": "start",
    "time.stop_time": "stop",
    "time.dt": "dt",
    "time.reference_time": "ref",
    "time.time": "T",
    "time.step": "n",
}


def tk_eval(prog: Program, method: str, reversal: bool, args=None, extra=None):
    fi = prog.role_func("time", method)
    dom = NFDomain(scalars=set(ATOMS.values()))
    it = Interp(prog, dom, depth=2)
    for k, v in ATOMS.items():
        it.objenv[k] = NF.atom(v)
    it.objenv["time.time_reversal"] = reversal
    if extra:
        it.objenv.update(extra)
    res, fr = it.run(fi, dict(args or {}), "time")
    return res, it, fi


def S(reversal: bool) -> int:
    return -1 if reversal else 1


FINE_UNITS = ("s", "ms", "us", "ns", "ps", "fs", "as")


def instant_resolution(prog: Program, rep: Report, rule: str) -> None:
    """Every conversion of an instant to an explicit datetime unit keeps the clock's resolution (seconds):
    `np.datetime64(x, "m")`, `.astype("M8[h]")` would truncate instants (forcing frames, start / stop, restart
    time) before they are mapped to steps, and a set-up shifted by whole steps would no longer be the same
    set-up shifted."""
    n = 0
    for fi in prog.all_functions():
        if fi.module.name.startswith(("ibms", "analytical")) or fi.module.name in ("ROMS2",):
            continue
        for c in walk_no_nested(fi.node):
            unit = None
            what = None
            if isinstance(c, ast.Call) and unparse(c.func) in ("np.datetime64", "numpy.datetime64") and len(c.args) == 2 and isinstance(c.args[1], ast.Constant) and isinstance(c.args[1].value, str):
                unit, what = c.args[1].value, short(c, 70)
            elif isinstance(c, ast.Call) and isinstance(c.func, ast.Attribute) and c.func.attr == "astype" and c.args and isinstance(c.args[0], ast.Constant) and isinstance(c.args[0].value, str):
                m = re.fullmatch(r"(?:M8|datetime64)\[(\w+)\]", c.args[0].value.strip())
                if m:
                    unit, what = m.group(1), short(c, 70)
            if unit is None:
                continue
            n += 1
            rep.check(rule, fi.qual, what, unit in FINE_UNITS, what_bad=f"an instant is converted to unit '{unit}', coarser than the clock's seconds: times are truncated before they are compared or mapped to steps", what_ok=f"unit '{unit}'", loc=fi.loc(c))
    if n < 4:
        raise AnalysisError(f"only {n} explicit datetime unit conversions found (7 confirmed by hand)")


def run(prog: Program, rep: Report, tier: str) -> None:
    rep.level = "other"
    rep.explanation = (
        "TimeKeeper.update/step2time/time2step/step2isotime/step2nctime/nctime are evaluated abstractly in both directions "
        "(rational normal forms with floor atoms) and compared with start +- n*dt and with each other; the ISO-8601 pattern is "
        "read through re._parser; normalize_period's paths are enumerated for totality. Decides the conversion algebra on the "
        "step lattice, not numpy's calendar arithmetic."
    )
    rep.assumptions = ["numpy datetime64/timedelta64 arithmetic is exact in seconds", "times lie on a one-second lattice (the property's quantifier)"]
    rep.trusted_base = ["CPython ast, re._parser", "Fraction arithmetic", "sa/nf.py, sa/interp.py, sa/paths.py"]
    rep.rule("R13.1", "clock induction: time == step2time(step) at construction, preserved by update (both directions)", 6)
    rep.rule("R13.2", "conversion formulas: step2time = start +- n*dt; Nsteps; time2step o step2time = id; nctime values", 10)
    rep.rule("R13.3", "unit tables: ISO letters / [value, unit] / unit_table denote the numpy codes of the same meaning", 6)
    rep.rule("R13.4", "normalize_period is total: every path returns a period or raises ValueError", 5)
    rep.rule("R13.5", "each accepted non-string spelling (int, timedelta64, datetime.timedelta, [n, unit]) evaluates to its own number of seconds; malformed lists are refused", 8)
    n, dt, start, ref, T = (NF.atom(x) for x in ("n", "dt", "start", "ref", "T"))

    for rev in (False, True):
        d = "reversed" if rev else "forward"
        s = S(rev)
        # step2time
        r, it, fi = tk_eval(prog, "step2time", rev, dict(step=n))
        rep.check("R13.2", fi.qual, f"step2time(n), {d}", isinstance(r, NF) and r == start + s * n * dt, what_bad=f"must be start {'-' if rev else '+'} n*dt; got {vtext(r)}", what_ok=vtext(r), loc=fi.loc())
        s2t = r if isinstance(r, NF) else None
        # update preserves time - step2time(step)
        _, it, fi = tk_eval(prog, "update", rev)
        t1, n1 = it.objenv.get("time.time"), it.objenv.get("time.step")
        rep.check("R13.1", fi.qual, f"update advances the step by one, {d}", isinstance(n1, NF) and n1 == n + 1, what_bad=f"step after update is {vtext(n1)}", what_ok="n + 1", loc=fi.loc())
        rep.check("R13.1", fi.qual, f"update moves the clock by {'-' if rev else '+'}dt, {d}", isinstance(t1, NF) and t1 == T + s * dt, what_bad=f"time after update is {vtext(t1)}", what_ok=vtext(t1), loc=fi.loc())
        if s2t is not None and isinstance(t1, NF) and isinstance(n1, NF):
            inv_pre = T - s2t
            inv_post = t1 - s2t.subst({"n": n1})
            rep.check("R13.1", fi.qual, f"time - step2time(step) is invariant under update, {d}", inv_pre == inv_post, what_bad=f"before: {inv_pre}; after: {inv_post} - the clock drifts away from step2time(step)", what_ok="invariant", loc=fi.loc())
        # time2step(step2time(n)) == n
        if s2t is not None:
            r, it, fi = tk_eval(prog, "time2step", rev, dict(time_=s2t))
            ok = isinstance(r, NF) and (r == n or r.canon() in ("int(floor(n))", "floor(n)", "int(n)"))
            rep.check("R13.2", fi.qual, f"time2step(step2time(n)) = n, {d}", ok, what_bad=f"got {vtext(r)}", what_ok="n", loc=fi.loc())
            # floor semantics between lattice points: time2step(t) = floor(+-(t - start)/dt)
            r, it, fi = tk_eval(prog, "time2step", rev, dict(time_=NF.atom("t")))
            want = NF.atom(f"int(floor({((s * (NF.atom('t') - start)) / dt).canon()}))")
            rep.check("R13.2", fi.qual, f"time2step(t) = floor({'(start - t)' if rev else '(t - start)'}/dt), {d}", isinstance(r, NF) and r == want, what_bad=f"got {vtext(r)}", what_ok=vtext(r), loc=fi.loc())
            # step2isotime
            r, it, fi = tk_eval(prog, "step2isotime", rev, dict(stepnr=n))
            rep.check("R13.2", fi.qual, f"step2isotime(n) = str(step2time(n)), {d}", vtext(r) == "str:" + s2t.canon(), what_bad=f"got {vtext(r)}", what_ok="str(step2time(n))", loc=fi.loc())
            # step2nctime
            r, it, fi = tk_eval(prog, "step2nctime", rev, dict(stepnr=n, unit=Ref("unit")))
            want = (s2t - ref) / NF.atom("unit:unit")
            rep.check("R13.2", fi.qual, f"step2nctime(n, unit) = (step2time(n) - reference)/unit, {d}", isinstance(r, NF) and r == want, what_bad=f"got {vtext(r)}", what_ok=vtext(r), loc=fi.loc())
        r, it, fi = tk_eval(prog, "nctime", rev, dict(unit=Ref("unit")))
        rep.check("R13.2", fi.qual, f"nctime(unit) = (time - reference)/unit, {d}", isinstance(r, NF) and r == (T - ref) / NF.atom("unit:unit"), what_bad=f"got {vtext(r)}", what_ok=vtext(r), loc=fi.loc())

    # __init__: step = -1, time = step2time(step); Nsteps
    init = prog.role_func("time", "__init__")
    step_init = time_init = nsteps = None
    for node in walk_no_nested(init.node):
        if isinstance(node, (ast.Assign, ast.AnnAssign)):
            tgt = node.targets[0] if isinstance(node, ast.Assign) else node.target
            t = unparse(tgt)
            if t == "self.step":
                step_init = node
            elif t == "self.time":
                time_init = node
            elif t == "self.Nsteps":
                nsteps = node
    if step_init is None or time_init is None or nsteps is None:
        raise AnalysisError("TimeKeeper.__init__: assignments to self.step / self.time / self.Nsteps not found")
    rep.check("R13.1", init.qual, short(step_init), unparse(step_init.value) == "-1", what_bad="the clock must start one step before the start (step = -1): the first update brings it to step 0 = start", what_ok="step = -1", loc=init.loc(step_init))
    rep.check("R13.1", init.qual, short(time_init), unparse(time_init.value) in ("self.step2time(self.step)", "self.step2time(-1)") and time_init.lineno > step_init.lineno, what_bad="the running clock must be initialised as step2time(step)", what_ok="time = step2time(step)", loc=init.loc(time_init))
    # Nsteps normal form
    dom = NFDomain(scalars={"start", "stop", "dt"})
    it = Interp(prog, dom, depth=0)
    from ..interp import Frame

    fr = Frame(init, {}, "time")
    it.objenv.update({"time.start_time": NF.atom("start"), "time.stop_time": NF.atom("stop"), "time.dt": NF.atom("dt")})
    fr.env["duration"] = NF.atom("stop") - NF.atom("start")
    for node in walk_no_nested(init.node):
        if isinstance(node, ast.Assign) and unparse(node.targets[0]) == "duration":
            fr.env["duration"] = it.num(it.eval(node.value, fr))
    val = it.num(it.eval(nsteps.value, fr))
    from ..nf import func_atom

    dur = NF.atom("stop") - NF.atom("start")
    want = NF.atom(f"int(floor({(func_atom('abs', dur) / NF.atom('dt')).canon()}))")
    rep.check("R13.2", init.qual, short(nsteps), isinstance(val, NF) and val == want, what_bad=f"number of steps must be floor(|stop - start| / dt); got {vtext(val)}", what_ok=vtext(val), loc=init.loc(nsteps))
    rep.check("R13.2", init.qual, "duration = stop - start", fr.env["duration"] == dur, what_bad=f"got {fr.env['duration']}", what_ok="stop - start", loc=init.loc())

    # R13.3 unit tables
    MEANING = {"s": "seconds", "m": "minutes", "h": "hours", "D": "days", "d": "days"}
    tkm = prog.module("timekeeper")
    ut = None
    for node in ast.walk(tkm.tree):
        if isinstance(node, (ast.Assign, ast.AnnAssign)):
            tgt = node.targets[0] if isinstance(node, ast.Assign) else node.target
            if unparse(tgt) == "unit_table" and node.value is not None:
                ut = node
    if ut is None:
        raise AnalysisError("TimeKeeper.unit_table not found")
    table = {}
    v = ut.value
    if isinstance(v, ast.Call) and unparse(v.func) == "dict":
        table = {k.arg: ast.literal_eval(k.value) for k in v.keywords}
    elif isinstance(v, ast.Dict):
        table = {ast.literal_eval(k): ast.literal_eval(x) for k, x in zip(v.keys, v.values)}
    for letter in ("s", "m", "h"):
        rep.check("R13.3", "timekeeper.TimeKeeper", f"unit_table[{letter!r}]", table.get(letter) == MEANING[letter], what_bad=f"numpy unit code {letter!r} means {MEANING[letter]}, the CF units string says {table.get(letter)!r}", what_ok=MEANING[letter], loc="ladim/timekeeper.py")
    cf = prog.role_func("time", "cf_units")
    rep.check("R13.3", cf.qual, "cf_units uses unit_table[unit] and the reference time", "self.unit_table[unit]" in unparse(cf.node) and "self.reference_time" in unparse(cf.node), what_bad="units string must be '<unit_table[unit]> since <reference_time>'", what_ok="ok", loc=cf.loc())
    # ISO pattern
    from ..program import inline_helpers

    npf = inline_helpers(prog, prog.func("timekeeper.normalize_period"))
    pat = None
    match_kind = None

    def str_of(e):
        """string value of an expression: literal, local single definition or module-level constant"""
        if isinstance(e, ast.Constant) and isinstance(e.value, str):
            return e.value
        if isinstance(e, ast.Name):
            from ..program import single_defs

            d = single_defs(npf.node).get(e.id)
            if d is not None:
                return str_of(d)
            mc = npf.module.constants.get(e.id)
            if mc is not None:
                mc = mc if isinstance(mc, ast.AST) else ast.parse(mc, mode="eval").body
                return str_of(mc)
        if isinstance(e, ast.Call) and unparse(e.func) in ("re.compile",) and e.args:
            return str_of(e.args[0])
        return None

    for node in walk_no_nested(npf.node):
        if isinstance(node, ast.Call) and isinstance(node.func, ast.Attribute) and node.func.attr in ("match", "fullmatch", "search"):
            recv = node.func.value
            cand = str_of(node.args[0]) if unparse(recv) == "re" and node.args else str_of(recv)
            if cand is not None:
                pat, match_kind = cand, node.func.attr
    if pat is None:
        raise AnalysisError("normalize_period: ISO pattern (argument of re.match / compiled pattern) not found")
    import re._parser as rp  # type: ignore

    parsed = rp.parse(pat)
    letters = []
    anchored = [False, False]
    for op, av in parsed:
        if str(op) == "AT":
            if "BEGINNING" in str(av):
                anchored[0] = True
            if "END" in str(av):
                anchored[1] = True
        if str(op) == "MAX_REPEAT":
            lo, hi, sub = av
            for sop, sav in sub:
                if str(sop) == "SUBPATTERN":
                    items = list(sav[3])
                    if len(items) == 2 and str(items[0][0]) == "MAX_REPEAT" and str(items[1][0]) == "LITERAL":
                        letters.append((chr(items[1][1]), lo, hi))
    if match_kind == "fullmatch":
        anchored = [True, True]
    elif match_kind == "match":
        anchored[0] = True
    rep.check("R13.3", npf.qual, f"ISO pattern {pat!r}", [l for l, _, _ in letters] == ["H", "M", "S"] and all(lo == 0 and hi == 1 for _, lo, hi in letters) and all(anchored), what_bad=f"pattern must be anchored and accept optional groups <digits>H, <digits>M, <digits>S in this order; parsed groups {letters}, anchored {anchored}", what_ok="PT[xH][yM][zS], anchored", loc=npf.loc())
    src = unparse(npf.node)
    lowered = any(isinstance(n, ast.Call) and isinstance(n.func, ast.Attribute) and n.func.attr == "lower" for n in walk_no_nested(npf.node))
    rep.check("R13.3", npf.qual, "ISO unit letter lowered before use as numpy code", lowered, what_bad="numpy reads 'M' as months and rejects 'H'/'S': the letter must be lowered", what_ok="item[-1].lower()", loc=npf.loc())
    for letter, _, _ in letters:
        rep.check("R13.3", npf.qual, f"ISO letter {letter} -> numpy code {letter.lower()!r}", MEANING.get(letter.lower()) == {"H": "hours", "M": "minutes", "S": "seconds"}[letter], what_bad="meaning mismatch", what_ok=MEANING.get(letter.lower(), "?"), loc=npf.loc())

    period_spellings(prog, rep)

    # R13.4 totality
    paths = enumerate_paths(npf.node.body, unroll=(0, 1, 2))
    seen = set()
    for p in paths:
        key = (p.exit, getattr(p.exit_node, "lineno", None), tuple((unparse(t)[:30], k) for t, k in p.conds()))
        if key in seen:
            continue
        seen.add(key)
        if p.exit == "return":
            ok = p.exit_node.value is not None and not (isinstance(p.exit_node.value, ast.Constant) and p.exit_node.value.value is None)
            what = "returns a value"
        elif p.exit == "raise":
            exc = p.exit_node.exc
            ok = exc is not None and unparse(exc.func if isinstance(exc, ast.Call) else exc) == "ValueError"
            what = "raises ValueError"
        else:
            ok, what = False, "falls off the end and returns None: a malformed period is accepted silently"
        if not ok or len(seen) <= 12:
            rep.check("R13.4", npf.qual, f"path {p.describe()}", ok, what_bad=what, what_ok=what, loc=npf.loc())
    rep.check("R13.4", npf.qual, "all paths end in return <period> or raise ValueError", all(p.exit in ("return", "raise") for p in paths), what_bad="a path falls through", what_ok=f"{len(paths)} paths", loc=npf.loc())
    from ..share import share

    share(prog, rep, "C06", ("R06.3",), "R13.6", "the time coordinate of a record is the clock's own conversion at the time of writing", 2)
    rep.rule("R13.7", "instants are never converted to a unit coarser than the clock's seconds", 4)
    instant_resolution(prog, rep, "R13.7")
    share(prog, rep, "C18", ("R18.6",), "R13.8", "a version-1 configuration hands start, stop, dt and reference to the clock keys they belong to", 3, only=lambda o: o.construct.startswith("time.") or "time_control" in o.construct)
    share(prog, rep, "C19", ("R19.6",), "R13.9", "after a warm start the running clock is the time of step 0, then advances with the steps", 3)



# ---------------------------------------------------------------------------
# R13.5 every accepted spelling denotes the same duration (duration algebra)
# ---------------------------------------------------------------------------
UNIT_SECONDS = {"s": 1, "m": 60, "h": 3600, "D": 86400}


class _Unknown(Exception):
    pass


class _Raised(Exception):
    pass


class _Ret(Exception):
    def __init__(self, v):
        self.v = v


def _type_names(v) -> set:
    k = v[0]
    return {"count": {"int"}, "dur": {"np.timedelta64", "numpy.timedelta64", "timedelta64"}, "pytd": {"datetime.timedelta", "timedelta"}, "str": {"str"}, "list": {"list"}}.get(k, set())


def _dur_eval(e: ast.expr, env: dict):
    """Value of `e` in the duration algebra: ("count", NF) | ("dur", NF seconds) | ("pytd",) |
    ("str", s) | ("list", [..]) | ("bool", b). Raises _Unknown outside the algebra."""
    if isinstance(e, ast.Constant):
        if isinstance(e.value, bool):
            return ("bool", e.value)
        if isinstance(e.value, (int, float)):
            from fractions import Fraction

            return ("count", NF.const(Fraction(e.value).limit_denominator(10**9)))
        if isinstance(e.value, str):
            return ("str", e.value)
        raise _Unknown(unparse(e))
    if isinstance(e, ast.Name):
        if e.id in env:
            return env[e.id]
        raise _Unknown(e.id)
    if isinstance(e, ast.Attribute):
        b = _dur_eval(e.value, env)
        if b[0] == "pytd":
            if e.attr == "seconds":
                return ("count", NF.atom("td.seconds"))
            if e.attr == "days":
                return ("count", NF.atom("td.days"))
            if e.attr == "microseconds":
                return ("count", NF.const(0))  # one-second lattice
        raise _Unknown(unparse(e))
    if isinstance(e, ast.Call):
        fn = unparse(e.func)
        if fn == "isinstance" and len(e.args) == 2:
            v = _dur_eval(e.args[0], env)
            def flat(t):
                if isinstance(t, ast.Tuple):
                    return [y for x in t.elts for y in flat(x)]
                if isinstance(t, ast.BinOp) and isinstance(t.op, ast.BitOr):
                    return flat(t.left) + flat(t.right)
                return [t]

            ts = flat(e.args[1])
            return ("bool", any(unparse(t) in _type_names(v) for t in ts))
        if fn in ("np.timedelta64", "numpy.timedelta64", "timedelta64") and e.args and not e.keywords:
            v = _dur_eval(e.args[0], env)
            u = _dur_eval(e.args[1], env) if len(e.args) > 1 else None
            if u is not None and (u[0] != "str" or u[1] not in UNIT_SECONDS):
                raise _Unknown(f"unit {unparse(e.args[1])}")
            if v[0] == "count":
                if u is None:
                    raise _Unknown("unit-less count")
                return ("dur", v[1] * UNIT_SECONDS[u[1]])
            if v[0] == "dur":
                if u is not None and u[1] != "s":
                    raise _Unknown("conversion to a coarser unit truncates")
                return v
            if v[0] == "pytd":
                if u is not None and u[1] != "s":
                    raise _Unknown("conversion to a coarser unit truncates")
                return ("dur", NF.atom("td.days") * 86400 + NF.atom("td.seconds"))
            raise _Unknown(unparse(e))
        if isinstance(e.func, ast.Attribute) and e.func.attr == "total_seconds" and not e.args:
            b = _dur_eval(e.func.value, env)
            if b[0] == "pytd":
                return ("count", NF.atom("td.days") * 86400 + NF.atom("td.seconds"))
        if isinstance(e.func, ast.Attribute) and e.func.attr == "astype" and len(e.args) == 1:
            b = _dur_eval(e.func.value, env)
            a = _dur_eval(e.args[0], env)
            if b[0] == "dur" and a[0] == "str" and a[1] in ("m8[s]", "timedelta64[s]", "<m8[s]"):
                return b
        if fn in ("int", "round", "float") and len(e.args) == 1:
            v = _dur_eval(e.args[0], env)
            if v[0] == "count":
                return v
        raise _Unknown(unparse(e))
    if isinstance(e, ast.BinOp):
        a, b = _dur_eval(e.left, env), _dur_eval(e.right, env)
        op = type(e.op)
        if a[0] == b[0] == "count":
            if op is ast.Add:
                return ("count", a[1] + b[1])
            if op is ast.Sub:
                return ("count", a[1] - b[1])
            if op is ast.Mult:
                return ("count", a[1] * b[1])
            if op is ast.Div and not b[1].atoms():
                return ("count", a[1] / b[1])
        if a[0] == b[0] == "dur" and op in (ast.Add, ast.Sub):
            return ("dur", a[1] + b[1] if op is ast.Add else a[1] - b[1])
        if {a[0], b[0]} == {"dur", "count"} and op is ast.Mult:
            return ("dur", a[1] * b[1])
        if a[0] == "dur" and b[0] == "count" and op is ast.Div and not b[1].atoms():
            return ("dur", a[1] / b[1])
        if a[0] == b[0] == "dur" and op is ast.Div and not b[1].atoms():
            return ("count", a[1] / b[1])
        raise _Unknown(unparse(e))
    if isinstance(e, ast.BoolOp):
        vals = [_dur_eval(v, env) for v in e.values]
        if all(v[0] == "bool" for v in vals):
            return ("bool", all(v[1] for v in vals) if isinstance(e.op, ast.And) else any(v[1] for v in vals))
        raise _Unknown(unparse(e))
    if isinstance(e, ast.UnaryOp) and isinstance(e.op, ast.Not):
        v = _dur_eval(e.operand, env)
        if v[0] == "bool":
            return ("bool", not v[1])
    if isinstance(e, ast.UnaryOp) and isinstance(e.op, ast.USub):
        v = _dur_eval(e.operand, env)
        if v[0] in ("count", "dur"):
            return (v[0], -v[1])
    if isinstance(e, (ast.List, ast.Tuple)):
        return ("list", [_dur_eval(x, env) for x in e.elts])
    if isinstance(e, ast.Subscript) and isinstance(e.slice, ast.Constant) and isinstance(e.slice.value, int):
        b = _dur_eval(e.value, env)
        if b[0] == "list" and -len(b[1]) <= e.slice.value < len(b[1]):
            return b[1][e.slice.value]
    raise _Unknown(unparse(e))


def _dur_exec(stmts, env: dict) -> None:
    for st in stmts:
        if isinstance(st, ast.Expr) and isinstance(st.value, ast.Constant):
            continue
        if isinstance(st, ast.Return):
            if st.value is None:
                raise _Unknown("return without a value")
            raise _Ret(_dur_eval(st.value, env))
        if isinstance(st, ast.Raise):
            raise _Raised()
        if isinstance(st, ast.If):
            t = _dur_eval(st.test, env)
            if t[0] != "bool":
                raise _Unknown(f"test {unparse(st.test)}")
            _dur_exec(st.body if t[1] else st.orelse, env)
            continue
        if isinstance(st, ast.Try):
            _dur_exec(st.body, env)
            _dur_exec(st.orelse, env)
            _dur_exec(st.finalbody, env)
            continue
        if isinstance(st, (ast.Assign, ast.AnnAssign)):
            if st.value is None:
                continue
            v = _dur_eval(st.value, env)
            tgts = st.targets if isinstance(st, ast.Assign) else [st.target]
            for t in tgts:
                if isinstance(t, ast.Name):
                    env[t.id] = v
                elif isinstance(t, (ast.Tuple, ast.List)) and v[0] == "list" and len(v[1]) == len(t.elts) and all(isinstance(x, ast.Name) for x in t.elts):
                    for x, xv in zip(t.elts, v[1]):
                        env[x.id] = xv
                else:
                    raise _Unknown(short(st))
            continue
        if isinstance(st, ast.Expr) and isinstance(st.value, ast.Call) and unparse(st.value.func).split(".")[0] in ("logger", "logging", "warnings", "print"):
            continue
        if isinstance(st, ast.Pass):
            continue
        raise _Unknown(short(st))
    return None


def period_spellings(prog: Program, rep: Report) -> None:
    rule = "R13.5"
    from ..program import inline_helpers

    npf = inline_helpers(prog, prog.func("timekeeper.normalize_period"))
    param = npf.params[0]
    n = NF.atom("n")
    td = NF.atom("td.days") * 86400 + NF.atom("td.seconds")
    cases = [
        ("int n (seconds)", ("count", n), n),
        ("np.timedelta64 of D seconds", ("dur", NF.atom("D")), NF.atom("D")),
        ("datetime.timedelta(days, seconds)", ("pytd",), td),
    ] + [(f"[n, {u!r}]", ("list", [("count", n), ("str", u)]), n * UNIT_SECONDS[u]) for u in ("s", "m", "h")]
    for label, val, want in cases:
        try:
            _dur_exec(npf.node.body, {param: val})
            rep.bad(rule, npf.qual, f"spelling {label}", "falls off the end (returns None)", npf.loc())
        except _Ret as r:
            got = r.v
            ok = got[0] == "dur" and got[1] == want
            rep.check(rule, npf.qual, f"spelling {label}", ok, what_bad=f"denotes {want.canon()} seconds, normalize_period returns {got[1].canon() if got[0] in ('dur', 'count') else got[0]} ({'a duration' if got[0] == 'dur' else 'not a duration'}): the spellings of one period disagree", what_ok=f"{want.canon()} s", loc=npf.loc())
        except _Raised:
            rep.bad(rule, npf.qual, f"spelling {label}", "an accepted spelling is rejected (raise reached)", npf.loc())
        except _Unknown as u:
            rep.add(rule, npf.qual, f"spelling {label}", None, f"outside the duration algebra: {u}", npf.loc())
    # malformed spellings of the list form are refused
    for label, val in (("[1.5, 'h'] (non-integer value)", ("list", [("float",), ("str", "h")])), ("['h', 1] (swapped)", ("list", [("str", "h"), ("count", NF.const(1))]))):
        try:
            _dur_exec(npf.node.body, {param: val})
            rep.bad(rule, npf.qual, f"malformed {label}", "falls off the end (returns None): accepted silently", npf.loc())
        except _Ret as r:
            rep.bad(rule, npf.qual, f"malformed {label}", "a period is returned for a malformed spelling", npf.loc())
        except _Raised:
            rep.ok(rule, npf.qual, f"malformed {label}", "raise reached", npf.loc())
        except _Unknown as u:
            rep.add(rule, npf.qual, f"malformed {label}", None, f"outside the duration algebra: {u}", npf.loc())


from ..selftest import Mut  # noqa: E402

TK = "ladim/timekeeper.py"
AUDIT = [
    Mut("step2time-no-reverse", TK, "        if self.time_reversal:\n            return self.start_time - step * self.dt\n        return self.start_time + step * self.dt", "        return self.start_time + step * self.dt", rule="R13"),
    Mut("update-sign", TK, "            self.time = self.time - self.dt\n        else:", "            self.time = self.time + self.dt\n        else:", rule="R13.1"),
    Mut("update-step2", TK, "        self.step += 1\n", "        self.step += 2\n", rule="R13.1"),
    Mut("init-step0", TK, "        self.step = -1  # step before start", "        self.step = 0  # step before start", rule="R13.1"),
    Mut("time2step-ceil", TK, "        return int((np.datetime64(time_) - self.start_time) // self.dt)", "        return int(-((self.start_time - np.datetime64(time_)) // self.dt))", rule="R13.2"),
    Mut("time2step-rev-sign", TK, "            return int((self.start_time - np.datetime64(time_)) // self.dt)", "            return int((np.datetime64(time_) - self.start_time) // self.dt)", rule="R13.2"),
    Mut("nctime-from-start", TK, "        delta = self.time - self.reference_time\n", "        delta = self.time - self.start_time\n", rule="R13.2"),
    Mut("step2nctime-rev", TK, "            delta = self.start_time - stepnr * self.dt - self.reference_time", "            delta = self.start_time + stepnr * self.dt - self.reference_time", rule="R13.2"),
    Mut("nsteps-plus1", TK, "        self.Nsteps = int(abs(duration) // self.dt)", "        self.Nsteps = int(abs(duration) // self.dt) + 1", rule="R13.2"),
    Mut("nsteps-noabs", TK, "        self.Nsteps = int(abs(duration) // self.dt)", "        self.Nsteps = int(duration // self.dt)", rule="R13.2"),
    Mut("unit-table", TK, 'dict(s="seconds", m="minutes", h="hours", d="days")', 'dict(s="seconds", m="hours", h="minutes", d="days")', rule="R13.3"),
    Mut("iso-no-lower", TK, "                unit = item[-1].lower()", "                unit = item[-1]", rule="R13.3"),
    Mut("iso-pattern-order", TK, r'pattern = r"^PT(\d+H)?(\d+M)?(\d+S)?$"', r'pattern = r"^PT(\d+H)?(\d+S)?(\d+M)?$"', rule="R13.3"),
    Mut("iso-unanchored", TK, r'pattern = r"^PT(\d+H)?(\d+M)?(\d+S)?$"', r'pattern = r"^PT(\d+H)?(\d+M)?(\d+S)?"', rule="R13.3"),
    Mut("int-minutes", TK, '        return np.timedelta64(per, "s")', '        return np.timedelta64(per, "m")', rule="R13.5"),
    Mut("timedelta-seconds-attr", TK, '    if isinstance(per, (int, np.timedelta64, datetime.timedelta)):\n        return np.timedelta64(per, "s")', '    if isinstance(per, (int, np.timedelta64)):\n        return np.timedelta64(per, "s")\n    if isinstance(per, datetime.timedelta):\n        return np.timedelta64(per.seconds, "s")', rule="R13.5"),
    Mut("list-unit-ignored", TK, '                return np.timedelta64(np.timedelta64(value, unit), "s")', '                return np.timedelta64(value, "s")', rule="R13.5"),
    Mut("benign-timedelta-total-seconds", TK, '    if isinstance(per, (int, np.timedelta64, datetime.timedelta)):\n        return np.timedelta64(per, "s")', '    if isinstance(per, datetime.timedelta):\n        return np.timedelta64(int(per.total_seconds()), "s")\n    if isinstance(per, (int, np.timedelta64)):\n        return np.timedelta64(per, "s")', expect="silent"),
    Mut("benign-timedelta-days-seconds", TK, '    if isinstance(per, (int, np.timedelta64, datetime.timedelta)):\n        return np.timedelta64(per, "s")', '    if isinstance(per, datetime.timedelta):\n        return np.timedelta64(per.days * 86400 + per.seconds, "s")\n    if isinstance(per, (int, np.timedelta64)):\n        return np.timedelta64(per, "s")', expect="silent"),
    Mut("final-raise-dropped", TK, '    # None of the above\n    raise ValueError(f"{per} is not a valid time period")', "    # None of the above\n    pass", rule="R13.4"),
    Mut("match-none-accepted", TK, '        if m is None:\n            raise ValueError(f"{per} is not a valid time period")', "        if m is None:\n            return None", rule="R13.4"),
    Mut("benign-step2time-mult", TK, "            return self.start_time - step * self.dt\n        return self.start_time + step * self.dt", "            return self.start_time - self.dt * step\n        sign = 1\n        return self.start_time + sign * step * self.dt", expect="silent"),
    Mut("benign-update-form", TK, "        if self.time_reversal:\n            self.time = self.time - self.dt\n        else:\n            self.time = self.time + self.dt", "        if not self.time_reversal:\n            self.time += self.dt\n        else:\n            self.time -= self.dt", expect="silent"),
    Mut("benign-isinstance-order", TK, "    if isinstance(per, (int, np.timedelta64, datetime.timedelta)):", "    if isinstance(per, (np.timedelta64, int, datetime.timedelta)):", expect="silent"),
]
