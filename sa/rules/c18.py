"""C18 - one simulation, three spellings: YAML v2, TOML v2, legacy v1 give the same run.

Decided: the v1->v2 key table against the constructor signatures of the default role classes,
production of every required parameter and of every section Model.__init__ reads, optional keys never
hard-required by the normaliser, convergence of the YAML/TOML/v1 arms on one configuration object, and
the wildcard default of the grid file (sorted first match) in both versions.
Not decided: equality of run outputs.
"""

from __future__ import annotations

import ast

from ..paths import enumerate_paths
from ..program import AnalysisError, FuncInfo, Program, unparse, short, walk_no_nested, unroll_literal_loops
from ..report import Report

ROLES = ("state", "time", "grid", "forcing", "release", "tracker", "ibm", "output")


def cfg(prog: Program, name: str) -> FuncInfo:
    """configure_v1 / configure_v2 with loops over literal tuples unrolled (a loop over the optional
    section names is the same as four repeated ifs)."""
    fi = prog.func(f"configure.{name}")
    return FuncInfo(fi.module, fi.qual, unroll_literal_loops(fi.node), fi.cls)


def section_writes(fi: FuncInfo, root: str) -> list[tuple[str, str, ast.AST]]:
    """(section, key, node) for `root[sec][key] = ...` and `root[sec] = dict(key=...)`."""
    out = []
    for n in walk_no_nested(fi.node):
        if isinstance(n, ast.Assign):
            for t in n.targets:
                if isinstance(t, ast.Subscript) and isinstance(t.slice, ast.Constant) and isinstance(t.value, ast.Subscript) and unparse(t.value.value) == root and isinstance(t.value.slice, ast.Constant):
                    out.append((t.value.slice.value, t.slice.value, n))
                if isinstance(t, ast.Subscript) and unparse(t.value) == root and isinstance(t.slice, ast.Constant):
                    sec = t.slice.value
                    v = n.value
                    if isinstance(v, ast.Call) and unparse(v.func) == "dict":
                        for kw in v.keywords:
                            if kw.arg:
                                out.append((sec, kw.arg, n))
                        out.append((sec, None, n))
                    elif isinstance(v, ast.Dict):
                        for k in v.keys:
                            if isinstance(k, ast.Constant):
                                out.append((sec, k.value, n))
                        out.append((sec, None, n))
                    else:
                        out.append((sec, None, n))
    return out


def ctor_params(prog: Program, role: str):
    fi = prog.role_func(role, "__init__")
    a = fi.node.args
    names = [x.arg for x in a.posonlyargs + a.args + a.kwonlyargs if x.arg not in ("self", "modules")]
    required = [p for p in names if p not in fi.defaults()]
    return fi, names, required, a.kwarg is not None


def key_table(prog: Program, rep: Report) -> None:
    rule = "R18.1"
    v1 = cfg(prog, "configure_v1")
    v2 = cfg(prog, "configure_v2")
    # v2: keys the normaliser writes
    for sec, key, node in section_writes(v2, "config"):
        if key is None or sec not in ROLES:
            continue
        ctor, names, required, has_kwargs = ctor_params(prog, sec)
        ok = key == "module" or key in names or has_kwargs
        rep.check(rule, v2.qual, f"{sec}.{key}", ok, what_bad=f"key {key!r} written into section {sec!r} is not a parameter of {ctor.qual} ({names}): the constructor raises TypeError, or the setting is silently lost", what_ok="constructor parameter" if key != "module" else "consumed by init_module", loc=v2.loc(node))
    # v1: keys of the translated dictionary, over every outcome of the symbolic evaluation
    full = _v1_status(rep, rule, v1, v1_outcomes(prog, True), "all optional v1 keys present")
    bare = _v1_status(rep, rule, v1, v1_outcomes(prog, False), "no optional v1 key present")
    for sec in ROLES:
        ctor, names, required, has_kwargs = ctor_params(prog, sec)
        keys = set()
        for o in full + bare:
            d = o["result"].get(sec)
            if isinstance(d, dict):
                keys |= {k for k in d if isinstance(k, str)}
                if any(not isinstance(k, str) for k in d) and not has_kwargs and sec != "ibm":
                    rep.bad(rule, v1.qual, f"{sec}.<computed key>", f"section {sec!r} receives keys copied from the file ({[k for k in d if not isinstance(k, str)][:2]}): {ctor.qual} takes no arbitrary keywords", v1.loc())
        for key in sorted(keys):
            ok = key == "module" or key in names or has_kwargs
            rep.check(rule, v1.qual, f"{sec}.{key}", ok, what_bad=f"key {key!r} written into section {sec!r} is not a parameter of {ctor.qual} ({names}): the constructor raises TypeError, or the setting is silently lost", what_ok="constructor parameter" if key != "module" else "consumed by init_module", loc=v1.loc())
        for p_ in required:
            ok = bool(bare) and all(isinstance(o["result"].get(sec), dict) and p_ in o["result"][sec] for o in bare + full)
            rep.check(rule, v1.qual, f"required parameter {sec}.{p_}", ok, what_bad=f"{ctor.qual} requires {p_!r} but configure_v1 does not produce it for every v1 file", what_ok="produced", loc=v1.loc())


def sections(prog: Program, rep: Report) -> None:
    rule = "R18.2"
    mi = prog.view("model.Model.__init__")
    reads = set(prog.role_order)
    for n in walk_no_nested(mi.node):
        if isinstance(n, ast.Subscript) and unparse(n.value) == "config" and isinstance(n.slice, ast.Constant):
            reads.add(n.slice.value)
    v1 = cfg(prog, "configure_v1")
    v2 = cfg(prog, "configure_v2")
    outs = _v1_status(rep, rule, v1, v1_outcomes(prog, True), "all optional v1 keys present") + _v1_status(rep, rule, v1, v1_outcomes(prog, False), "no optional v1 key present")
    for sec in sorted(reads):
        missing = [o for o in outs if not isinstance(o["result"].get(sec), dict)]
        label = f"section {sec!r} (v1 has no such vocabulary: defaulted when absent)" if sec == "warm_start" else f"section {sec!r} produced on every path"
        rep.check(rule, v1.qual, label, bool(outs) and not missing, what_bad=f"Model.__init__ reads config[{sec!r}] but configure_v1 leaves it out for some v1 files ({len(missing)} of {len(outs)} evaluated outcomes)", what_ok="produced", loc=v1.loc())
    # v2: an omitted optional section is defaulted to {}, an omitted mandatory one stops cleanly (KeyError)
    OPTIONAL = {"state", "grid", "ibm", "warm_start"}
    for sec in sorted(reads):
        # optional sections: omitted from an otherwise complete file; mandatory ones: omitted from a bare
        # file (no optional key given), where the normaliser has to look at them
        outs2 = v2_outcomes(prog, absent=[(sec,)]) if sec in OPTIONAL else v2_outcomes(prog, absent=[(sec,)], default_presence=False)
        st = {o["status"] for o in outs2}
        if "unsupported" in st:
            rep.add(rule, v2.qual, f"section {sec!r} omitted", None, f"outside the evaluator: {[o['detail'] for o in outs2 if o['status'] == 'unsupported'][0]}", v2.loc())
            continue
        defaulted = st == {"ok"} and all(isinstance(o["overlay"].get((), {}).get(sec), dict) for o in outs2)
        stops = st == {"missing"} and all(o["detail"].split(".")[0] == sec for o in outs2)
        ok = defaulted if sec in OPTIONAL else (defaulted or stops)
        how = "defaulted" if defaulted else "dereferenced (KeyError -> clean stop)" if stops else "optional section not defaulted" if sec in OPTIONAL else "neither defaulted nor dereferenced"
        rep.check(rule, v2.qual, f"section {sec!r}: {how}", ok, what_bad=f"a v2 file without section {sec!r} is not handled by the normaliser (outcomes {sorted(st)}): it reaches Model.__init__ and fails there with a raw KeyError" if sec not in OPTIONAL else f"the optional section {sec!r} must behave as an empty one when omitted (outcomes {sorted(st)})", what_ok=how, loc=v2.loc())
    for sec, want in (("tracker", {}), ("release", None)):
        outs2 = v2_outcomes(prog, none_paths=[(sec,)])
        vals = [o["overlay"].get((), {}).get(sec) for o in outs2 if o["status"] == "ok"]
        ok = bool(vals) and len(vals) == len(outs2) and all(isinstance(v, dict) for v in vals)
        rep.check(rule, v2.qual, f"empty section {sec!r} (None) is replaced by a dict", ok, what_bad=f"an empty YAML section is None: init_module calls .get on it (got {vals[:1]}, outcomes {[o['status'] for o in outs2][:3]})", what_ok="replaced", loc=v2.loc())


def optional_discipline(prog: Program, rep: Report) -> None:
    rule = "R18.3"
    v2 = cfg(prog, "configure_v2")
    # optional keys: constructor parameters with a default, `module`, everything in warm_start
    optional = []
    for sec in ROLES:
        ctor, names, required, _ = ctor_params(prog, sec)
        optional += [(sec, k) for k in names if k not in required] + [(sec, "module")]
    optional += [("warm_start", "filename"), ("warm_start", "variables")]
    n = 0
    for sec, key in optional:
        outs2 = v2_outcomes(prog, absent=[(sec, key)])
        miss = [o for o in outs2 if o["status"] == "missing" and o["detail"] == f"{sec}.{key}"]
        unsup = [o for o in outs2 if o["status"] == "unsupported"]
        if unsup:
            rep.add(rule, v2.qual, f"config[{sec!r}][{key!r}] omitted (optional key)", None, f"outside the evaluator: {unsup[0]['detail']}", v2.loc())
            continue
        n += 1
        rep.check(rule, v2.qual, f"config[{sec!r}][{key!r}] omitted (optional key)", not miss, what_bad=f"the consumer treats {key!r} as optional (default / .get) but the normaliser subscripts it unguarded: a file that omits it stops with \"Missing key\"", what_ok="the normaliser completes", loc=v2.loc())
    # all optional keys omitted together
    outs2 = v2_outcomes(prog, absent=optional)
    miss = [o for o in outs2 if o["status"] == "missing" and tuple(o["detail"].split(".")) in set(optional)]
    rep.check(rule, v2.qual, "every optional key omitted at once", not miss and bool(outs2), what_bad=f"stops on the optional key {miss[0]['detail'] if miss else ''}", what_ok="the normaliser completes", loc=v2.loc())
    if n < 10:
        raise AnalysisError("configure_v2: fewer optional keys than confirmed by hand")
    im = prog.func("model.init_module")
    ok = any(isinstance(n_, ast.Call) and isinstance(n_.func, ast.Attribute) and n_.func.attr == "get" and n_.args and isinstance(n_.args[0], ast.Constant) and n_.args[0].value == "module" and len(n_.args) == 2 for n_ in walk_no_nested(im.node))
    rep.check(rule, im.qual, "consumer: module is optional (conf_dict.get('module', default))", ok, what_bad="init_module requires an explicit module", what_ok="optional", loc=im.loc())


def one_path(prog: Program, rep: Report) -> None:
    rule = "R18.4"
    from ..program import expand_locals, inline_helpers, lower_ifexp

    fi0 = inline_helpers(prog, prog.func("configure.configure"))
    node = ast.fix_missing_locations(ast.FunctionDef(name=fi0.node.name, args=fi0.node.args, body=lower_ifexp(fi0.node.body), decorator_list=[], returns=None, type_comment=None, lineno=fi0.node.lineno, col_offset=0))
    fi = FuncInfo(fi0.module, fi0.qual, node, fi0.cls)

    def X(e):
        return unparse(expand_locals(e, fi.node))

    # the parsed file of either format flows into the one variable that is normalised and returned
    edges = {}
    loaders = {"toml": set(), "yaml": set()}
    for n in walk_no_nested(fi.node):
        if isinstance(n, (ast.Assign, ast.AnnAssign)) and n.value is not None:
            t = n.targets[0] if isinstance(n, ast.Assign) else n.target
            if isinstance(t, ast.Name):
                if isinstance(n.value, ast.Name):
                    edges.setdefault(n.value.id, set()).add(t.id)
                src = unparse(n.value)
                if "tomli.load" in src or "tomllib.load" in src:
                    loaders["toml"].add(t.id)
                if "yaml.safe_load" in src:
                    loaders["yaml"].add(t.id)

    def reach(names):
        seen = set(names)
        todo = list(names)
        while todo:
            x = todo.pop()
            for y in edges.get(x, ()):
                if y not in seen:
                    seen.add(y)
                    todo.append(y)
        return seen

    rets = [n for n in walk_no_nested(fi.node) if isinstance(n, ast.Return)]
    retname = unparse(rets[0].value) if len(rets) == 1 and rets[0].value is not None else None
    rep.check(rule, fi.qual, "TOML and YAML arms bind the same variable", bool(loaders["toml"]) and bool(loaders["yaml"]) and retname in reach(loaders["toml"]) and retname in reach(loaders["yaml"]), what_bad=f"parsed TOML reaches {sorted(reach(loaders['toml']))}, parsed YAML {sorted(reach(loaders['yaml']))}; returned: {retname}", what_ok="both reach the returned configuration", loc=fi.loc())
    disp = []
    suffix_names = set()
    grew = True
    while grew:
        grew = False
        for n in walk_no_nested(fi.node):
            if isinstance(n, ast.Assign) and isinstance(n.targets[0], ast.Name) and n.targets[0].id not in suffix_names:
                v = unparse(n.value)
                if ".suffix" in v or any(isinstance(x, ast.Name) and x.id in suffix_names for x in ast.walk(n.value)):
                    suffix_names.add(n.targets[0].id)
                    grew = True
    for n in walk_no_nested(fi.node):
        if isinstance(n, ast.If) and n.orelse:
            b = unparse(ast.Module(body=n.body, type_ignores=[]))
            o = unparse(ast.Module(body=n.orelse, type_ignores=[]))
            t = X(n.test)
            if "tomli.load" in b and "yaml.safe_load" in o and "yaml.safe_load" not in b and ("suffix" in t or any(isinstance(x, ast.Name) and x.id in suffix_names for x in ast.walk(n.test))) and "toml" in t and "yaml" not in t and "yml" not in t:
                disp.append(n)
    rep.check(rule, fi.qual, "file type from the suffix; everything but .toml is YAML", len(disp) == 1, what_bad="suffix dispatch changed", what_ok="toml / default yaml", loc=fi.loc())
    ver = [n for n in walk_no_nested(fi.node) if isinstance(n, ast.Assign) and unparse(n.targets[0]) == "version"]
    srcs = [unparse(n.value) for n in ver]
    from ..program import positive_cond

    inferred = []
    for n in walk_no_nested(fi.node):
        if not isinstance(n, ast.If):
            continue
        text, pos = positive_cond(unparse(n.test), True)
        with_tc, without_tc = (n.body, n.orelse) if pos else (n.orelse, n.body)
        if text == "'time_control' in config" and [unparse(x) for x in with_tc] == ["version = '1'"] and [unparse(x) for x in without_tc] == ["version = '2'"]:
            inferred.append(n)
    # ... and the inference happens exactly when no version was given (the placeholder '0')
    pm_ = {id(ch): par for par in ast.walk(fi.node) for ch in ast.iter_child_nodes(par)}
    guarded_ok = False
    for n in inferred:
        par = pm_.get(id(n))
        if isinstance(par, ast.If) and any(x is n for x in par.body):
            text, pos = positive_cond(unparse(par.test), True)
            guarded_ok = guarded_ok or (text == "version == '0'" and pos)
        elif isinstance(par, ast.If) and any(x is n for x in par.orelse):
            text, pos = positive_cond(unparse(par.test), True)
            guarded_ok = guarded_ok or (text == "version == '0'" and not pos)
    rep.check(rule, fi.qual, "version: explicit key, else inferred from the presence of time_control", "str(config.get('version', '0'))" in srcs and len(inferred) == 1 and guarded_ok, what_bad=f"{srcs}; inference guarded by `version == '0'`: {guarded_ok} - a file that states its version must be read as that version", what_ok="explicit or inferred", loc=fi.loc())
    v2call = [n for n in walk_no_nested(fi.node) if isinstance(n, ast.Expr) and isinstance(n.value, ast.Call) and unparse(n.value.func) == "configure_v2" and [unparse(a) for a in n.value.args] == ["config"]]
    v1call = [n for n in walk_no_nested(fi.node) if isinstance(n, ast.Assign) and unparse(n.targets[0]) == "config" and unparse(n.value) == "configure_v1(config)"]
    rep.check(rule, fi.qual, "v2 normalised in place, v1 translated into the same variable, one return", len(v2call) == 1 and len(v1call) == 1 and len(rets) == 1 and retname == "config", what_bad=f"v2 calls {len(v2call)}, v1 assignments {len(v1call)}, returns {[unparse(r.value) for r in rets if r.value is not None]}", what_ok="return config", loc=fi.loc())
    tests = [X(n.test) for n in walk_no_nested(fi.node) if isinstance(n, ast.If) and "version[0]" in X(n.test)]
    rep.check(rule, fi.qual, "version dispatch covers '2', '1' and stops otherwise", "version[0] == '2'" in tests and "version[0] == '1'" in tests, what_bad=f"{tests}", what_ok="2 / 1 / else stop", loc=fi.loc())
    v2 = cfg(prog, "configure_v2")
    rets2 = [n for n in walk_no_nested(v2.node) if isinstance(n, ast.Return) and n.value is not None]
    rep.check(rule, v2.qual, "configure_v2 works in place (returns nothing)", not rets2, what_bad="the caller ignores a returned dict", what_ok="in place", loc=v2.loc())
    v1 = cfg(prog, "configure_v1")
    outs = [o for o in v1_outcomes(prog, True) if o["status"] == "ok"]
    rep.check(rule, v1.qual, "configure_v1 returns the translated dict", bool(outs) and all(isinstance(o["result"], dict) for o in outs), what_bad="configure_v1 does not return the translated dictionary on every path", what_ok="dict", loc=v1.loc())


def v2_outcomes(prog: Program, present=(), absent=(), default_presence=True, none_paths=()):
    """configure_v2 evaluated in place on a symbolic v2 file -> outcomes (overlay = what it wrote)."""
    from ..confeval import Scenario, Sym, run_function

    _V1_CACHE = prog.__dict__.setdefault("_conf_cache", {})
    key = ("v2", default_presence, tuple(sorted(present)), tuple(sorted(absent)), tuple(sorted(none_paths)))
    if key not in _V1_CACHE:
        sc = Scenario(present=present, absent=absent, default_presence=default_presence, none_paths=none_paths)
        _V1_CACHE[key] = run_function(prog, "configure", "configure_v2", lambda: {"config": Sym(())}, sc)
    return _V1_CACHE[key]


SORTED_FIRST = r"sorted\((list\()?Path\(<{f}>\)\.parent\.glob\(Path\(<{f}>\)\.name\)\)?\)\[0\]"


def wildcard(prog: Program, rep: Report) -> None:
    rule = "R18.5"
    import re as _re

    from ..confeval import Opaque, Sym, text_of

    def judge(fi, values, fsym: str, label: str):
        """values: grid file names over the outcomes of the scenario 'no grid file given'."""
        plain = _re.compile(r"(Path\()?<" + _re.escape(fsym) + r">\)?$")
        first = _re.compile(SORTED_FIRST.format(f=_re.escape(fsym)) + "$")
        texts = sorted({text_of(v) for v in values})
        kinds = {"plain" if plain.match(t) else "sorted-first" if first.match(t) else "other" for t in texts}
        rep.check(rule, fi.qual, label, kinds == {"plain", "sorted-first"}, what_bad=f"without a grid file the grid file name becomes {texts}: it must be the forcing file, or for a wildcard name the first match of that pattern, in its own directory, in sorted order", what_ok="forcing file / sorted(directory.glob(name))[0]", loc=fi.loc())

    v1 = cfg(prog, "configure_v1")
    outs = _v1_status(rep, rule, v1, v1_outcomes(prog, True, present=[("gridforce", "input_file")], absent=[("gridforce", "gridfile"), ("files", "gridfile")]), "v1 without gridfile")
    judge(v1, [o["result"].get("grid", {}).get("filename") for o in outs], "gridforce.input_file", "grid file defaults to the forcing file; a wildcard resolves to the sorted first match (v1)")
    v2 = cfg(prog, "configure_v2")
    outs2 = [o for o in v2_outcomes(prog, absent=[("grid",)]) if o["status"] == "ok"]
    bad2 = [o for o in v2_outcomes(prog, absent=[("grid",)]) if o["status"] != "ok"]
    if bad2:
        rep.add(rule, v2.qual, "v2 without grid section: evaluation", None if bad2[0]["status"] == "unsupported" else False, f"{bad2[0]['status']} {bad2[0]['detail']}", v2.loc())
    grids = [o["overlay"].get((), {}).get("grid", {}) for o in outs2]
    judge(v2, [g.get("filename") if isinstance(g, dict) else None for g in grids], "forcing.filename", "grid file defaults to the forcing file; a wildcard resolves to the sorted first match (v2)")
    outs = _v1_status(rep, rule, v1, v1_outcomes(prog, True), "all optional v1 keys present")
    pairs = {(repr(o["result"].get("grid", {}).get("module")), repr(o["result"].get("forcing", {}).get("module"))) for o in outs}
    allowed = {repr("ladim.ROMS"), repr(Sym(("gridforce", "module")))}
    rep.check(rule, v1.qual, "v1: grid and forcing use the same module", bool(pairs) and all(a == b and a in allowed for a, b in pairs) and len(pairs) == 2, what_bad=f"(grid, forcing) modules over the outcomes: {sorted(pairs)}; both must be the gridforce module, or ladim.ROMS for the legacy ladim1 name", what_ok="same", loc=v1.loc())
    mods = {repr(g.get("module")) if isinstance(g, dict) else "?" for g in grids}
    rep.check(rule, v2.qual, "v2: an omitted grid module is the forcing module", bool(grids) and mods == {repr(Sym(("forcing", "module")))}, what_bad=f"with the grid section omitted the grid module becomes {sorted(mods)}", what_ok="inherited", loc=v2.loc())
    # the two defaults are independent: a grid section that names its file but no module still inherits the
    # forcing module; one that names a module but no file still gets the forcing file
    o1 = v2_outcomes(prog, present=[("grid", "filename"), ("forcing", "module")], absent=[("grid", "module")])
    ok1 = bool(o1) and all(o["status"] == "ok" and o["overlay"].get(("grid",), {}).get("module") == Sym(("forcing", "module")) and "filename" not in o["overlay"].get(("grid",), {}) for o in o1)
    rep.check(rule, v2.qual, "v2: a grid section with a file name but no module inherits the forcing module", ok1, what_bad=f"grid section after normalisation: {[o['overlay'].get(('grid',), {}) for o in o1][:2]} (outcomes {[o['status'] for o in o1][:2]}): the grid is built by the default class although the forcing names another module", what_ok="module inherited, file name kept", loc=v2.loc())
    o2 = v2_outcomes(prog, present=[("grid", "module")], absent=[("grid", "filename")])
    vals2 = [o["overlay"].get(("grid",), {}) for o in o2 if o["status"] == "ok"]
    ok2 = bool(vals2) and len(vals2) == len(o2) and all("module" not in g and Sym(("forcing", "filename")) in __import__("sa.confeval", fromlist=["syms_of"]).syms_of(g.get("filename")) for g in vals2)
    rep.check(rule, v2.qual, "v2: a grid section with a module but no file name gets the forcing file", ok2, what_bad=f"grid section after normalisation: {vals2[:2]}", what_ok="file name from the forcing, module kept", loc=v2.loc())
    nomod = [o for o in v2_outcomes(prog, absent=[("grid",), ("forcing", "module")]) if o["status"] == "ok"]
    okn = bool(nomod) and all("module" not in o["overlay"].get((), {}).get("grid", {}) for o in nomod)
    rep.check(rule, v2.qual, "v2: without any module entry the default classes are used (no module written)", okn and len(nomod) == len(v2_outcomes(prog, absent=[("grid",), ("forcing", "module")])), what_bad="a v2 file that names no module does not get through the normaliser", what_ok="left to init_module's default", loc=v2.loc())


V1_MAP = [
    ("time", "start", "config['time_control']['start_time']"),
    ("time", "stop", "config['time_control']['stop_time']"),
    ("time", "dt", "config['numerics']['dt']"),
    ("time", "reference", "config['time_control']['reference_time']"),
    ("tracker", "advection", "config['numerics']['advection']"),
    ("tracker", "diffusion", "config['numerics']['diffusion']"),
    ("release", "release_file", "config['files']['particle_release_file']"),
    ("release", "names", "config['particle_release']['variables']"),
    ("release", "release_frequency", "config['particle_release']['release_frequency']"),
    ("release", "continuous", "True"),
    ("output", "filename", "config['files']['output_file']"),
    ("output", "output_period", "config['output_variables']['outper']"),
    ("grid", "subgrid", "config['gridforce']['subgrid']"),
    ("forcing", "extra_forcing", "config['gridforce']['extra_forcing']"),
]


def v1_outcomes(prog: Program, default_presence: bool, present=(), absent=()):
    """configure_v1 evaluated on a symbolic v1 file (sa/confeval.py) -> list of outcomes."""
    from ..confeval import Scenario, Sym, run_function

    _V1_CACHE = prog.__dict__.setdefault("_conf_cache", {})  # per Program object: never shared between trees
    key = ("v1", default_presence, tuple(sorted(present)), tuple(sorted(absent)))
    if key not in _V1_CACHE:
        # assumption (recorded in the evidence): the v1 vocabulary has no warm_start section
        sc = Scenario(present=present, absent=list(absent) + [("warm_start",)], default_presence=default_presence)
        _V1_CACHE[key] = run_function(prog, "configure", "configure_v1", lambda: {"config": Sym(())}, sc)
    return _V1_CACHE[key]



def _v1_status(rep: Report, rule: str, v1, outs, label: str) -> list:
    """Outcomes that produced a dictionary; anything else is reported once."""
    good = [o for o in outs if o["status"] == "ok" and isinstance(o["result"], dict)]
    unsup = [o for o in outs if o["status"] == "unsupported"]
    bad = [o for o in outs if o["status"] in ("missing", "stopped") or (o["status"] == "ok" and not isinstance(o["result"], dict))]
    if unsup:
        rep.add(rule, v1.qual, f"{label}: evaluation of configure_v1", None, f"outside the evaluator: {unsup[0]['detail']}", v1.loc())
    if bad:
        o = bad[0]
        rep.bad(rule, v1.qual, f"{label}: configure_v1 returns the translated dictionary on every path", f"outcome {o['status']} {o['detail']} (choices {[k[2] + '=' + str(v) for k, v in o['choices'].items()]})", v1.loc())
    return good


def v1_translation(prog: Program, rep: Report) -> None:
    rule = "R18.6"
    from ..confeval import Sym, SymRest

    v1 = cfg(prog, "configure_v1")
    outs = _v1_status(rep, rule, v1, v1_outcomes(prog, True), "all optional v1 keys present")
    for sec, key, src in V1_MAP:
        if src == "True":
            continue
        path = tuple(ast.literal_eval(x) for x in __import__("re").findall(r"\[('[^']*')\]", src))
        vals = [o["result"].get(sec, {}).get(key, "<absent>") if isinstance(o["result"].get(sec), dict) else "<no section>" for o in outs]
        present = [v for v in vals if v != "<absent>"]
        ok = bool(present) and all(v == Sym(path) for v in present)
        rep.check(rule, v1.qual, f"{sec}.{key} <- {src}", ok, what_bad=f"translated as {sorted({repr(v) for v in vals})[:3]}: the v1 file would describe a different simulation than its v2 spelling", what_ok="same meaning", loc=v1.loc())
    # continuous only when release_type == 'continuous'
    with_c = [o for o in outs if o["result"].get("release", {}).get("continuous") is True]
    without = [o for o in outs if "continuous" not in o["result"].get("release", {})]
    noreltype = _v1_status(rep, rule, v1, v1_outcomes(prog, True, absent=[("particle_release", "release_type")]), "no release_type")
    ok = bool(with_c) and bool(without) and all("continuous" not in o["result"].get("release", {}) and "release_frequency" not in o["result"].get("release", {}) for o in noreltype) and all(o["result"]["release"].get("release_frequency") == Sym(("particle_release", "release_frequency")) for o in with_c) and all("release_frequency" not in o["result"]["release"] for o in without)
    # the state and ibm sections of the translation (the v1 file declares its variables under ibm / particle_release)
    st_keys = [set(o["result"].get("state", {})) if isinstance(o["result"].get("state"), dict) else set() for o in outs]
    rep.check(rule, v1.qual, "state section: instance_variables, particle_variables and default_values are all handed on", bool(outs) and all({"instance_variables", "particle_variables", "default_values"} <= k for k in st_keys), what_bad=f"state sections carry {sorted(set.intersection(*st_keys)) if st_keys else []}: variables a v1 file declares would be missing from the state of the translated run", what_ok="three tables", loc=v1.loc())
    ibmvar = Sym(("ibm", "variables", "*"))
    with_vars = [o for o in outs if isinstance(o["result"].get("state"), dict) and isinstance(o["result"]["state"].get("instance_variables"), dict)]
    seen_var = [o for o in with_vars if ibmvar in o["result"]["state"]["instance_variables"]]
    if seen_var:
        ok_iv = all(o["result"]["state"]["instance_variables"].get(ibmvar) == "float" and isinstance(o["result"]["state"].get("default_values"), dict) and ibmvar in o["result"]["state"]["default_values"] for o in seen_var)
        rep.check(rule, v1.qual, "ibm variables become float instance variables with a default", ok_iv, what_bad="an ibm variable of a v1 file reaches the state without type or without default: the v2 spelling (which lists it under state) describes another simulation", what_ok="float, defaulted", loc=v1.loc())
    else:
        rep.bad(rule, v1.qual, "ibm variables become float instance variables with a default", "the variables a v1 file lists under ibm are not handed to the state", v1.loc())
    # geographic release columns: a v1 file that lists lon / lat among the release variables declares them as
    # float instance variables (the v2 spelling lists them under state); decided on the outcomes a variable of that
    # name takes through every membership test on literal name lists
    relvar = Sym(("particle_release", "variables", "*"))

    def takes(o, name):
        seen = False
        for (ln, col, what), val in o["choices"].items():
            if what.startswith(f"in-list:{relvar!r}:"):
                seen = True
                if val != (name in ast.literal_eval(what.split(":", 2)[2])):
                    return None
            elif what.startswith(f"eq:{relvar!r}:"):
                seen = True
                try:
                    lit = ast.literal_eval(what.split(":", 2)[2])
                except Exception:  # noqa: BLE001
                    continue
                if val != (name == lit):
                    return None
        return seen

    for name in ("lon", "lat"):
        mine = [o for o in with_vars if takes(o, name)]
        if not any(takes(o, name) is not None for o in outs):
            rep.add(rule, v1.qual, f"release variable '{name}' becomes a float instance variable", None, "no membership test on the release variable names was met by the evaluator", v1.loc())
            continue
        okg = bool(mine) and all(o["result"]["state"]["instance_variables"].get(relvar) == "float" for o in mine)
        rep.check(rule, v1.qual, f"release variable '{name}' becomes a float instance variable", okg, what_bad=f"a v1 file with '{name}' among the release variables is translated without declaring it ({len(mine)} path(s) for that name): when X and Y are given as well the release hands '{name}' to a state that does not know it, while the v2 spelling of the same run declares it", what_ok="declared as float", loc=v1.loc())
    ibm_secs = [o["result"].get("ibm") for o in outs]
    generic = Sym(("ibm", "*"))
    has_mod = [x for x in ibm_secs if isinstance(x, dict) and "module" in x]
    has_rest = [x for x in ibm_secs if isinstance(x, dict) and any(k == generic or (isinstance(k, Sym) and k.path[:1] == ("ibm",)) for k in x)]
    rep.check(rule, v1.qual, "ibm section: the module and every other entry are handed on", bool(has_mod) and bool(has_rest), what_bad="the ibm section of the translation is empty although the v1 file has one", what_ok="passed on", loc=v1.loc())

    def says_continuous(o):
        """the outcome's resolution of the fact `release_type equals 'continuous'` (None if it was never asked)"""
        for (ln, col, what), val in o["choices"].items():
            if what.startswith("eq:") and "release_type" in what and "'continuous'" in what:
                return val
        return None

    ok = ok and all(says_continuous(o) is True for o in with_c) and all(says_continuous(o) in (False, None) for o in without)
    rep.check(rule, v1.qual, "continuous release only for release_type == 'continuous'", ok, what_bad=f"{len(with_c)} outcome(s) continuous, {len(without)} discrete; without a release_type entry: {[sorted(o['result'].get('release', {})) for o in noreltype][:2]}: a discrete v1 file must stay discrete, a continuous one must carry its frequency", what_ok="continuous iff release_type == 'continuous'", loc=v1.loc())
    # output variables: encoding.datatype <- ncformat, attributes <- the rest
    for kind, sec in (("instance", "instance_variables"), ("particle", "particle_variables")):
        okv = bool(outs)
        got = None
        for o in outs:
            d = o["result"].get("output", {}).get(sec)
            got = d
            want_key = Sym(("output_variables", kind, "*"))
            if not (isinstance(d, dict) and list(d.keys()) == [want_key]):
                okv = False
                break
            ent = d[want_key]
            okv = okv and isinstance(ent, dict) and isinstance(ent.get("encoding"), dict) and ent["encoding"].get("datatype") == Sym(("output_variables", "*", "ncformat")) and ent.get("attributes") == SymRest(("output_variables", "*"), {"ncformat"}) and set(ent) == {"encoding", "attributes"}
        rep.check(rule, v1.qual, f"{kind} output variables go to output.{sec}: encoding.datatype <- ncformat, attributes <- remaining keys", okv, what_bad=f"output.{sec} = {got!r}", what_ok="per variable: encoding.datatype, attributes", loc=v1.loc())


# R18.7 v1 file names over the presence cases of the legacy keys (evaluated by sa/confeval.py)
def v1_filenames(prog: Program, rep: Report) -> None:
    rule = "R18.7"
    import itertools

    from ..confeval import Opaque, Sym, syms_of

    v1 = cfg(prog, "configure_v1")
    keys = [("gridforce", "input_file"), ("files", "input_file"), ("gridforce", "gridfile"), ("files", "gridfile")]
    for combo in itertools.product((True, False), repeat=4):
        present = [k for k, on in zip(keys, combo) if on]
        absent = [k for k, on in zip(keys, combo) if not on]
        label = ", ".join(f"{s_}.{k}" for s_, k in present) or "neither name given"
        want_f = Sym(keys[0]) if keys[0] in present else Sym(keys[1]) if keys[1] in present else ""
        want_g = Sym(keys[2]) if keys[2] in present else Sym(keys[3]) if keys[3] in present else None
        outs = v1_outcomes(prog, True, present=present, absent=absent)
        bad, undecided = [], []
        for o in outs:
            if o["status"] == "unsupported":
                undecided.append(o["detail"])
                continue
            if o["status"] != "ok" or not isinstance(o["result"], dict):
                bad.append(f"configure_v1 ends with {o['status']} {o['detail']}")
                continue
            c2 = o["result"]
            f = c2.get("forcing", {}).get("filename", "<missing>") if isinstance(c2.get("forcing"), dict) else "<missing>"
            g = c2.get("grid", {}).get("filename", "<missing>") if isinstance(c2.get("grid"), dict) else "<missing>"
            if f != want_f:
                bad.append(f"forcing.filename = {f!r}, the file says {want_f!r}")
            if want_g is not None:
                if g != want_g:
                    bad.append(f"grid.filename = {g!r}, the file says {want_g!r}")
            elif want_f == "":
                if g not in ("", None):
                    bad.append(f"grid.filename = {g!r} although neither a grid nor a forcing file is named")
            else:
                if not (g == want_f or want_f in syms_of(g)):
                    bad.append(f"grid.filename = {g!r}; without a gridfile entry it must be derived from the forcing file {want_f!r}")
        if undecided and not bad:
            rep.add(rule, v1.qual, f"v1 file names, {label}", None, f"outside the evaluator: {undecided[0]}", v1.loc())
        else:
            rep.check(rule, v1.qual, f"v1 file names, {label}", not bad and bool(outs), what_bad="; ".join(sorted(set(bad))[:3]) + ": the legacy spelling runs with other files than its v2 spelling", what_ok=f"forcing <- {want_f!r}, grid <- {want_g!r}" if want_g is not None else f"forcing <- {want_f!r}, grid defaults to the forcing file", loc=v1.loc())


def run(prog: Program, rep: Report, tier: str) -> None:
    rep.level = "other"
    rep.explanation = (
        "Table agreement: every key the two normalisers write is compared with the constructor signature of the default class "
        "of its role (read from the source); required parameters and the sections Model.__init__ reads must be produced; optional "
        "keys must not be subscripted unguarded (Engler-style contradiction with the consumer's .get); the three spellings must "
        "converge on one configuration object; the wildcard default is the sorted first match in both versions; the v1 vocabulary "
        "maps to v2 keys of the same meaning. Decides these structural clauses, not equality of run outputs."
    )
    rep.assumptions = ["the v1 vocabulary has no warm_start section (a v1 file that carries one loses it)", "yaml.safe_load and tomli.load yield equal nested dicts for equal content"]
    rep.trusted_base = ["CPython ast", "constructor signatures read from the default role classes", "this rule module"]
    rep.rule("R18.1", "key table: written keys are constructor parameters; required parameters are produced", 25)
    rep.rule("R18.2", "sections read by Model.__init__ are produced (v1) / defaulted or dereferenced (v2)", 18)
    rep.rule("R18.3", "optional keys are never hard-required by the normaliser", 4)
    rep.rule("R18.4", "YAML, TOML and v1 converge on one configuration object; version dispatch exhaustive", 7)
    rep.rule("R18.5", "wildcard: grid file defaults to the sorted first match of the forcing pattern in both versions", 4)
    rep.rule("R18.6", "v1 vocabulary maps to v2 keys of the same meaning", 14)
    rep.rule("R18.7", "v1 input_file / gridfile: each looked up in gridforce, then files, independently, for all 16 presence cases", 16)
    key_table(prog, rep)
    sections(prog, rep)
    optional_discipline(prog, rep)
    one_path(prog, rep)
    wildcard(prog, rep)
    v1_translation(prog, rep)
    v1_filenames(prog, rep)
    # the spellings agree only if a role left to its default gets the module the other spellings name: grid and
    # forcing come from one module (a forcing class reads the attributes of its own module's grid)
    rep.rule("R18.8", "default modules: grid and forcing default to the same module, every default class exists", 2)
    gm, fm = prog.role_module.get("grid"), prog.role_module.get("forcing")
    rep.check("R18.8", "model.init_module", f"default grid module ladim.{gm}, default forcing module ladim.{fm}", gm is not None and gm == fm, what_bad="a configuration that leaves the modules out gets a grid and a forcing of different modules, a configuration that names them does not: the spellings no longer describe the same simulation", what_ok="same module", loc="ladim/model.py")
    for role, mod in sorted(prog.role_module.items()):
        cls = prog.role_class.get(role)
        rep.check("R18.8", "model.init_module", f"default {role}: ladim.{mod}.{cls}", mod in prog.modules and cls in prog.modules[mod].classes, what_bad=f"class {cls} does not exist in ladim/{mod}.py", what_ok="exists", loc="ladim/model.py")



from ..selftest import Mut  # noqa: E402

CF = "ladim/configure.py"
AUDIT = [
    Mut("benign-v2-sections-setdefault", CF, '''    if "state" not in config:\n        config["state"] = dict()\n    if "grid" not in config:\n        config["grid"] = dict()\n    if "ibm" not in config:\n        config["ibm"] = dict()\n    if "warm_start" not in config:\n        config["warm_start"] = dict()\n''', '''    for section in ("state", "grid", "ibm", "warm_start"):\n        config.setdefault(section, {})\n''', expect="silent"),
    Mut("v2-grid-module-from-wrong-section", CF, '''        config["grid"]["module"] = config["forcing"]["module"]''', '''        config["grid"]["module"] = config["output"]["module"]''', rule="R18.5"),
    Mut("benign-v1-release-temporaries", CF, '''        conf2["release"]["release_frequency"] = config["particle_release"][\n            "release_frequency"\n        ]''', '''        freq = config["particle_release"]["release_frequency"]\n        conf2["release"]["release_frequency"] = freq''', expect="silent"),
    Mut("v1-gridfile-files-only", CF, '''    if "gridfile" in config["gridforce"]:\n        conf2["grid"]["filename"] = config["gridforce"]["gridfile"]\n    elif "gridfile" in config["files"]:\n        conf2["grid"]["filename"] = config["files"]["gridfile"]\n    else:\n        conf2["grid"]["filename"] = ""\n''', '''    conf2["grid"]["filename"] = config["files"].get("gridfile", "")\n''', rule="R18.7"),
    Mut("v1-gridfile-priority-swapped", CF, '''    if "gridfile" in config["gridforce"]:\n        conf2["grid"]["filename"] = config["gridforce"]["gridfile"]\n    elif "gridfile" in config["files"]:\n        conf2["grid"]["filename"] = config["files"]["gridfile"]\n    else:\n        conf2["grid"]["filename"] = ""\n''', '''    if "gridfile" in config["files"]:\n        conf2["grid"]["filename"] = config["files"]["gridfile"]\n    elif "gridfile" in config["gridforce"]:\n        conf2["grid"]["filename"] = config["gridforce"]["gridfile"]\n    else:\n        conf2["grid"]["filename"] = ""\n''', rule="R18.7"),
    Mut("benign-v1-gridfile-get-chain", CF, '''    if "gridfile" in config["gridforce"]:\n        conf2["grid"]["filename"] = config["gridforce"]["gridfile"]\n    elif "gridfile" in config["files"]:\n        conf2["grid"]["filename"] = config["files"]["gridfile"]\n    else:\n        conf2["grid"]["filename"] = ""\n''', '''    conf2["grid"]["filename"] = config["gridforce"].get("gridfile", config["files"].get("gridfile", ""))\n''', expect="silent"),
    Mut("forcing-module-hard", CF, '    if "module" not in config["grid"] and "module" in config["forcing"]:', '    if "module" not in config["grid"]:', rule="R18.3"),
    Mut("v1-key-renamed", CF, '        output_period=config["output_variables"]["outper"],', '        period=config["output_variables"]["outper"],', rule="R18.1"),
    Mut("v1-release-key", CF, '        release_file=config["files"]["particle_release_file"],', '        file=config["files"]["particle_release_file"],', rule="R18.1"),
    Mut("v1-ibm-dropped", CF, '    else:\n        conf2["ibm"] = dict()\n', "", rule="R18.2"),
    Mut("v2-ibm-not-defaulted", CF, '    if "ibm" not in config:\n        config["ibm"] = dict()\n', "", rule="R18.2"),
    Mut("v2-warm-not-defaulted", CF, '    if "warm_start" not in config:\n        config["warm_start"] = dict()\n', "", rule="R18.2"),
    Mut("v2-first-unsorted", CF, "                filename = sorted(flist)[0]", "                filename = flist[0]", rule="R18.5"),
    Mut("v1-first-unsorted", CF, "            filename = sorted(directory.glob(filename.name))[0]", "            filename = list(directory.glob(filename.name))[0]", rule="R18.5"),
    Mut("v1-start-stop-swapped", CF, '        start=config["time_control"]["start_time"],\n        stop=config["time_control"]["stop_time"],', '        start=config["time_control"]["stop_time"],\n        stop=config["time_control"]["start_time"],', rule="R18.6"),
    Mut("v1-forgets-return", CF, "        config = configure_v1(config)", "        configure_v1(config)", rule="R18.4"),
    Mut("toml-other-variable", CF, "                config = tomli.load(fid)", "                conf = tomli.load(fid)", rule="R18.4"),
    Mut("v1-particle-vars-to-instance", CF, '        conf2["output"]["particle_variables"][var] = dict()\n        D = config["output_variables"][var].copy()\n        conf2["output"]["particle_variables"][var]["encoding"] = dict(', '        conf2["output"]["instance_variables"][var] = dict()\n        D = config["output_variables"][var].copy()\n        conf2["output"]["particle_variables"][var]["encoding"] = dict(', rule="R18.6"),
    Mut("v1-grid-module-differs", CF, '        conf2["grid"]["module"] = "ladim.ROMS"\n        conf2["forcing"]["module"] = "ladim.ROMS"', '        conf2["grid"]["module"] = "ladim.ROMS2"\n        conf2["forcing"]["module"] = "ladim.ROMS"', rule="R18.5"),
    Mut("benign-optional-get", CF, '    if "module" not in config["grid"] and "module" in config["forcing"]:\n        config["grid"]["module"] = config["forcing"]["module"]', '    if "module" in config["forcing"]:\n        if "module" not in config["grid"]:\n            config["grid"]["module"] = config["forcing"]["module"]', expect="silent"),
    Mut("benign-new-optional-key", CF, '    if "ibm" not in config:\n        config["ibm"] = dict()\n', '    if "ibm" not in config:\n        config["ibm"] = dict()\n    if "numrec" not in config["output"]:\n        config["output"]["numrec"] = 0\n', expect="silent"),
]
