"""C18 - one simulation, three spellings: YAML v2, TOML v2, legacy v1 give the same run.

Decided: the v1->v2 key table against the constructor signatures of the default role classes,
production of every required parameter and of every section Model.__init__ reads, optional keys never
hard-required by the normaliser, convergence of the YAML/TOML/v1 arms on one configuration object, and
the wildcard default of the grid file (sorted first match) in both versions.
Not decided: equality of run outputs.
"""

from __future__ import annotations

import ast

from ..paths import enumerate_paths
from ..program import AnalysisError, FuncInfo, Program, unparse, short, walk_no_nested, unroll_literal_loops
from ..report import Report

ROLES = ("state", "time", "grid", "forcing", "release", "tracker", "ibm", "output")


def cfg(prog: Program, name: str) -> FuncInfo:
    """configure_v1 / configure_v2 with loops over literal tuples unrolled (a loop over the optional
    section names is the same as four repeated ifs)."""
    fi = prog.func(f"configure.{name}")
    return FuncInfo(fi.module, fi.qual, unroll_literal_loops(fi.node), fi.cls)


def section_writes(fi: FuncInfo, root: str) -> list[tuple[str, str, ast.AST]]:
    """(section, key, node) for `root[sec][key] = ...` and `root[sec] = dict(key=...)`."""
    out = []
    for n in walk_no_nested(fi.node):
        if isinstance(n, ast.Assign):
            for t in n.targets:
                if isinstance(t, ast.Subscript) and isinstance(t.slice, ast.Constant) and isinstance(t.value, ast.Subscript) and unparse(t.value.value) == root and isinstance(t.value.slice, ast.Constant):
                    out.append((t.value.slice.value, t.slice.value, n))
                if isinstance(t, ast.Subscript) and unparse(t.value) == root and isinstance(t.slice, ast.Constant):
                    sec = t.slice.value
                    v = n.value
                    if isinstance(v, ast.Call) and unparse(v.func) == "dict":
                        for kw in v.keywords:
                            if kw.arg:
                                out.append((sec, kw.arg, n))
                        out.append((sec, None, n))
                    elif isinstance(v, ast.Dict):
                        for k in v.keys:
                            if isinstance(k, ast.Constant):
                                out.append((sec, k.value, n))
                        out.append((sec, None, n))
                    else:
                        out.append((sec, None, n))
    return out


def ctor_params(prog: Program, role: str):
    fi = prog.role_func(role, "__init__")
    a = fi.node.args
    names = [x.arg for x in a.posonlyargs + a.args + a.kwonlyargs if x.arg not in ("self", "modules")]
    required = [p for p in names if p not in fi.defaults()]
    return fi, names, required, a.kwarg is not None


def key_table(prog: Program, rep: Report) -> None:
    rule = "R18.1"
    v1 = cfg(prog, "configure_v1")
    v2 = cfg(prog, "configure_v2")
    for fi, root in ((v1, "conf2"), (v2, "config")):
        writes = section_writes(fi, root)
        for sec, key, node in writes:
            if key is None or sec not in ROLES:
                continue
            ctor, names, required, has_kwargs = ctor_params(prog, sec)
            ok = key == "module" or key in names or has_kwargs
            rep.check(rule, fi.qual, f"{sec}.{key}", ok, what_bad=f"key {key!r} written into section {sec!r} is not a parameter of {ctor.qual} ({names}): the constructor raises TypeError, or the setting is silently lost", what_ok="constructor parameter" if key != "module" else "consumed by init_module", loc=fi.loc(node))
    # required parameters produced by v1
    w1 = section_writes(v1, "conf2")
    for role in ROLES:
        ctor, names, required, _ = ctor_params(prog, role)
        for p in required:
            ok = any(s == role and k == p for s, k, _ in w1)
            rep.check(rule, v1.qual, f"required parameter {role}.{p}", ok, what_bad=f"{ctor.qual} requires {p!r} but configure_v1 never produces it", what_ok="produced", loc=v1.loc())


def sections(prog: Program, rep: Report) -> None:
    rule = "R18.2"
    mi = prog.func("model.Model.__init__")
    reads = set(prog.role_order)
    for n in walk_no_nested(mi.node):
        if isinstance(n, ast.Subscript) and unparse(n.value) == "config" and isinstance(n.slice, ast.Constant):
            reads.add(n.slice.value)
    v1 = cfg(prog, "configure_v1")
    v2 = cfg(prog, "configure_v2")
    w1 = section_writes(v1, "conf2")
    produced_uncond = set()
    produced_cond = set()
    for st in v1.node.body:
        for s, k, node in w1:
            if k is None and node is st:
                produced_uncond.add(s)
    for s, k, node in w1:
        if k is None and s not in produced_uncond:
            produced_cond.add(s)
    # an if/else that assigns the section in both arms counts as unconditional
    for st in v1.node.body:
        if isinstance(st, ast.If) and st.orelse:
            a = {s for s, k, node in w1 if k is None and any(node is x for x in ast.walk(ast.Module(body=st.body, type_ignores=[])))}
            b = {s for s, k, node in w1 if k is None and any(node is x for x in ast.walk(ast.Module(body=st.orelse, type_ignores=[])))}
            produced_uncond |= a & b
    for sec in sorted(reads):
        if sec == "warm_start":
            ok = sec in produced_uncond or sec in produced_cond
            rep.check(rule, v1.qual, f"section {sec!r} (v1 has no such vocabulary: defaulted when absent)", ok, what_bad="Model.__init__ reads config['warm_start'] but configure_v1 never sets it", what_ok="defaulted to {}", loc=v1.loc())
        else:
            rep.check(rule, v1.qual, f"section {sec!r} produced on every path", sec in produced_uncond, what_bad=f"Model.__init__ reads config[{sec!r}] but configure_v1 produces it only conditionally or never", what_ok="produced", loc=v1.loc())
    # v2: defaulted or dereferenced
    defaulted = set()
    deref = set()
    for n in walk_no_nested(v2.node):
        if isinstance(n, ast.If) and isinstance(n.test, ast.Compare) and isinstance(n.test.ops[0], ast.NotIn) and unparse(n.test.comparators[0]) == "config" and isinstance(n.test.left, ast.Constant):
            sec = n.test.left.value
            if any(isinstance(x, ast.Assign) and unparse(x.targets[0]) == f"config[{sec!r}]" for x in n.body):
                defaulted.add(sec)
    for st in v2.node.body:
        for n in ast.walk(st):
            if isinstance(n, ast.Subscript) and unparse(n.value) == "config" and isinstance(n.slice, ast.Constant) and isinstance(n.ctx, ast.Load):
                # unguarded at statement level (not inside an `in config` test of the same section)
                deref.add(n.slice.value)
    # optional sections (documented as such; the property: "omitted optional sections behave as empty ones",
    # "omitting the grid section uses the forcing module"): must be defaulted, not merely dereferenced
    OPTIONAL = {"state", "grid", "ibm", "warm_start"}
    for sec in sorted(reads):
        ok = sec in defaulted or (sec in deref and sec not in OPTIONAL)
        how = "defaulted" if sec in defaulted else "dereferenced (KeyError -> clean stop)"
        if sec in OPTIONAL and sec not in defaulted:
            how = "optional section not defaulted"
        rep.check(rule, v2.qual, f"section {sec!r}: {how if ok else 'neither defaulted nor dereferenced'}", ok, what_bad=f"a v2 file without section {sec!r} reaches Model.__init__ and fails there with a raw KeyError", what_ok=how, loc=v2.loc())
    for sec in ("tracker", "release"):
        none_fix = any(isinstance(n, ast.If) and unparse(n.test) == f"config[{sec!r}] is None" and any(isinstance(x, ast.Assign) and unparse(x.targets[0]) == f"config[{sec!r}]" for x in n.body) for n in walk_no_nested(v2.node))
        rep.check(rule, v2.qual, f"empty section {sec!r} (None) is replaced by a dict", none_fix, what_bad="an empty YAML section is None: init_module calls .get on it", what_ok="replaced", loc=v2.loc())


def optional_discipline(prog: Program, rep: Report) -> None:
    rule = "R18.3"
    v2 = cfg(prog, "configure_v2")
    pm = {}
    for p in ast.walk(v2.node):
        for c in ast.iter_child_nodes(p):
            pm[id(c)] = p
    n_sites = 0
    for n in walk_no_nested(v2.node):
        if isinstance(n, ast.Subscript) and isinstance(n.ctx, ast.Load) and isinstance(n.slice, ast.Constant) and isinstance(n.value, ast.Subscript) and unparse(n.value.value) == "config" and isinstance(n.value.slice, ast.Constant):
            sec, key = n.value.slice.value, n.slice.value
            if sec not in ROLES and sec != "warm_start":
                continue
            optional = key == "module"
            if sec in ROLES and key != "module":
                ctor, names, required, _ = ctor_params(prog, sec)
                optional = key not in required
            if sec == "warm_start":
                optional = True
            n_sites += 1
            if not optional:
                rep.ok(rule, v2.qual, f"config[{sec!r}][{key!r}] (mandatory key: KeyError -> clean stop)", "", v2.loc(n))
                continue
            # guarded by a membership test on an enclosing If
            guarded = False
            cur = n
            while id(cur) in pm:
                par = pm[id(cur)]
                if isinstance(par, ast.If):
                    in_body = any(any(x is cur for x in ast.walk(s)) for s in par.body)
                    t = unparse(par.test)
                    if in_body and f"{key!r} in config[{sec!r}]" in t and f"{key!r} not in config[{sec!r}]" not in t:
                        guarded = True
                cur = par
            rep.check(rule, v2.qual, f"config[{sec!r}][{key!r}] (optional key)", guarded, what_bad=f"the consumer treats {key!r} as optional (default / .get) but the normaliser subscripts it unguarded: a file that omits it stops with \"Missing key\"", what_ok="guarded by a membership test", loc=v2.loc(n))
    if n_sites < 3:
        raise AnalysisError("configure_v2: fewer key reads than confirmed by hand")
    im = prog.func("model.init_module")
    ok = any(isinstance(n, ast.Call) and isinstance(n.func, ast.Attribute) and n.func.attr == "get" and n.args and isinstance(n.args[0], ast.Constant) and n.args[0].value == "module" and len(n.args) == 2 for n in walk_no_nested(im.node))
    rep.check(rule, im.qual, "consumer: module is optional (conf_dict.get('module', default))", ok, what_bad="init_module requires an explicit module", what_ok="optional", loc=im.loc())


def one_path(prog: Program, rep: Report) -> None:
    rule = "R18.4"
    fi = prog.func("configure.configure")
    loads = {}
    for n in walk_no_nested(fi.node):
        if isinstance(n, (ast.Assign, ast.AnnAssign)):
            t = n.targets[0] if isinstance(n, ast.Assign) else n.target
            if unparse(t) == "config" and n.value is not None:
                loads[unparse(n.value)] = n
    rep.check(rule, fi.qual, "TOML and YAML arms bind the same variable", any("tomli.load" in k for k in loads) and any("yaml.safe_load" in k for k in loads), what_bad=f"assignments to config: {list(loads)}", what_ok="config = tomli.load / yaml.safe_load", loc=fi.loc())
    disp = [n for n in walk_no_nested(fi.node) if isinstance(n, ast.If) and unparse(n.test) == "filetype == 'toml'"]
    rep.check(rule, fi.qual, "file type from the suffix; everything but .toml is YAML", len(disp) == 1 and bool(disp[0].orelse), what_bad="suffix dispatch changed", what_ok="toml / default yaml", loc=fi.loc())
    ver = [n for n in walk_no_nested(fi.node) if isinstance(n, ast.Assign) and unparse(n.targets[0]) == "version"]
    srcs = [unparse(n.value) for n in ver]
    rep.check(rule, fi.qual, "version: explicit key, else inferred from the presence of time_control", "str(config.get('version', '0'))" in srcs and "'1' if 'time_control' in config else '2'" in srcs, what_bad=f"{srcs}", what_ok="explicit or inferred", loc=fi.loc())
    v2call = [n for n in walk_no_nested(fi.node) if isinstance(n, ast.Expr) and isinstance(n.value, ast.Call) and unparse(n.value.func) == "configure_v2" and [unparse(a) for a in n.value.args] == ["config"]]
    v1call = [n for n in walk_no_nested(fi.node) if isinstance(n, ast.Assign) and unparse(n.targets[0]) == "config" and unparse(n.value) == "configure_v1(config)"]
    rets = [n for n in walk_no_nested(fi.node) if isinstance(n, ast.Return)]
    rep.check(rule, fi.qual, "v2 normalised in place, v1 translated into the same variable, one return", len(v2call) == 1 and len(v1call) == 1 and len(rets) == 1 and unparse(rets[0].value) == "config", what_bad=f"v2 calls {len(v2call)}, v1 assignments {len(v1call)}, returns {[unparse(r.value) for r in rets]}", what_ok="return config", loc=fi.loc())
    tests = [unparse(n.test) for n in walk_no_nested(fi.node) if isinstance(n, ast.If) and "version[0]" in unparse(n.test)]
    rep.check(rule, fi.qual, "version dispatch covers '2', '1' and stops otherwise", "version[0] == '2'" in tests and "version[0] == '1'" in tests, what_bad=f"{tests}", what_ok="2 / 1 / else stop", loc=fi.loc())
    v2 = cfg(prog, "configure_v2")
    rets = [n for n in walk_no_nested(v2.node) if isinstance(n, ast.Return) and n.value is not None]
    rep.check(rule, v2.qual, "configure_v2 works in place (returns nothing)", not rets, what_bad="the caller ignores a returned dict", what_ok="in place", loc=v2.loc())
    v1 = cfg(prog, "configure_v1")
    rets = [n for n in walk_no_nested(v1.node) if isinstance(n, ast.Return)]
    rep.check(rule, v1.qual, "configure_v1 returns the translated dict", len(rets) == 1 and unparse(rets[0].value) == "conf2", what_bad=f"{[unparse(r.value) for r in rets if r.value is not None]}", what_ok="conf2", loc=v1.loc())


def wildcard(prog: Program, rep: Report) -> None:
    rule = "R18.5"
    for name, root in (("configure_v1", "conf2"), ("configure_v2", "config")):
        fi = cfg(prog, name)
        src = unparse(fi.node)
        globs = [n for n in walk_no_nested(fi.node) if isinstance(n, ast.Call) and isinstance(n.func, ast.Attribute) and n.func.attr == "glob"]
        ok_glob = len(globs) == 1 and unparse(globs[0].func.value) == "directory" and unparse(globs[0].args[0]) == "filename.name"
        firsts = [n for n in walk_no_nested(fi.node) if isinstance(n, ast.Subscript) and unparse(n.slice) == "0" and isinstance(n.value, ast.Call) and unparse(n.value.func) == "sorted"]
        wild = [n for n in walk_no_nested(fi.node) if isinstance(n, ast.If) and "'*' in str(filename)" in unparse(n.test) and "'?' in str(filename)" in unparse(n.test)]
        fn = [n for n in walk_no_nested(fi.node) if isinstance(n, ast.Assign) and unparse(n.targets[0]) == "filename" and "forcing" in unparse(n.value) and "filename" in unparse(n.value)]
        store = [n for n in walk_no_nested(fi.node) if isinstance(n, ast.Assign) and unparse(n.targets[0]) == f"{root}['grid']['filename']" and unparse(n.value) == "filename"]
        rep.check(rule, fi.qual, "grid file defaults to the forcing file; a wildcard resolves to the sorted first match", ok_glob and len(firsts) == 1 and len(wild) == 1 and bool(fn) and len(store) == 1, what_bad=f"glob ok={ok_glob}, sorted(...)[0] sites={len(firsts)}, wildcard tests={len(wild)}, filename from forcing={bool(fn)}, store={len(store)}", what_ok="sorted(directory.glob(name))[0]", loc=fi.loc())
    v1 = cfg(prog, "configure_v1")
    w = section_writes(v1, "conf2")
    gm = [unparse(n.value) for s, k, n in w if s == "grid" and k == "module"]
    fm = [unparse(n.value) for s, k, n in w if s == "forcing" and k == "module"]
    rep.check(rule, v1.qual, "v1: grid and forcing use the same module", gm == fm and len(gm) == 2, what_bad=f"grid {gm} / forcing {fm}", what_ok="same", loc=v1.loc())
    v2 = cfg(prog, "configure_v2")
    ok = any(isinstance(n, ast.If) and "'module' not in config['grid']" in unparse(n.test) and any(unparse(x) == "config['grid']['module'] = config['forcing']['module']" for x in n.body) for n in walk_no_nested(v2.node))
    rep.check(rule, v2.qual, "v2: an omitted grid module is the forcing module", ok, what_bad="grid module not inherited from forcing", what_ok="inherited", loc=v2.loc())


V1_MAP = [
    ("time", "start", "config['time_control']['start_time']"),
    ("time", "stop", "config['time_control']['stop_time']"),
    ("time", "dt", "config['numerics']['dt']"),
    ("time", "reference", "config['time_control']['reference_time']"),
    ("tracker", "advection", "config['numerics']['advection']"),
    ("tracker", "diffusion", "config['numerics']['diffusion']"),
    ("release", "release_file", "config['files']['particle_release_file']"),
    ("release", "names", "config['particle_release']['variables']"),
    ("release", "release_frequency", "config['particle_release']['release_frequency']"),
    ("release", "continuous", "True"),
    ("output", "filename", "config['files']['output_file']"),
    ("output", "output_period", "config['output_variables']['outper']"),
    ("grid", "subgrid", "config['gridforce']['subgrid']"),
    ("forcing", "extra_forcing", "config['gridforce']['extra_forcing']"),
]


def v1_translation(prog: Program, rep: Report) -> None:
    rule = "R18.6"
    from ..program import expand_locals

    v1 = cfg(prog, "configure_v1")
    got = {}

    def xv(e):  # value with single-assignment temporaries substituted
        return unparse(expand_locals(e, v1.node))

    for n in walk_no_nested(v1.node):
        if isinstance(n, ast.Assign):
            for t in n.targets:
                if isinstance(t, ast.Subscript) and isinstance(t.slice, ast.Constant) and isinstance(t.value, ast.Subscript) and unparse(t.value.value) == "conf2" and isinstance(t.value.slice, ast.Constant):
                    got.setdefault((t.value.slice.value, t.slice.value), []).append(xv(n.value))
                if isinstance(t, ast.Subscript) and unparse(t.value) == "conf2" and isinstance(t.slice, ast.Constant) and isinstance(n.value, ast.Call) and unparse(n.value.func) == "dict":
                    for kw in n.value.keywords:
                        got.setdefault((t.slice.value, kw.arg), []).append(xv(kw.value))
    for sec, key, src in V1_MAP:
        vals = got.get((sec, key), [])
        rep.check(rule, v1.qual, f"{sec}.{key} <- {src}", src in vals, what_bad=f"translated from {vals}: the v1 file would describe a different simulation than its v2 spelling", what_ok="same meaning", loc=v1.loc())
    # continuous only when release_type == 'continuous'
    cont = [n for n in walk_no_nested(v1.node) if isinstance(n, ast.If) and "release_type" in unparse(n.test) and "== 'continuous'" in unparse(n.test)]
    rep.check(rule, v1.qual, "continuous release only for release_type == 'continuous'", len(cont) == 1 and any("conf2['release']['continuous'] = True" == unparse(x) for x in cont[0].body), what_bad="release type translation", what_ok="ok", loc=v1.loc())
    # output variables: encoding.datatype <- ncformat, attributes <- the rest
    enc = []
    for f in prog.module("configure").functions.values():
        src_f = unparse(f.node)
        if ".pop('ncformat')" in src_f and "datatype" in src_f and "encoding" in src_f and "attributes" in src_f:
            enc.append(f.qual)
    rep.check(rule, v1.qual, "output variables: encoding.datatype <- ncformat, attributes <- remaining keys", len(enc) >= 1, what_bad="the v1 `ncformat` entry is not translated into encoding.datatype", what_ok=f"in {enc}", loc=v1.loc())
    loops = {unparse(n.iter): n for n in walk_no_nested(v1.node) if isinstance(n, ast.For)}
    rep.check(rule, v1.qual, "instance / particle output variable lists", "config['output_variables']['instance']" in loops and "config['output_variables']['particle']" in loops, what_bad=f"{list(loops)}", what_ok="ok", loc=v1.loc())
    for it, sec in (("config['output_variables']['instance']", "instance_variables"), ("config['output_variables']['particle']", "particle_variables")):
        lp = loops.get(it)
        ok = lp is not None and all(f"conf2['output']['{sec}'][var]" in unparse(s) for s in lp.body if isinstance(s, ast.Assign) and "conf2" in unparse(s.targets[0]))
        rep.check(rule, v1.qual, f"{it.split('[')[-1][:-1]} variables go to output.{sec}", ok, what_bad="instance and particle output variables mixed up", what_ok="ok", loc=v1.loc())


# ---------------------------------------------------------------------------
# R18.7 v1 file names: a small evaluator over presence cases of the legacy keys
# ---------------------------------------------------------------------------
class _Sym:
    """A value taken from the input file (assumed a non-empty string)."""

    def __init__(self, path):
        self.path = path

    def __repr__(self):
        return f"<{self.path}>"

    def __eq__(self, o):
        return isinstance(o, _Sym) and o.path == self.path

    def __hash__(self):
        return hash(self.path)


class _Derived:
    """Result of an uninterpreted call / attribute over values: remembers which inputs it mentions."""

    def __init__(self, syms, text=""):
        self.syms = frozenset(syms)
        self.text = text

    def __repr__(self):
        return f"derived{sorted(s.path for s in self.syms)}"


class _Sec:
    def __init__(self, name):
        self.name = name


class _KeyErr(Exception):
    pass


class _Fork(Exception):
    def __init__(self, node):
        self.node = node


class _Unsupported(Exception):
    pass


def _syms_of(v):
    if isinstance(v, _Sym):
        return {v}
    if isinstance(v, _Derived):
        return set(v.syms)
    if isinstance(v, (list, tuple)):
        out = set()
        for x in v:
            out |= _syms_of(x)
        return out
    return set()


class _ConfEval:
    def __init__(self, present: set, choices: dict, cfgname: str = "config"):
        self.present = present  # {(section, key)}
        self.choices = choices  # id(test node) -> bool, for tests that cannot be decided
        self.env: dict = {cfgname: "CONFIG"}
        self.cfgname = cfgname

    def truth(self, v, node):
        if isinstance(v, bool):
            return v
        if v is None:
            return False
        if isinstance(v, (_Sym, _Derived)):
            return True if isinstance(v, _Sym) or v.syms else self._choice(node)
        if isinstance(v, (str, int, float, dict, list, tuple)):
            return bool(v)
        return self._choice(node)

    def _choice(self, node):
        k = (node.lineno, node.col_offset)
        if k not in self.choices:
            raise _Fork(k)
        return self.choices[k]

    def ev(self, e):
        if isinstance(e, ast.Constant):
            return e.value
        if isinstance(e, ast.Name):
            if e.id in self.env:
                return self.env[e.id]
            return _Derived(set(), e.id)
        if isinstance(e, ast.Subscript):
            b = self.ev(e.value)
            k = self.ev(e.slice)
            if b == "CONFIG" and isinstance(k, str):
                return _Sec(k)
            if isinstance(b, _Sec) and isinstance(k, str):
                if (b.name, k) in self.present:
                    return _Sym(f"{b.name}.{k}")
                if (b.name, k) in self.absent_tracked:
                    raise _KeyErr(f"{b.name}.{k}")
                return _Sym(f"{b.name}.{k}")  # keys outside the studied ones: present
            if isinstance(b, dict):
                if isinstance(k, (str, int)) and k in b:
                    return b[k]
                raise _KeyErr(str(k))
            return _Derived(_syms_of(b) | _syms_of(k), unparse(e))
        if isinstance(e, ast.Compare) and len(e.ops) == 1 and isinstance(e.ops[0], (ast.In, ast.NotIn)):
            k = self.ev(e.left)
            c = self.ev(e.comparators[0])
            neg = isinstance(e.ops[0], ast.NotIn)
            if isinstance(c, _Sec) and isinstance(k, str):
                if (c.name, k) in self.present:
                    r = True
                elif (c.name, k) in self.absent_tracked:
                    r = False
                else:
                    return self._choice(e) ^ neg
                return r ^ neg
            if isinstance(c, dict) and isinstance(k, (str, int)):
                return (k in c) ^ neg
            if c == "CONFIG" and isinstance(k, str):
                return True ^ neg if k in ("gridforce", "files") else self._choice(e) ^ neg
            return self._choice(e) ^ neg
        if isinstance(e, ast.Compare):
            return self._choice(e)
        if isinstance(e, ast.BoolOp):
            if isinstance(e.op, ast.And):
                v = True
                for x in e.values:
                    v = self.ev(x)
                    if not self.truth(v, x):
                        return v
                return v
            v = False
            for x in e.values:
                v = self.ev(x)
                if self.truth(v, x):
                    return v
            return v
        if isinstance(e, ast.UnaryOp) and isinstance(e.op, ast.Not):
            return not self.truth(self.ev(e.operand), e.operand)
        if isinstance(e, ast.IfExp):
            return self.ev(e.body) if self.truth(self.ev(e.test), e.test) else self.ev(e.orelse)
        if isinstance(e, ast.Dict):
            return {self.ev(k): self.ev(v) for k, v in zip(e.keys, e.values) if k is not None}
        if isinstance(e, ast.Call):
            fn = unparse(e.func)
            if fn == "dict" and not e.args:
                return {kw.arg: self.ev(kw.value) for kw in e.keywords if kw.arg}
            if isinstance(e.func, ast.Attribute) and e.func.attr == "get" and 1 <= len(e.args) <= 2:
                b = self.ev(e.func.value)
                k = self.ev(e.args[0])
                dflt = self.ev(e.args[1]) if len(e.args) == 2 else None
                if isinstance(b, _Sec) and isinstance(k, str):
                    if (b.name, k) in self.present:
                        return _Sym(f"{b.name}.{k}")
                    if (b.name, k) in self.absent_tracked:
                        return dflt
                    return _Sym(f"{b.name}.{k}")
                if isinstance(b, dict):
                    return b.get(k, dflt)
            if isinstance(e.func, ast.Attribute) and e.func.attr in ("copy",) and not e.args:
                b = self.ev(e.func.value)
                if isinstance(b, dict):
                    return dict(b)
            vals = [self.ev(a) for a in e.args] + [self.ev(k.value) for k in e.keywords]
            recv = self.ev(e.func.value) if isinstance(e.func, ast.Attribute) else None
            return _Derived(_syms_of(vals) | _syms_of(recv), unparse(e)[:40])
        if isinstance(e, ast.Attribute):
            b = self.ev(e.value)
            return _Derived(_syms_of(b), unparse(e))
        if isinstance(e, (ast.Tuple, ast.List)):
            return [self.ev(x) for x in e.elts]
        if isinstance(e, ast.JoinedStr):
            return _Derived(set().union(*[_syms_of(self.ev(v.value)) for v in e.values if isinstance(v, ast.FormattedValue)]) if any(isinstance(v, ast.FormattedValue) for v in e.values) else set(), "fstring")
        if isinstance(e, ast.BinOp):
            return _Derived(_syms_of(self.ev(e.left)) | _syms_of(self.ev(e.right)), unparse(e)[:40])
        raise _Unsupported(unparse(e)[:60])

    absent_tracked: set = set()

    def store(self, t, v):
        if isinstance(t, ast.Name):
            self.env[t.id] = v
            return
        if isinstance(t, ast.Subscript):
            b = self.ev(t.value)
            k = self.ev(t.slice)
            if isinstance(b, dict) and isinstance(k, (str, int)):
                b[k] = v
                return
            if isinstance(b, (_Sec,)) or b == "CONFIG":
                return  # writes into the input configuration: not part of the result studied here
            return
        if isinstance(t, (ast.Tuple, ast.List)) and isinstance(v, list) and len(v) == len(t.elts):
            for a, b in zip(t.elts, v):
                self.store(a, b)
            return
        raise _Unsupported(unparse(t)[:60])

    def run(self, stmts):
        for st in stmts:
            if isinstance(st, (ast.Assign, ast.AnnAssign)):
                if st.value is None:
                    continue
                v = self.ev(st.value)
                for t in st.targets if isinstance(st, ast.Assign) else [st.target]:
                    self.store(t, v)
            elif isinstance(st, ast.If):
                self.run(st.body if self.truth(self.ev(st.test), st.test) else st.orelse)
            elif isinstance(st, ast.Expr):
                continue
            elif isinstance(st, ast.Return):
                self.result = self.ev(st.value) if st.value is not None else None
                return
            elif isinstance(st, ast.Pass):
                continue
            else:
                raise _Unsupported(short(st))


def _relevant_slice(fn: ast.FunctionDef, wanted=(("forcing", "filename"), ("grid", "filename"))):
    """Top-level statements of `fn` that can affect conf2[sec][key] for the wanted pairs: those writing
    conf2[sec] / conf2[sec][key] (or all of conf2), plus the definitions of the local names they read."""
    secs = {s for s, _ in wanted}
    names: set = set()
    rel: list = []

    def writes_wanted(st) -> bool:
        for x in ast.walk(st):
            if isinstance(x, ast.Subscript) and isinstance(x.ctx, ast.Store):
                txt = unparse(x)
                for s_, k_ in wanted:
                    if txt in (f"conf2['{s_}']['{k_}']", f"conf2['{s_}']"):
                        return True
            if isinstance(x, ast.Name) and isinstance(x.ctx, ast.Store) and x.id == "conf2":
                return True
        return False

    def reads(st) -> set:
        return {x.id for x in ast.walk(st) if isinstance(x, ast.Name) and isinstance(x.ctx, ast.Load)}

    def stores(st) -> set:
        return {x.id for x in ast.walk(st) if isinstance(x, ast.Name) and isinstance(x.ctx, ast.Store)}

    body = [st for st in fn.body if not (isinstance(st, ast.Expr) and isinstance(st.value, ast.Constant))]
    changed = True
    chosen: set = set()
    while changed:
        changed = False
        for i, st in enumerate(body):
            if i in chosen:
                continue
            if writes_wanted(st) or (stores(st) & names):
                chosen.add(i)
                names |= reads(st)
                changed = True
    return [body[i] for i in sorted(chosen)]


def v1_filenames(prog: Program, rep: Report) -> None:
    rule = "R18.7"
    import itertools

    v1 = cfg(prog, "configure_v1")
    sl = _relevant_slice(v1.node)
    if len(sl) < 3:
        raise AnalysisError("configure_v1: statements producing forcing.filename / grid.filename not found")
    keys = [("gridforce", "input_file"), ("files", "input_file"), ("gridforce", "gridfile"), ("files", "gridfile")]
    for combo in itertools.product((True, False), repeat=4):
        present = {k for k, on in zip(keys, combo) if on}
        label = ", ".join(f"{s}.{k}" for s, k in keys if (s, k) in present) or "neither name given"
        want_f = _Sym("gridforce.input_file") if keys[0] in present else _Sym("files.input_file") if keys[1] in present else ""
        want_g = _Sym("gridforce.gridfile") if keys[2] in present else _Sym("files.gridfile") if keys[3] in present else None
        pending = [dict()]
        outcomes = []
        guard = 0
        while pending and guard < 64:
            guard += 1
            ch = pending.pop()
            ev = _ConfEval(present, ch)
            ev.absent_tracked = set(keys) - present
            try:
                ev.run(sl)
                outcomes.append((ch, ev.env.get("conf2")))
            except _Fork as f:
                pending.append({**ch, f.node: True})
                pending.append({**ch, f.node: False})
            except _KeyErr as e:
                outcomes.append((ch, f"KeyError {e}"))
            except _Unsupported as e:
                outcomes.append((ch, f"unsupported {e}"))
        bad = []
        undecided = []
        for ch, c2 in outcomes:
            if isinstance(c2, str):
                (undecided if c2.startswith("unsupported") else bad).append(c2)
                continue
            if not isinstance(c2, dict):
                undecided.append("conf2 not built")
                continue
            f = c2.get("forcing", {}).get("filename", "<missing>") if isinstance(c2.get("forcing"), dict) else "<missing>"
            g = c2.get("grid", {}).get("filename", "<missing>") if isinstance(c2.get("grid"), dict) else "<missing>"
            if f != want_f:
                bad.append(f"forcing.filename = {f!r}, the file says {want_f!r}")
            if want_g is not None:
                if g != want_g:
                    bad.append(f"grid.filename = {g!r}, the file says {want_g!r}")
            elif want_f == "":
                if g not in ("", None):
                    bad.append(f"grid.filename = {g!r} although neither a grid nor a forcing file is named")
            else:
                if not (isinstance(g, _Derived) and want_f in g.syms or g == want_f):
                    bad.append(f"grid.filename = {g!r}; without a gridfile entry it must be derived from the forcing file {want_f!r}")
        if undecided and not bad:
            rep.add(rule, v1.qual, f"v1 file names, {label}", None, f"outside the evaluator: {undecided[0]}", v1.loc())
        else:
            rep.check(rule, v1.qual, f"v1 file names, {label}", not bad, what_bad="; ".join(sorted(set(bad))[:3]) + ": the legacy spelling runs with other files than its v2 spelling", what_ok=f"forcing <- {want_f!r}, grid <- {want_g!r}" if want_g is not None else f"forcing <- {want_f!r}, grid defaults to the forcing file", loc=v1.loc())


def run(prog: Program, rep: Report, tier: str) -> None:
    rep.level = "other"
    rep.explanation = (
        "Table agreement: every key the two normalisers write is compared with the constructor signature of the default class "
        "of its role (read from the source); required parameters and the sections Model.__init__ reads must be produced; optional "
        "keys must not be subscripted unguarded (Engler-style contradiction with the consumer's .get); the three spellings must "
        "converge on one configuration object; the wildcard default is the sorted first match in both versions; the v1 vocabulary "
        "maps to v2 keys of the same meaning. Decides these structural clauses, not equality of run outputs."
    )
    rep.assumptions = ["the v1 vocabulary has no warm_start section (a v1 file that carries one loses it)", "yaml.safe_load and tomli.load yield equal nested dicts for equal content"]
    rep.trusted_base = ["CPython ast", "constructor signatures read from the default role classes", "this rule module"]
    rep.rule("R18.1", "key table: written keys are constructor parameters; required parameters are produced", 25)
    rep.rule("R18.2", "sections read by Model.__init__ are produced (v1) / defaulted or dereferenced (v2)", 18)
    rep.rule("R18.3", "optional keys are never hard-required by the normaliser", 4)
    rep.rule("R18.4", "YAML, TOML and v1 converge on one configuration object; version dispatch exhaustive", 7)
    rep.rule("R18.5", "wildcard: grid file defaults to the sorted first match of the forcing pattern in both versions", 4)
    rep.rule("R18.6", "v1 vocabulary maps to v2 keys of the same meaning", 14)
    rep.rule("R18.7", "v1 input_file / gridfile: each looked up in gridforce, then files, independently, for all 16 presence cases", 16)
    key_table(prog, rep)
    sections(prog, rep)
    optional_discipline(prog, rep)
    one_path(prog, rep)
    wildcard(prog, rep)
    v1_translation(prog, rep)
    v1_filenames(prog, rep)


from ..selftest import Mut  # noqa: E402

CF = "ladim/configure.py"
AUDIT = [
    Mut("v1-gridfile-files-only", CF, '''    if "gridfile" in config["gridforce"]:\n        conf2["grid"]["filename"] = config["gridforce"]["gridfile"]\n    elif "gridfile" in config["files"]:\n        conf2["grid"]["filename"] = config["files"]["gridfile"]\n    else:\n        conf2["grid"]["filename"] = ""\n''', '''    conf2["grid"]["filename"] = config["files"].get("gridfile", "")\n''', rule="R18.7"),
    Mut("v1-gridfile-priority-swapped", CF, '''    if "gridfile" in config["gridforce"]:\n        conf2["grid"]["filename"] = config["gridforce"]["gridfile"]\n    elif "gridfile" in config["files"]:\n        conf2["grid"]["filename"] = config["files"]["gridfile"]\n    else:\n        conf2["grid"]["filename"] = ""\n''', '''    if "gridfile" in config["files"]:\n        conf2["grid"]["filename"] = config["files"]["gridfile"]\n    elif "gridfile" in config["gridforce"]:\n        conf2["grid"]["filename"] = config["gridforce"]["gridfile"]\n    else:\n        conf2["grid"]["filename"] = ""\n''', rule="R18.7"),
    Mut("benign-v1-gridfile-get-chain", CF, '''    if "gridfile" in config["gridforce"]:\n        conf2["grid"]["filename"] = config["gridforce"]["gridfile"]\n    elif "gridfile" in config["files"]:\n        conf2["grid"]["filename"] = config["files"]["gridfile"]\n    else:\n        conf2["grid"]["filename"] = ""\n''', '''    conf2["grid"]["filename"] = config["gridforce"].get("gridfile", config["files"].get("gridfile", ""))\n''', expect="silent"),
    Mut("forcing-module-hard", CF, '    if "module" not in config["grid"] and "module" in config["forcing"]:', '    if "module" not in config["grid"]:', rule="R18.3"),
    Mut("v1-key-renamed", CF, '        output_period=config["output_variables"]["outper"],', '        period=config["output_variables"]["outper"],', rule="R18.1"),
    Mut("v1-release-key", CF, '        release_file=config["files"]["particle_release_file"],', '        file=config["files"]["particle_release_file"],', rule="R18.1"),
    Mut("v1-ibm-dropped", CF, '    else:\n        conf2["ibm"] = dict()\n', "", rule="R18.2"),
    Mut("v2-ibm-not-defaulted", CF, '    if "ibm" not in config:\n        config["ibm"] = dict()\n', "", rule="R18.2"),
    Mut("v2-warm-not-defaulted", CF, '    if "warm_start" not in config:\n        config["warm_start"] = dict()\n', "", rule="R18.2"),
    Mut("v2-first-unsorted", CF, "                filename = sorted(flist)[0]", "                filename = flist[0]", rule="R18.5"),
    Mut("v1-first-unsorted", CF, "            filename = sorted(directory.glob(filename.name))[0]", "            filename = list(directory.glob(filename.name))[0]", rule="R18.5"),
    Mut("v1-start-stop-swapped", CF, '        start=config["time_control"]["start_time"],\n        stop=config["time_control"]["stop_time"],', '        start=config["time_control"]["stop_time"],\n        stop=config["time_control"]["start_time"],', rule="R18.6"),
    Mut("v1-forgets-return", CF, "        config = configure_v1(config)", "        configure_v1(config)", rule="R18.4"),
    Mut("toml-other-variable", CF, "                config = tomli.load(fid)", "                conf = tomli.load(fid)", rule="R18.4"),
    Mut("v1-particle-vars-to-instance", CF, '        conf2["output"]["particle_variables"][var] = dict()\n        D = config["output_variables"][var].copy()\n        conf2["output"]["particle_variables"][var]["encoding"] = dict(', '        conf2["output"]["instance_variables"][var] = dict()\n        D = config["output_variables"][var].copy()\n        conf2["output"]["particle_variables"][var]["encoding"] = dict(', rule="R18.6"),
    Mut("v1-grid-module-differs", CF, '        conf2["grid"]["module"] = "ladim.ROMS"\n        conf2["forcing"]["module"] = "ladim.ROMS"', '        conf2["grid"]["module"] = "ladim.ROMS2"\n        conf2["forcing"]["module"] = "ladim.ROMS"', rule="R18.5"),
    Mut("benign-optional-get", CF, '    if "module" not in config["grid"] and "module" in config["forcing"]:\n        config["grid"]["module"] = config["forcing"]["module"]', '    if "module" in config["forcing"]:\n        if "module" not in config["grid"]:\n            config["grid"]["module"] = config["forcing"]["module"]', expect="silent"),
    Mut("benign-new-optional-key", CF, '    if "ibm" not in config:\n        config["ibm"] = dict()\n', '    if "ibm" not in config:\n        config["ibm"] = dict()\n    if "numrec" not in config["output"]:\n        config["output"]["numrec"] = 0\n', expect="silent"),
]
