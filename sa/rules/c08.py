"""C08 - restart transparency: a warm start continues as if the run never stopped.

Equality of two complete runs is not decided.  Decided wiring obligations: the restored variable set
and its slices agree with the writer, the provenance of the restored release counter, the
configuration wiring (start time = last record, release told about the warm start, skip_initial), the
catch-up step = step protocol minus clock and output, strict exclusion of start-time release rows,
continuation of the file numbering, inverse unit conversion of time-typed variables.
"""

from __future__ import annotations

import ast

from ..paths import enumerate_paths
from ..program import AnalysisError, Program, unparse, short, walk_no_nested, xunparse, single_defs, expand_locals
from ..report import Report
from . import c07, c19


def restored_set(prog: Program, rep: Report) -> None:
    rule = "R08.1"
    from ..program import inline_helpers

    fi = prog.lview("warm_start.warm_start")
    wv = [n for n in walk_no_nested(fi.node) if isinstance(n, (ast.Assign, ast.AnnAssign)) and unparse(n.targets[0] if isinstance(n, ast.Assign) else n.target) == "wvars"]
    ok = False
    mand = {"pid", "X", "Y", "Z", "alive", "active"}
    if wv:
        v = wv[0].value
        lits = {e.value for e in ast.walk(v) if isinstance(e, ast.Constant) and isinstance(e.value, str)}
        ok = mand <= lits and "warm_start_variables" in unparse(v)
    rep.check(rule, fi.qual, "restored set = mandatory variables + configured warm-start variables", ok, what_bad=f"wvars = {unparse(wv[0].value) if wv else None}: a mandatory variable would keep its empty initial value", what_ok="pid, X, Y, Z, alive, active + configured", loc=fi.loc())
    loops = [n for n in walk_no_nested(fi.node) if isinstance(n, ast.For) and unparse(n.iter) == "wvars"]
    if len(loops) != 1:
        raise AnalysisError("warm_start: loop over wvars not found")
    loop = loops[0]
    var = unparse(loop.target)
    # every non-raising path stores state.variables[var] = values
    n_store = n_raise = 0
    for p in enumerate_paths(loop.body):
        if p.exit == "raise":
            n_raise += 1
            continue
        stores = [s[1] for s in p.steps if s[0] == "stmt" and isinstance(s[1], ast.Assign) and unparse(s[1].targets[0]) in (f"state.variables[{var}]", f"state[{var}]")]
        n_store += 1
        rep.check(rule, fi.qual, f"path {p.describe()}: the variable is stored", len(stores) == 1 and p.steps[-1][1] is stores[0], what_bad="a variable is skipped silently", what_ok="state.variables[var] = values", loc=fi.loc(loop))
    rep.check(rule, fi.qual, "a variable without file value and without default stops the run", n_raise >= 1, what_bad="missing variables are ignored", what_ok="error + raise", loc=fi.loc(loop))
    # slices: what each path of the loop body stores, with every temporary expanded
    from ..program import path_records, single_defs as _sd

    facts = warm_start_facts(prog)
    DS = "DS"
    PSTART, PCOUNT, PEND, PIDMAX = facts["pstart"], facts["pcount"], facts["pend"], facts["pid_max"]
    recs = path_records(loop.body, init_env=facts["env"], rename=facts["rename"])
    seen = {"inst": 0, "part": 0, "dflt_inst": 0, "dflt_part": 0, "time": 0}
    bad_slices, bad_shapes, bad_time = [], [], []
    for p, conds, stores in recs:
        if p.exit == "raise":
            continue
        # `ncvar = f.variables.get(var)` + `ncvar is not None` is the membership test `var in f.variables`
        # (the variables of a dataset are never None); the looked-up value is f.variables[var]
        get_, item_ = f"{DS}.variables.get({var})", f"{DS}.variables[{var}]"
        conds = [(t.replace(get_, item_), k) for t, k in conds]
        stores = [(t.replace(get_, item_), v.replace(get_, item_), n_) for t, v, n_ in stores]
        from ..program import positive_cond

        truth = {}
        for text, taken in conds:
            text, taken = positive_cond(text, taken)
            if text == f"{item_} is None":
                text, taken = f"{item_} is not None", not taken
            if text == f"{item_} is not None":
                text = f"{var} in {DS}.variables"
            elif text == f"{item_} is None":
                text, taken = f"{var} in {DS}.variables", not taken
            truth[text] = taken
        infile = truth.get(f"{var} in {DS}.variables")
        is_inst = truth.get(f"{var} in state.instance_variables")
        timed = any(("since" in t and "units" in t) and k for t, k in conds)
        st_ = [(t, v) for t, v, _ in stores if t in (f"state.variables[{var}]", f"state[{var}]")]
        if len(st_) != 1 or infile is None or is_inst is None:
            bad_slices.append(f"path {p.describe()}: stores {st_}, file membership {infile}, instance test {is_inst}")
            continue
        val = st_[0][1]
        base = f"{DS}.variables[{var}][{PSTART}:{PEND}]" if is_inst else f"{DS}.variables[{var}][:{PIDMAX}]"
        if infile and not timed:
            seen["inst" if is_inst else "part"] += 1
            if val != base:
                bad_slices.append(f"{'instance' if is_inst else 'particle'} variable read as `{val}`")
        elif infile and timed:
            seen["time"] += 1
            ref = f"np.datetime64({DS}.variables[{var}].units.split('since')[1])"
            unit = f"np.timedelta64(1, {DS}.variables[{var}].units[0])"
            if val not in (f"{ref} + {base} * {unit}", f"{base} * {unit} + {ref}"):
                bad_time.append(val)
        else:
            seen["dflt_inst" if is_inst else "dflt_part"] += 1
            n_ = PCOUNT if is_inst else PIDMAX
            if val not in (f"np.full(({n_},), state.default_values[{var}])", f"np.full({n_}, state.default_values[{var}])", f"np.full(shape=({n_},), fill_value=state.default_values[{var}])"):
                bad_shapes.append(f"default for {'an instance' if is_inst else 'a particle'} variable built as `{val}`")
    ok = not bad_slices and seen["inst"] >= 1 and seen["part"] >= 1
    rep.check(rule, fi.qual, "instance variables read [pstart:pend] (last record), particle variables [:npid]", ok, what_bad=("; ".join(bad_slices[:2]) or f"paths seen {seen}") + ": slices do not match the writer (instance data of the last record; particle data indexed by pid)", what_ok="last record / first npid entries", loc=fi.loc(loop))
    ok = not bad_shapes and seen["dflt_inst"] >= 1 and seen["dflt_part"] >= 1
    rep.check(rule, fi.qual, "defaults are filled with the matching length", ok, what_bad="; ".join(bad_shapes[:2]) or f"paths seen {seen}", what_ok="(pcount,) / (npid,)", loc=fi.loc(loop))
    rep.check("R08.7", fi.qual, "time-typed variables: reference + value * unit (inverse of the writer)", not bad_time and seen["time"] >= 1, what_bad=f"got {bad_time[:1]}", what_ok="reftime + values*timedelta64(1, units[0])", loc=fi.loc(loop))
    # unit letter = first letter of the CF unit word
    tkm = prog.module("timekeeper")
    table = {}
    for node in ast.walk(tkm.tree):
        if isinstance(node, (ast.Assign, ast.AnnAssign)):
            tgt = node.targets[0] if isinstance(node, ast.Assign) else node.target
            if unparse(tgt) == "unit_table" and node.value is not None:
                v = node.value
                if isinstance(v, ast.Call) and unparse(v.func) == "dict":
                    table = {k.arg: ast.literal_eval(k.value) for k in v.keywords}
                elif isinstance(v, ast.Dict):
                    table = {ast.literal_eval(k): ast.literal_eval(x) for k, x in zip(v.keys, v.values)}
    rep.check("R08.7", "timekeeper.TimeKeeper", "unit letter = first letter of the unit word (reader uses units[0])", bool(table) and all(v[0] == k for k, v in table.items()), what_bad=f"unit_table {table}: the restart decodes time-typed variables with the wrong unit", what_ok="s/m/h/d", loc="ladim/timekeeper.py")
    # last record arithmetic (shared with C06 R06.7)
    ok = facts["last_record_ok"]
    rep.check(rule, fi.qual, "last record = [sum(count[:-1]) : + count[-1]]", ok, what_bad=f"pstart={PSTART} pcount={PCOUNT} pend={PEND}", what_ok="cumulative particle_count", loc=fi.loc())


def warm_start_facts(prog: Program) -> dict:
    """Expanded definitions of the restart reader's slice bounds, with the dataset handle renamed DS."""
    from ..program import expand_locals, single_defs as _sd

    from ..program import inline_helpers

    fi = prog.lview("warm_start.warm_start")
    # the dataset handle: name bound to Dataset(...)
    handle = None
    for n in ast.walk(fi.node):
        if isinstance(n, ast.Assign) and isinstance(n.targets[0], ast.Name) and isinstance(n.value, ast.Call) and unparse(n.value.func).split(".")[-1] == "Dataset":
            handle = n.targets[0].id
    if handle is None:
        raise AnalysisError("warm_start: the name bound to Dataset(...) was not found")
    rename = {handle: "DS"}
    loops = [n for n in walk_no_nested(fi.node) if isinstance(n, ast.For) and unparse(n.iter) == "wvars"]
    loop_names = {x.id for lp in loops for x in ast.walk(lp) if isinstance(x, ast.Name) and isinstance(x.ctx, ast.Store)}
    defs = {k: v for k, v in _sd(fi.node).items() if k not in loop_names and k != handle and k not in ("state", "wvars")}
    from ..program import _Subst
    import copy

    def full(e):
        e2 = _Subst(dict(defs)).visit(copy.deepcopy(e))
        e2 = _Subst({handle: ast.Name(id="DS", ctx=ast.Load())}, depth=1).visit(e2)
        return ast.fix_missing_locations(e2)

    env = {k: full(v) for k, v in defs.items()}
    pc = "DS.variables['particle_count']"
    # find the slice bounds actually used: names in the loop that index [a:b] and [:c]
    texts = {k: unparse(v) for k, v in env.items()}
    pstart = next((t for t in texts.values() if t in (f"{pc}[:-1].sum()", f"np.sum({pc}[:-1])")), None)
    pcount = next((t for t in texts.values() if t == f"{pc}[-1]"), None)
    pend = next((t for t in texts.values() if pstart and pcount and t in (f"{pstart} + {pcount}", f"{pcount} + {pstart}")), None)
    pid_max = texts.get("pid_max")
    if pid_max is None:
        # the value assigned to state.npid
        for n in walk_no_nested(fi.node):
            if isinstance(n, ast.Assign) and any(unparse(t) == "state.npid" for t in n.targets):
                pid_max = unparse(full(n.value))
    return {"env": env, "rename": rename, "pstart": pstart, "pcount": pcount, "pend": pend, "pid_max": pid_max, "last_record_ok": bool(pstart and pcount and pend)}


def npid_provenance(prog: Program, rep: Report) -> None:
    rule = "R08.2"
    fi = prog.lview("warm_start.warm_start")
    st = [n for n in walk_no_nested(fi.node) if isinstance(n, ast.Assign) and unparse(n.targets[0]) == "state.npid"]
    if len(st) != 1:
        rep.bad(rule, fi.qual, "state.npid", f"the release counter is restored {len(st)} times (must be exactly once)", fi.loc())
        return
    v = st[0].value
    src = unparse(v)
    defs = {unparse(n.targets[0]): n.value for n in walk_no_nested(fi.node) if isinstance(n, ast.Assign) and isinstance(n.targets[0], ast.Name)}
    chain = src
    e = v
    while isinstance(e, ast.Name) and e.id in defs:
        e = defs[e.id]
        chain = f"{chain} = {unparse(e)}"
    txt = unparse(e)
    from_dim = "dimensions['particle']" in txt or "ncattrs" in txt or "getncattr" in txt or ".npid" in txt
    from_pid_max = ("max(" in txt) and "'pid'" in txt
    # canonical construct: temporaries expanded, the dataset handle written DS (a renamed handle or an
    # extra temporary is the same finding)
    from ..program import _Subst
    import copy

    wf = warm_start_facts(prog)
    canon = _Subst(dict(wf["env"])).visit(copy.deepcopy(v))
    canon = _Subst({k: ast.Name(id=val, ctx=ast.Load()) for k, val in wf["rename"].items()}, depth=1).visit(canon)
    construct = f"state.npid = {unparse(ast.fix_missing_locations(canon))}"
    if from_dim and not from_pid_max:
        rep.ok(rule, fi.qual, construct, "restored from a quantity the writer derives from its release counter", fi.loc(st[0]))
    elif from_pid_max:
        rep.bad(rule, fi.qual, construct, "the release counter is restored as max(pid on file) + 1, which is only a lower bound of the writer's counter: a particle released on a step without output and dead before the next record never reaches the file, so its identifier is handed out again after the restart (pid reuse; the uninterrupted run continues with the next fresh identifier)", fi.loc(st[0]))
    else:
        rep.bad(rule, fi.qual, construct, f"the release counter is restored from `{txt}`, which is not a quantity the writer derives from its release counter (particle dimension / attribute): identifiers are reused or skipped after the restart", fi.loc(st[0]))


def config_wiring(prog: Program, rep: Report) -> None:
    rule = "R08.3"
    fi = prog.func("configure.configure_v2")
    from . import c18
    from ..confeval import Opaque, Sym, text_of

    warm = c18.v2_outcomes(prog, present=[("warm_start", "filename")], absent=[("warm_start", "variables"), ("output", "skip_initial")])
    cold = c18.v2_outcomes(prog, absent=[("warm_start", "filename")])
    if any(o["status"] == "unsupported" for o in warm + cold):
        rep.add(rule, fi.qual, "configuration wiring of a warm start", None, f"configure_v2 outside the evaluator: {[o['detail'] for o in warm + cold if o['status'] == 'unsupported'][0]}", fi.loc())
        return
    okrun = bool(warm) and all(o["status"] == "ok" for o in warm)
    rep.check(rule, fi.qual, "configure_v2 completes for a warm start", okrun, what_bad=f"outcomes {[(o['status'], o['detail']) for o in warm][:2]}", what_ok="ok", loc=fi.loc())
    if not okrun:
        return

    def written(o, sec, key):
        return o["overlay"].get((sec,), {}).get(key, "<not written>")

    wsf = Sym(("warm_start", "filename"))
    starts = [written(o, "time", "start") for o in warm]
    texts = [text_of(v) for v in starts]
    ok = all(isinstance(v, Opaque) and wsf in v.syms for v in starts) and all("num2date(" in t and "Dataset(<warm_start.filename>).variables['time']" in t and "[-1]" in t and ".units" in t for t in texts)
    rep.check(rule, fi.qual, "restart time = time of the last record, decoded with the variable's own units", ok, what_bad=f"config['time']['start'] = {texts[:1]}", what_ok="num2date(tvar[-1], tvar.units) of the warm-start file", loc=fi.loc())
    rep.check(rule, fi.qual, "tvar is the file's time variable", all(t.count("Dataset(<warm_start.filename>).variables['time']") >= 2 for t in texts), what_bad=f"{texts[:1]}", what_ok="time of the warm-start file", loc=fi.loc())
    rep.check(rule, fi.qual, "warm start overrides the start time", all(v != "<not written>" for v in starts) and all(written(o, "time", "start") == "<not written>" for o in cold if o["status"] == "ok"), what_bad=f"config['time']['start'] = {texts[:1]} (cold start: {[text_of(written(o, 'time', 'start')) for o in cold][:1]})", what_ok="start = last record time, only for warm starts", loc=fi.loc())
    rep.check(rule, fi.qual, "release is told about the warm start file", all(written(o, "release", "warm_start_file") == wsf for o in warm), what_bad=f"release.warm_start_file = {[text_of(written(o, 'release', 'warm_start_file')) for o in warm][:1]}: the release module would release the start-time rows again", what_ok="release.warm_start_file", loc=fi.loc())
    rep.check(rule, fi.qual, "variables defaulted to []", all(written(o, "warm_start", "variables") == [] for o in warm), what_bad="Model.__init__ subscripts D['variables']", what_ok="[]", loc=fi.loc())
    rep.check(rule, fi.qual, "skip_initial defaults to True for warm starts", all(written(o, "output", "skip_initial") is True for o in warm) and all(written(o, "output", "skip_initial") == "<not written>" for o in cold if o["status"] == "ok"), what_bad="the record count of the restarted run is predicted with the cold-start formula", what_ok="True", loc=fi.loc())
    # Model restores from the warm_start section: warm_start(<sec>['filename'], <sec>['variables'], self.state)
    calls = []
    for q, f in prog.module("model").functions.items():
        if f.cls != "Model":
            continue
        d = single_defs(f.node)
        for n in walk_no_nested(f.node):
            if isinstance(n, ast.Call) and unparse(n.func) == "warm_start":
                calls.append((f, [xunparse(a, f.node, d) for a in n.args]))
    ok = len(calls) == 1 and len(calls[0][1]) == 3 and calls[0][1][0].endswith("['filename']") and calls[0][1][1].endswith("['variables']") and calls[0][1][0][: -len("['filename']")] == calls[0][1][1][: -len("['variables']")] and calls[0][1][2] == "self.state"
    rep.check(rule, "model.Model", "warm_start(section['filename'], section['variables'], self.state)", ok, what_bad=f"calls {[c[1] for c in calls]}", what_ok="ok", loc="ladim/model.py")


def start_rows(prog: Program, rep: Report) -> None:
    rule = "R08.5"
    fi = __import__("sa.program", fromlist=["release_init_view"]).release_init_view(prog)
    blocks = [n for n in fi.node.body if isinstance(n, ast.If) and unparse(n.test) == "warm_start_file"]
    filt = None
    for b in blocks:
        for x in b.body:
            if isinstance(x, ast.Assign) and unparse(x.targets[0]) == "self._df" and "self.start_time" in unparse(x.value):
                filt = x
    from . import c10 as _c10

    def _strict_after_start(v: ast.expr) -> bool:
        # self._df[<index strictly after the start time>], however the comparison is written
        return isinstance(v, ast.Subscript) and unparse(v.value) == "self._df" and isinstance(v.slice, ast.Compare) and len(v.slice.ops) == 1 and _c10.norm_cmp(v.slice) == ("self._df.index", ">", "self.start_time")

    ok = filt is not None and _strict_after_start(filt.value)
    rep.check(rule, fi.qual, "warm start: rows at the start time are excluded (strict >)", ok, what_bad=f"filter is {unparse(filt.value) if filt is not None else None}: particles of the restart record would be released a second time", what_ok="index > start_time", loc=fi.loc(filt) if filt is not None else fi.loc())
    # after the inclusive start filter
    start_f = [n for n in walk_no_nested(fi.node) if isinstance(n, ast.Assign) and unparse(n.targets[0]) == "self._df" and isinstance(n.value, ast.Subscript) and isinstance(n.value.slice, ast.Compare) and len(n.value.slice.ops) == 1 and _c10.norm_cmp(n.value.slice) == ("self._df.index", ">=", "self.start_time")]
    rep.check(rule, fi.qual, "strict filter follows the inclusive start filter", filt is not None and bool(start_f) and filt.lineno > start_f[0].lineno, what_bad="order of the filters", what_ok="after", loc=fi.loc())
    # empty table allowed only for warm start: shared with C20


def run(prog: Program, rep: Report, tier: str) -> None:
    rep.level = "other"
    rep.explanation = (
        "Wiring obligations of a restart checked structurally: the set of restored variables and the slices they are read with "
        "(against the writer's layout), the provenance of the restored release counter, configure_v2's warm-start block, the "
        "catch-up step of Model.__init__ against the step protocol (event words), strict exclusion of start-time release rows "
        "and continuation of file numbering. Decides these necessary conditions, not record-for-record equality of two runs."
    )
    rep.assumptions = ["the warm-start file was written by this model (sparse layout, complete last file)", "reversed warm starts are outside the property's quantifier"]
    rep.trusted_base = ["CPython ast", "sa/paths.py, sa/words.py", "sa/rules/c07.py, c19.py (shared rules)"]
    rep.rule("R08.1", "restored set and slices agree with the writer; missing values stop the run", 6)
    rep.rule("R08.2", "the restored release counter equals the writer's counter (provenance)", 1)
    rep.rule("R08.3", "configuration wiring: start = last record time, release.warm_start_file, variables, skip_initial", 7)
    rep.rule("R08.4", "catch-up step = step protocol minus clock and output (shared with C19 R19.6)", 3)
    rep.rule("R08.5", "release rows at the start time are excluded under warm start (strict comparison)", 2)
    rep.rule("R08.6", "file numbering continues from the parsed number (shared with C07 R07.4)", 5)
    rep.rule("R08.7", "time-typed variables: reader inverts the writer's unit conversion", 2)
    rep.rule("R08.8", "the restarted run predicts as many records as it writes: warm-start record count and skip_initial wiring (shared with C07 R07.2)", 2)
    restored_set(prog, rep)
    npid_provenance(prog, rep)
    config_wiring(prog, rep)
    sub = Report(pid="C08")
    word = c19.step_word_analysis(prog, sub, "R08.4x")
    sub2 = Report(pid="C08")
    c19.warm_block_analysis(prog, sub2, word or list(c19.STEP_WORD), "R08.4")
    rep.obligations.extend(sub2.obligations)
    start_rows(prog, rep)
    sub3 = Report(pid="C08")
    c07.numbering_rule(prog, sub3)
    for o in sub3.obligations:
        o.rule = "R08.6"
    rep.obligations.extend(sub3.obligations)
    # the restarted run completes its files (particle variables, no extra file) only if its predicted
    # record count equals the number of records it writes
    sub4 = Report(pid="C08")
    c07.trip_count_rule(prog, sub4)
    for o in sub4.obligations:
        if "warm start" in o.construct or "skip_initial" in o.construct or "loop facts" in o.construct:
            rep.add("R08.8", o.func, f"[{o.rule}] {o.construct}", o.verdict == "ok" if o.verdict != "undecided" else None, o.what, o.loc)
    from ..share import share

    share(prog, rep, "C03", ("R03.2", "R03.3", "R03.4", "R03.6"), "R08.9", "a restart between two forcing frames is primed with the same interpolation as the uninterrupted run", 4)



from ..selftest import Mut  # noqa: E402

WS = "ladim/warm_start.py"
CF = "ladim/configure.py"
MO = "ladim/model.py"
RL = "ladim/release.py"
ON = "ladim/out_netcdf.py"
AUDIT = [
    Mut("no-alive", WS, '{"pid", "X", "Y", "Z", "alive", "active"}', '{"pid", "X", "Y", "Z", "active"}', rule="R08.1"),
    Mut("instance-slice", WS, "                values = ncvar[pstart:pend]", "                values = ncvar[pstart : pend - 1]", rule="R08.1"),
    Mut("particle-slice", WS, "                values = ncvar[:pid_max]", "                values = ncvar[pstart:pend]", rule="R08.1"),
    Mut("missing-ignored", WS, '            logger.error("Warm start: No value for variable %s", var)\n            raise SystemExit(1)', '            logger.error("Warm start: No value for variable %s", var)\n            continue', rule="R08.1"),
    Mut("first-record", WS, '    pstart = f.variables["particle_count"][:-1].sum()\n    pcount = f.variables["particle_count"][-1]', '    pstart = 0\n    pcount = f.variables["particle_count"][0]', rule="R08.1"),
    Mut("npid-from-count", WS, "    state.npid = pid_max\n", "    state.npid = pcount\n", rule="R08.2"),
    Mut("time-unit", WS, "values = reftime + values * np.timedelta64(1, ncvar.units[0])", "values = reftime + values * np.timedelta64(1, 's')", rule="R08.7"),
    Mut("restart-first-record-time", CF, "        warm_start_time = np.datetime64(num2date(tvar[-1], tvar.units))", "        warm_start_time = np.datetime64(num2date(tvar[0], tvar.units))", rule="R08.3"),
    Mut("release-not-told", CF, '        config["release"]["warm_start_file"] = config["warm_start"]["filename"]\n', "", rule="R08.3"),
    Mut("skip-initial-false", CF, '        config["output"]["skip_initial"] = True', '        config["output"]["skip_initial"] = False', rule="R08.3"),
    Mut("start-not-overridden", CF, '        config["time"]["start"] = warm_start_time\n', "", rule="R08.3"),
    Mut("warm-no-ibm", MO, "            self.tracker.update()\n            self.ibm.update()\n\n    def update", "            self.tracker.update()\n\n    def update", rule="R08.4"),
    Mut("warm-with-output", MO, "            self.force.update()\n            self.tracker.update()\n            self.ibm.update()\n\n    def update", "            self.force.update()\n            self.output.update()\n            self.tracker.update()\n            self.ibm.update()\n\n    def update", rule="R08.4"),
    Mut("start-rows-kept", RL, "            self._df = self._df[self._df.index > self.start_time]", "            self._df = self._df[self._df.index >= self.start_time]", rule="R08.5"),
    Mut("numbering-restart", ON, "        filenumber = int(ddd)\n", "        filenumber = 0\n", rule="R08.6"),
    Mut("benign-log", WS, '    logger.info("antall partikler = %s", pcount)', '    logger.info("number of particles = %s", pcount)', expect="silent"),
]
