"""C10 - backward tracking = forward tracking in the time-mirrored, sign-flipped flow.

Decided: time-mirror symmetry T of every computation that depends on the direction.  T negates
instants (start, stop, reference, running time, release times) and velocities, keeps step lengths
and step counts.  (R10.1) every TimeKeeper method evaluated with time_reversal=True equals the
T-image of its evaluation with time_reversal=False; (R10.2) every comparison between instants in the
release module is inside a time_reversal conditional whose arms are mirror images, the continuous
release frequency and the output period change sign, both velocity components are negated;
(R10.3) direction-independent pieces: sorted step list, file selection by identity, order-compatible
release sequences.  Not decided: record-for-record equality of two complete runs.
"""

from __future__ import annotations

import ast

from ..interp import Interp, Phi, Ref, Tup, vtext
from ..nf import NF
from ..nfdomain import NFDomain
from ..program import AnalysisError, Program, unparse, short, walk_no_nested
from ..report import Report
from .. import roms
from .c13 import tk_eval, ATOMS

INSTANTS = ("start", "stop", "ref", "T", "t")


def T_image(v: NF) -> NF:
    return v.subst({a: -NF.atom(a) for a in INSTANTS})


def mirror_ok(fwd, rev, kind: str) -> tuple[bool, str]:
    """rev must equal T(fwd), negated when the result is an instant / signed offset."""
    if isinstance(fwd, Ref) and isinstance(rev, Ref) and fwd.path.startswith("str:") and rev.path.startswith("str:"):
        # str(instant): compare the instants
        return False, "string results are compared through step2time"
    if not (isinstance(fwd, NF) and isinstance(rev, NF)):
        return False, f"not normal forms: {vtext(fwd)} / {vtext(rev)}"
    img = T_image(fwd)
    # floor atoms: T acts inside
    if kind in ("instant", "offset"):
        img = -img
    return rev == img, f"reversed arm = {rev}; mirror image of the forward arm = {img}"


def rewrite_floor_T(v: NF) -> NF:
    return v


def timekeeper_mirror(prog: Program, rep: Report) -> None:
    rule = "R10.1"
    n = NF.atom("n")
    cases = [
        ("step2time", dict(step=n), "instant"),
        ("step2nctime", dict(stepnr=n, unit=Ref("unit")), "offset"),
        ("nctime", dict(unit=Ref("unit")), "offset"),
    ]
    for meth, args, kind in cases:
        f, _, fi = tk_eval(prog, meth, False, args)
        r, _, _ = tk_eval(prog, meth, True, args)
        ok, detail = mirror_ok(f, r, kind)
        if meth == "nctime":
            # the running clock itself is T-variant; the *formula* must not depend on the direction
            ok = isinstance(f, NF) and isinstance(r, NF) and f == r
            detail = f"forward {vtext(f)}, reversed {vtext(r)}"
        rep.check(rule, fi.qual, f"{meth}: reversed = T(forward) [{kind}]", ok, what_bad=f"{detail}: a reversed run reads a different clock/time coordinate than the mirrored forward run", what_ok=detail, loc=fi.loc())
    # time2step: count; T acts on the argument t and on start inside the floor
    f, _, fi = tk_eval(prog, "time2step", False, dict(time_=NF.atom("t")))
    r, _, _ = tk_eval(prog, "time2step", True, dict(time_=NF.atom("t")))
    dt, start, t = NF.atom("dt"), NF.atom("start"), NF.atom("t")
    want_f = NF.atom(f"int(floor({((t - start) / dt).canon()}))")
    want_r = NF.atom(f"int(floor({((start - t) / dt).canon()}))")
    rep.check(rule, fi.qual, "time2step: reversed = T(forward) [count]", isinstance(f, NF) and isinstance(r, NF) and f == want_f and r == want_r, what_bad=f"forward {vtext(f)}, reversed {vtext(r)}; mirror pair is floor((t-start)/dt) / floor((start-t)/dt)", what_ok=f"{vtext(f)} / {vtext(r)}", loc=fi.loc())
    # step2isotime == str(step2time)
    for rev in (False, True):
        s2t, _, _ = tk_eval(prog, "step2time", rev, dict(step=n))
        iso, _, fi = tk_eval(prog, "step2isotime", rev, dict(stepnr=n))
        rep.check(rule, fi.qual, f"step2isotime agrees with step2time (time_reversal={rev})", isinstance(s2t, NF) and vtext(iso) == "str:" + s2t.canon(), what_bad=f"{vtext(iso)} vs step2time {vtext(s2t)}", what_ok="same instant", loc=fi.loc())
    # update: instant time, count step
    _, itf, fi = tk_eval(prog, "update", False)
    _, itr, _ = tk_eval(prog, "update", True)
    tf, trv = itf.objenv.get("time.time"), itr.objenv.get("time.time")
    ok, detail = mirror_ok(tf, trv, "instant")
    rep.check(rule, fi.qual, "update: reversed clock increment = T(forward)", ok, what_bad=detail, what_ok=detail, loc=fi.loc())
    nf_, nr_ = itf.objenv.get("time.step"), itr.objenv.get("time.step")
    rep.check(rule, fi.qual, "update: step count independent of the direction", isinstance(nf_, NF) and isinstance(nr_, NF) and nf_ == nr_, what_bad=f"{vtext(nf_)} vs {vtext(nr_)}", what_ok="n + 1", loc=fi.loc())
    # direction sanity: time_reversal != (duration < 0)
    from ..program import reading_view

    init = reading_view(prog, prog.role_func("time", "__init__"))
    guards = [n_ for n_ in walk_no_nested(init.node) if isinstance(n_, ast.If) and "time_reversal" in unparse(n_.test) and "duration" in unparse(n_.test)]
    ok = False
    for g in guards:
        t_ = g.test
        if isinstance(t_, ast.Compare) and isinstance(t_.ops[0], ast.NotEq) and "duration <" in unparse(t_):
            ok = any(isinstance(x, ast.Raise) for x in ast.walk(g))
    rep.check(rule, init.qual, "direction guard: time_reversal must agree with the sign of stop - start", ok, what_bad="no guard `time_reversal != (duration < 0)` that stops the run", what_ok="guarded", loc=init.loc())


FLIP = {"<": ">", "<=": ">=", ">": "<", ">=": "<="}
OPS = {ast.Lt: "<", ast.LtE: "<=", ast.Gt: ">", ast.GtE: ">="}
INSTANT_NAMES = ("start_time", "stop_time", "index")


def instant_comparisons(node: ast.AST) -> list[ast.Compare]:
    out = []
    for n_ in ast.walk(node):
        if isinstance(n_, ast.Compare) and len(n_.ops) == 1 and type(n_.ops[0]) in OPS:
            l, r = unparse(n_.left), unparse(n_.comparators[0])
            if any(l.endswith(k) for k in INSTANT_NAMES) and any(r.endswith(k) for k in INSTANT_NAMES):
                out.append(n_)
    return out


def norm_cmp(c: ast.Compare) -> tuple[str, str, str]:
    """(index-side, op, bound) with the index on the left."""
    l, r = unparse(c.left), unparse(c.comparators[0])
    op = OPS.get(type(c.ops[0]), type(c.ops[0]).__name__)
    if r.endswith("index"):
        l, r, op = r, l, FLIP.get(op, op)
    return l, op, r


def release_mirror(prog: Program, rep: Report) -> None:
    rule = "R10.2"
    fi = __import__("sa.program", fromlist=["release_init_view"]).release_init_view(prog)
    conds = [n_ for n_ in walk_no_nested(fi.node) if isinstance(n_, ast.If) and "time_reversal" in unparse(n_.test)]
    inside = set()
    for c in conds:
        neg = isinstance(c.test, ast.UnaryOp) and isinstance(c.test.op, ast.Not)
        rev_body, fwd_body = (c.orelse, c.body) if neg else (c.body, c.orelse)
        fc = [x for s in fwd_body for x in instant_comparisons(s)]
        rc = [x for s in rev_body for x in instant_comparisons(s)]
        for x in fc + rc:
            inside.add(id(x))
        if not fc and not rc:
            continue
        ok = len(fc) == 1 and len(rc) == 1
        detail = f"forward {[unparse(x) for x in fc]}, reversed {[unparse(x) for x in rc]}"
        if ok:
            fl, fo, fb = norm_cmp(fc[0])
            rl, ro, rb = norm_cmp(rc[0])
            ok = fl == rl and fb == rb and ro == FLIP[fo]
            detail = f"forward `index {fo} {fb.split('.')[-1]}`, reversed `index {ro} {rb.split('.')[-1]}`"
            # shape of the two arms otherwise equal
            strip = lambda b, c_: unparse(b[0]).replace(unparse(c_), "CMP") if b else ""
            ok = ok and strip(fwd_body, fc[0]) == strip(rev_body, rc[0])
        rep.check(rule, fi.qual, f"window filter on {unparse(fc[0].comparators[0]).split('.')[-1] if fc else '?'}: arms are mirror images", ok, what_bad=f"{detail}: under T a comparison between instants flips", what_ok=detail, loc=fi.loc(c))
    # every instant comparison outside a conditional is T-variant and unmirrored
    allowed_exception = ("self._df.index", ">", "self.start_time")  # warm-start filter: reversed warm starts are outside every property's quantifier
    for c in instant_comparisons(fi.node):
        if id(c) in inside:
            continue
        txt = unparse(c)
        if norm_cmp(c) == allowed_exception:
            # must be under `if warm_start_file`
            continue
        rep.bad(rule, fi.qual, txt, "comparison between instants outside a time_reversal conditional: reversed runs filter the wrong side of the window", fi.loc(c))
    stop_f = [c for c in conds if any("stop_time" in unparse(x) for s in c.body + c.orelse for x in instant_comparisons(s))]
    start_f = [c for c in conds if any("start_time" in unparse(x) for s in c.body + c.orelse for x in instant_comparisons(s))]
    rep.check(rule, fi.qual, "stop-time filter is mirrored", len(stop_f) >= 1, what_bad="no time_reversal conditional filters the release table at the stop time", what_ok="present", loc=fi.loc())
    rep.check(rule, fi.qual, "start-time filter is mirrored", len(start_f) >= 1, what_bad="no time_reversal conditional filters the release table at the start time", what_ok="present", loc=fi.loc())
    # discretize: frequency sign - decided per path on the fully expanded value that becomes the table
    from ..program import path_records

    dz = prog.lview(prog.role_func("release", "discretize"))
    n_fwd = n_rev = 0
    sign_ok = True
    anchor_ok = True
    got = []
    for p_, conds_, stores in path_records(dz.node.body):
        rev = None
        for t, taken in conds_:
            if "time_reversal" in t:
                neg = t.replace(" ", "").startswith("not")
                rev = taken != neg
        table = [v for tgt_, v, _st in stores if tgt_ == "self._df"]
        if not table:
            continue
        try:
            tree = ast.parse(table[-1], mode="eval")
        except SyntaxError:
            continue
        ar_all = [n_ for n_ in ast.walk(tree) if isinstance(n_, ast.Call) and unparse(n_.func) == "np.arange"]
        ar = list({unparse(n_): n_ for n_ in ar_all}.values())  # the same ticks may be mentioned more than once in the expanded value
        if len(ar) != 1 or len(ar[0].args) != 3 or rev is None:
            if ar or rev is not None:
                sign_ok = anchor_ok = False
                got.append(f"{'reversed' if rev else 'forward' if rev is not None else 'direction not tested'}: {[short(a_) for a_ in ar]}")
            continue
        first, stop, step = (unparse(a_) for a_ in ar[0].args)
        got.append(f"{'reversed' if rev else 'forward'}: {short(ar[0], 120)}")
        want = "-self.release_frequency" if rev else "self.release_frequency"
        if step.replace(" ", "") not in (f"np.timedelta64({want},'s')", f"np.timedelta64(({want}),'s')"):
            sign_ok = False
        # the first file time: element 0 of the index, or of its unique values (order of appearance, the same element)
        if first not in ("self._df.index.unique()[0]", "self._df.index[0]") or stop != "self.stop_time":
            anchor_ok = False
        if rev:
            n_rev += 1
        else:
            n_fwd += 1
    both = n_fwd >= 1 and n_rev >= 1
    rep.check(rule, dz.qual, "continuous release: tick spacing changes sign when reversed", both and sign_ok, what_bad=f"the release frequency (a signed offset under T) must be negated exactly on the reversed paths; ticks per path: {got}", what_ok="freq / -freq", loc=dz.loc())
    rep.check(rule, dz.qual, "ticks = arange(first file time, stop, signed frequency)", both and anchor_ok, what_bad=f"got {got}", what_ok="direction-symmetric", loc=dz.loc())


def output_mirror(prog: Program, rep: Report) -> None:
    rule = "R10.2"
    from ..program import normalized

    fi = normalized(prog, prog.role_func("output", "__init__"))
    conds = [n_ for n_ in walk_no_nested(fi.node) if isinstance(n_, ast.If) and "time_reversal" in unparse(n_.test)]
    ok = False
    for c in conds:
        if len(c.body) == 1 and isinstance(c.body[0], ast.Assign) and not c.orelse:
            t, v = unparse(c.body[0].targets[0]), unparse(c.body[0].value)
            if t == "self.output_period" and v == "-self.output_period":
                ok = True
    rep.check(rule, fi.qual, "output period is a signed offset: negated when reversed", ok, what_bad="`if timer.time_reversal: self.output_period = -self.output_period` not found", what_ok="negated", loc=fi.loc())
    # the step period is computed from the positive period
    pos = None
    for st in fi.node.body:
        if isinstance(st, ast.Assign) and unparse(st.targets[0]) == "self.output_period_step":
            pos = st
    neg_before = False
    if pos is not None:
        for c in conds:
            if c.lineno < pos.lineno and any(unparse(x) == "self.output_period = -self.output_period" for x in c.body):
                neg_before = True
    rep.check(rule, fi.qual, "output_period_step computed from the positive period", pos is not None and not neg_before, what_bad="the step period would be negative in reversed runs: `step % P == 0` never matches the schedule", what_ok="positive", loc=fi.loc())


def forcing_mirror(prog: Program, rep: Report) -> None:
    rule = "R10.2"
    fr, samples, it, dom = roms.force_particles_run(prog, reversal=None)
    fi = prog.role_func("forcing", "force_particles")
    for comp in ("u", "v"):
        v = it.objenv.get(f"forcing.variables['{comp}']")
        arms = roms.flatten_phi(v)
        ok = False
        if len(arms) == 2:
            (c1, a), (c2, b) = arms
            if isinstance(a, NF) and isinstance(b, NF) and "time_reversal" in c1[0][0]:
                ra, fa = (a, b) if c1[0][1] else (b, a)
                ok = ra == -fa
        rep.check(rule, fi.qual, f"particle velocity {comp}: reversed = -forward", ok, what_bad=f"got {vtext(v)}: the reversed run must feel the flow of opposite sign in both components", what_ok="negated", loc=fi.loc())
    vel = prog.role_func("forcing", "velocity")
    for c in (0.0, 0.5):
        rf, sf, itf, _ = roms.velocity_samples(prog, reversal=False, frac=NF.const(c))
        rr, sr, itr, _ = roms.velocity_samples(prog, reversal=True, frac=NF.const(c))
        ef = roms.effective_fields(rf, sf, itf)
        er = roms.effective_fields(rr, sr, itr)
        for i, comp in enumerate(("u", "v")):
            ff = [f for f in ef if f is not None and any(f"'{comp}'" in a for a in f.atoms())]
            fr_ = [f for f in er if f is not None and any(f"'{comp}'" in a for a in f.atoms())]
            ok = len(ff) == 1 and len(fr_) == 1 and fr_[0] == -ff[0]
            rep.check(rule, vel.qual, f"velocity({comp}, fractional_step={c:g}): reversed = -forward", ok, what_bad=f"forward {[vtext(x) for x in ff]}, reversed {[vtext(x) for x in fr_]}", what_ok="negated", loc=vel.loc())
    # time_reversal flag comes from the timer
    init = prog.role_func("forcing", "__init__")
    ok = any(isinstance(n_, ast.Assign) and unparse(n_.targets[0]) == "self.time_reversal" and unparse(n_.value).endswith(".time_reversal") for n_ in walk_no_nested(init.node))
    rep.check(rule, init.qual, "forcing takes the direction from the timekeeper", ok, what_bad="self.time_reversal is not copied from the timer", what_ok="timer.time_reversal", loc=init.loc())
    rel = prog.role_func("release", "__init__")
    ok = any(isinstance(n_, ast.Assign) and unparse(n_.targets[0]) == "self.time_reversal" and unparse(n_.value).endswith(".time_reversal") for n_ in walk_no_nested(rel.node))
    rep.check(rule, rel.qual, "release takes the direction from the timekeeper", ok, what_bad="self.time_reversal is not copied from the timer", what_ok="timer.time_reversal", loc=rel.loc())


def shared_rules(prog: Program, rep: Report) -> None:
    """R10.3: direction-independent pieces whose failure breaks exactly the reversed runs."""
    from . import c03

    sub = Report(pid="C10")
    c03.sorted_steps(prog, sub)
    c03.file_selection(prog, sub)
    try:
        from . import c04

        c04.alignment(prog, sub)
        # continuous release: the forward fill runs along the tick axis, i.e. in simulation order; a fill by value
        # (the latest file time <= tick) is the same thing forward and the opposite entry in a reversed run
        c04.continuous(prog, sub)
    except ImportError:
        pass
    for o in sub.obligations:
        rep.add("R10.3", o.func, f"[{o.rule}] {o.construct}", o.verdict == "ok" if o.verdict != "undecided" else None, o.what, o.loc)


def run(prog: Program, rep: Report, tier: str) -> None:
    rep.level = "other"
    rep.explanation = (
        "Time-mirror symmetry decided from the source: TimeKeeper methods are evaluated abstractly with time_reversal "
        "False and True and the reversed normal form is compared with the T-image of the forward one (instants and velocities "
        "negated, step lengths and counts kept); every comparison between instants in the release module must sit in a "
        "time_reversal conditional with mirrored arms; frequency/period signs and velocity signs are checked. Decides the "
        "symmetry of each direction-dependent computation, not the equality of two complete runs."
    )
    rep.assumptions = [
        "kinds: start/stop/reference/running time/release times are instants; dt and release frequency are step lengths; step numbers are counts; velocities are T-odd",
        "reversed warm starts are outside the property's quantifier (the warm-start filter `index > start_time` is the one listed unmirrored comparison)",
    ]
    rep.trusted_base = ["CPython ast", "Fraction arithmetic", "sa/nf.py, sa/interp.py"]
    rep.rule("R10.1", "TimeKeeper: reversed evaluation = T(forward evaluation) for update, step2time, time2step, step2isotime, step2nctime, nctime; direction guard", 8)
    rep.rule("R10.2", "release window filters / tick spacing, output period and velocity signs are mirrored; no unmirrored comparison of instants", 12)
    rep.rule("R10.3", "direction-independent pieces reused from C03/C04: sorted steps, file selection by identity, order-compatible release sequences, continuous-release fill along the tick axis", 8)
    timekeeper_mirror(prog, rep)
    release_mirror(prog, rep)
    output_mirror(prog, rep)
    forcing_mirror(prog, rep)
    shared_rules(prog, rep)


from ..selftest import Mut  # noqa: E402

TK = "ladim/timekeeper.py"
RL = "ladim/release.py"
RO = "ladim/ROMS.py"
ON = "ladim/out_netcdf.py"
AUDIT = [
    Mut("step2time-no-reverse", TK, "        if self.time_reversal:\n            return self.start_time - step * self.dt\n        return self.start_time + step * self.dt", "        return self.start_time + step * self.dt", rule="R10.1"),
    Mut("update-forward-only", TK, "            self.time = self.time - self.dt\n        else:", "            self.time = self.time + self.dt\n        else:", rule="R10.1"),
    Mut("step2nctime-rev", TK, "            delta = self.start_time - stepnr * self.dt - self.reference_time", "            delta = self.start_time + stepnr * self.dt - self.reference_time", rule="R10.1"),
    Mut("isotime-rev", TK, "            return str(self.start_time - stepnr * self.dt)", "            return str(self.start_time + stepnr * self.dt)", rule="R10.1"),
    Mut("time2step-rev", TK, "            return int((self.start_time - np.datetime64(time_)) // self.dt)", "            return -int((np.datetime64(time_) - self.start_time) // self.dt)", rule="R10.1"),
    Mut("direction-guard", TK, "        if time_reversal != (duration < np.timedelta64(0)):", "        if False and time_reversal != (duration < np.timedelta64(0)):", rule="R10.1"),
    Mut("stop-filter-not-mirrored", RL, "            self._df = self._df[self._df.index >= self.stop_time]  # Use < ?", "            self._df = self._df[self._df.index <= self.stop_time]  # Use < ?", rule="R10.2"),
    Mut("start-filter-strict", RL, "            self._df = self._df[self._df.index <= self.start_time]\n        else:", "            self._df = self._df[self._df.index < self.start_time]\n        else:", rule="R10.2"),
    Mut("start-filter-unconditional", RL, "        if timer.time_reversal:\n            self._df = self._df[self._df.index <= self.start_time]\n        else:\n            self._df = self._df[self._df.index >= self.start_time]", "        self._df = self._df[self._df.index >= self.start_time]", rule="R10.2"),
    Mut("freq-not-negated", RL, "            freq = -self.release_frequency", "            freq = self.release_frequency", rule="R10.2"),
    Mut("period-not-negated", ON, "        if timer.time_reversal:\n            self.output_period = -self.output_period\n", "", rule="R10.2"),
    Mut("period-step-negative", ON, "        self.output_period_step = self.output_period // timer.dt\n        if timer.time_reversal:\n            self.output_period = -self.output_period\n", "        if timer.time_reversal:\n            self.output_period = -self.output_period\n        self.output_period_step = self.output_period // timer.dt\n", rule="R10.2"),
    Mut("negate-u-only", RO, '            self.variables["v"] = -self.variables["v"]\n', "", rule="R10.2"),
    Mut("velocity-negate-u-only", RO, "            return sample3DUV(-U, -V, X - i0, Y - j0, self.K, self.A, method=method)", "            return sample3DUV(-U, V, X - i0, Y - j0, self.K, self.A, method=method)", rule="R10.2"),
    Mut("no-sort", RO, "        steps.sort()\n", "", rule="R10.3"),
    Mut("reopen-on-frame0", RO, "        elif self.file_idx[time_step] != self._nc_file:  # Open another file", "        elif self.frame_idx[time_step] == 0:  # Open another file", rule="R10.3"),
    Mut("benign-not-reversal", RL, "        if timer.time_reversal:\n            self._df = self._df[self._df.index >= self.stop_time]  # Use < ?\n        else:\n            self._df = self._df[self._df.index <= self.stop_time]  # Use < ?", "        if not timer.time_reversal:\n            self._df = self._df[self._df.index <= self.stop_time]\n        else:\n            self._df = self._df[self.stop_time <= self._df.index]", expect="silent"),
    Mut("benign-update-aug", TK, "            self.time = self.time - self.dt\n        else:\n            self.time = self.time + self.dt", "            self.time -= self.dt\n        else:\n            self.time += self.dt", expect="silent"),
]
